#!/usr/bin/env python3
"""Insert the seed x check matrix into DESIGN.md between the MATRIX markers."""
import json, os, re
HERE = os.path.dirname(os.path.dirname(os.path.abspath(__file__)))
m = json.load(open(os.path.join(HERE, "seeded", "MATRIX.json")))
rows = ["| seeded change | what it is | needs | own check | all checks that fire |", "|---|---|---|---|---|"]
for sid in sorted(m):
    meta = json.load(open(os.path.join(HERE, "seeded", sid, "meta.json"))) if os.path.exists(os.path.join(HERE, "seeded", sid, "meta.json")) else {}
    own = sid.split("-")[0]
    fired = [p for p in sorted(m[sid]) if m[sid][p]]
    keys = m[sid].get(own) or []
    first = keys[0].split("|", 1)[0] if keys else "—"
    rows.append("| %s | %s | %s | %s | %s |" % (sid, meta.get("change", ""), meta.get("needs_to_manifest", ""), ("**%s**" % first) if keys else "**missed**", ", ".join(fired)))
n = len(m)
own_hit = sum(1 for sid in m if m[sid].get(sid.split("-")[0]))
text = "\n".join(rows) + "\n\n%d kept seeded changes; %d are reported by the check of their own property (and %d by at least one check).\n" % (n, own_hit, sum(1 for sid in m if any(m[sid].values())))
p = os.path.join(HERE, "DESIGN.md")
s = open(p).read()
s = re.sub(r"<!-- MATRIX:BEGIN -->.*<!-- MATRIX:END -->", "<!-- MATRIX:BEGIN -->\n" + text.replace("\\", "\\\\") + "<!-- MATRIX:END -->", s, flags=re.S)
open(p, "w").write(s)
print(n, own_hit)
