#!/usr/bin/env python3
"""dbg_refactor.py <id> <prop> [keep]: print the failing obligations (with their text) of one check on one stored variant; with `keep` the scratch copy is left in place and printed."""
import json, os, shutil, subprocess, sys
HERE = os.path.dirname(os.path.dirname(os.path.abspath(__file__)))
sys.path.insert(0, os.path.join(HERE, "rules"))
from pvrules import selftest
rid, prop = sys.argv[1], sys.argv[2]
base = "refactors" if os.path.isdir(os.path.join(HERE, "refactors", rid)) else "seeded"
d = selftest.scratch_copy()
try:
    subprocess.check_call(["git", "apply", os.path.join(HERE, base, rid, "patch.diff")], cwd=d)
    bad, ctx = selftest.run_on(prop, d)
    for o in bad:
        print(o["key"], "@", o.get("site")); print("   ", o["what"][:400]); print("   ", (o.get("detail") or "")[-900:])
finally:
    if len(sys.argv) > 3:
        print("scratch kept:", d)
    else:
        shutil.rmtree(d, ignore_errors=True)
