#!/bin/sh
# run the repository's baseline test suite (guard off: there are no hooks) and print a summary
cd /repo && CARGO_NET_OFFLINE=true cargo test --workspace --no-fail-fast --offline 2>&1 | grep -E "^test result|FAILED|failed|panicked|error" 
