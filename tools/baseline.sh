#!/bin/sh
# run the repository's baseline test suite (guard off: there are no hooks) the way BASELINE.json does (nextest), plus the doc tests
cd /repo && CARGO_NET_OFFLINE=true cargo nextest run --workspace --no-fail-fast --offline 2>&1 | grep -E "Summary|FAIL|failed" ; CARGO_NET_OFFLINE=true cargo test --workspace --doc --offline 2>&1 | grep -E "^test result|FAILED"
