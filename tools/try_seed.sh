#!/bin/bash
# try_seed.sh <seed-dir-name> <prop...>: apply /verif/seeded/<name>/patch.diff to /repo, run the given checks, undo.
S=$1; shift
cd /repo && git apply /verif/seeded/$S/patch.diff || { echo "patch does not apply to /repo"; exit 2; }
cd /verif
for p in "$@"; do PV_EVIDENCE=/tmp/pv-evidence-seed ./pv check $p 2>&1 | grep -E "^VIOLATION|^  rule=|tier=" | head -8; done
git -C /repo checkout -- .
git -C /repo status --short | head -3
