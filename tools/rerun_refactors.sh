#!/bin/bash
# rerun every stored variant on the checks that raised an alarm last time (or all with --all)
cd /verif
for d in refactors/*/; do id=$(basename $d); 
  props=$(python3 -c "
import json,sys
r=json.load(open('$d/result.json'))['violations']
print(','.join(sorted(p for p,v in r.items() if v)))")
  if [ "$1" = "--all" ]; then python3 tools/try_refactor.py $id 2>&1 | tail -1 | cut -c1-900
  elif [ -n "$props" ]; then python3 tools/try_refactor.py $id --props=$props 2>&1 | tail -1 | cut -c1-900; fi
done
