#!/usr/bin/env python3
"""try_seed_scratch.py <seed-id> <prop...>: apply seeded/<id>/patch.diff to a scratch copy of /repo and run the given checks on it."""
import os, subprocess, sys, shutil
HERE = os.path.dirname(os.path.dirname(os.path.abspath(__file__)))
sys.path.insert(0, os.path.join(HERE, "rules"))
from pvrules import selftest, extract
sid, props = sys.argv[1], sys.argv[2:]
d = selftest.scratch_copy()
try:
    r = subprocess.run(["git", "apply", os.path.join(HERE, "seeded", sid, "patch.diff")], cwd=d, capture_output=True, text=True)
    if r.returncode:
        print("patch does not apply:", r.stderr[:300]); sys.exit(2)
    for p in props:
        try:
            bad, ctx = selftest.run_on(p, d)
            print("%s on %s: %d violation(s) %s" % (p, sid, len(bad), [o["key"] for o in bad][:5]))
        except extract.ExtractError as e:
            print("%s on %s: does not build: %s" % (p, sid, str(e)[-200:]))
finally:
    shutil.rmtree(d, ignore_errors=True)
