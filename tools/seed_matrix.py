#!/usr/bin/env python3
"""Run every check against every kept seeded change (on scratch copies of /repo) and record which checks fire: seeded/MATRIX.json.
usage: tools/seed_matrix.py [seed-id ...] [--props C01,C02] [--own]   (--own: only the own property check of each seed)"""
import json, os, subprocess, sys, shutil
HERE = os.path.dirname(os.path.dirname(os.path.abspath(__file__)))
sys.path.insert(0, os.path.join(HERE, "rules"))
from pvrules import selftest, extract

ALL = ["C%02d" % i for i in range(1, 21)]
args = [a for a in sys.argv[1:] if not a.startswith("--")]
props = ALL
own_only = "--own" in sys.argv[1:]
for a in sys.argv[1:]:
    if a.startswith("--props"):
        props = a.split("=", 1)[1].split(",")
seeds = args or sorted(d for d in os.listdir(os.path.join(HERE, "seeded")) if os.path.isdir(os.path.join(HERE, "seeded", d)))
mpath = os.path.join(HERE, "seeded", "MATRIX.json")
matrix = json.load(open(mpath)) if os.path.exists(mpath) else {}
for s in seeds:
    patch = os.path.join(HERE, "seeded", s, "patch.diff")
    d = selftest.scratch_copy()
    try:
        r = subprocess.run(["git", "apply", patch], cwd=d, capture_output=True, text=True)
        if r.returncode != 0:
            print(s, "PATCH DOES NOT APPLY", r.stderr[:200]); continue
        row = matrix.get(s, {})
        share = {}
        for p in ([s.split("-")[0]] if own_only else props):
            try:
                bad, ctx = selftest.run_on(p, d, share=share)
                row[p] = sorted({o["key"] for o in bad})[:6]
            except extract.ExtractError as e:
                row[p] = ["<does not build: %s>" % str(e)[-80:]]
        matrix[s] = row
        own = s.split("-")[0]
        print("%-7s own=%s fired_by=%s" % (s, "YES" if row.get(own) else "no ", [p for p in props if row.get(p)]))
        sys.stdout.flush()
        json.dump(matrix, open(mpath, "w"), indent=1, sort_keys=True)
    finally:
        shutil.rmtree(d, ignore_errors=True)
