#!/usr/bin/env python3
"""try_refactor.py <id> [<diff file> [<note file>]] [--props=C01,C02]: apply a behaviour-preserving variant to a scratch copy of /repo and run the checks
(all 20 by default; --tier=thorough for the thorough tier's extra configurations) on it.  Any violation is a FALSE ALARM of the machinery.  With a diff file the variant is first stored under /verif/refactors/<id>/."""
import json, os, shutil, subprocess, sys
HERE = os.path.dirname(os.path.dirname(os.path.abspath(__file__)))
sys.path.insert(0, os.path.join(HERE, "rules"))
from pvrules import selftest, extract, check
args = [a for a in sys.argv[1:] if not a.startswith("--")]
props = ["C%02d" % i for i in range(1, 21)]
tier = "quick"
for a in sys.argv[1:]:
    if a.startswith("--props="):
        props = a.split("=", 1)[1].split(",")
    if a.startswith("--tier="):
        tier = a.split("=", 1)[1]
rid = args[0]
rdir = os.path.join(HERE, "refactors", rid)
if len(args) > 1:
    os.makedirs(rdir, exist_ok=True)
    shutil.copy(args[1], os.path.join(rdir, "patch.diff"))
    if len(args) > 2 and os.path.exists(args[2]):
        shutil.copy(args[2], os.path.join(rdir, "note.md"))
d = selftest.scratch_copy()
res = {}
try:
    r = subprocess.run(["git", "apply", os.path.join(rdir, "patch.diff")], cwd=d, capture_output=True, text=True)
    if r.returncode:
        print(rid, "patch does not apply:", r.stderr[:300]); sys.exit(2)
    share = {}
    for p in props:
        try:
            bad, ctx = selftest.run_on(p, d, tier=tier, share=share)
            res[p] = sorted({o["key"] for o in bad})
        except extract.ExtractError as e:
            res[p] = ["<cannot analyse: %s>" % str(e)[-300:]]
    fa = {p: v for p, v in res.items() if v}
    print("%-8s %s" % (rid, ("FALSE ALARMS " + json.dumps(fa)[:1500]) if fa else "silent on all %d checks" % len(props)))
    old = {}
    rp = os.path.join(rdir, "result.json")
    if os.path.exists(rp):
        old = json.load(open(rp)).get("violations", {})
    old.update(res)
    json.dump({"violations": old}, open(rp, "w"), indent=1, sort_keys=True)
finally:
    shutil.rmtree(d, ignore_errors=True)
