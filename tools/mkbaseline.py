#!/usr/bin/env python3
"""mkbaseline.py: freeze the tables of function paths and ADT paths of the pinned tree (/repo HEAD, all configurations) into rules/baseline_fns.json.
Run only when the machinery is re-pinned to a new tree; the table is what `pvrules/inline.py` uses to tell a new helper from an anchor."""
import json, os, subprocess, sys
HERE = os.path.dirname(os.path.dirname(os.path.abspath(__file__)))
sys.path.insert(0, os.path.join(HERE, "rules"))
from pvrules import extract
fns = set()
adts = set()
for c in extract.CONFIGS:
    raw, info = extract.extract_repo(c)
    fns |= {b["path"] for b in raw["bodies"]}
    adts |= {a["path"] for a in raw.get("adts", [])}
head = subprocess.run(["git", "-C", "/repo", "rev-parse", "HEAD"], capture_output=True, text=True).stdout.strip()
dirty = subprocess.run(["git", "-C", "/repo", "status", "--porcelain"], capture_output=True, text=True).stdout.strip()
if dirty:
    print("refusing: /repo has uncommitted changes"); sys.exit(1)
json.dump({"pinned_commit": head, "functions": sorted(fns), "adts": sorted(adts)}, open(os.path.join(HERE, "rules", "baseline_fns.json"), "w"), indent=0)
print("baseline: %d functions at %s" % (len(fns), head))
