#!/usr/bin/env python3
"""Regenerate MANIFEST.json from the property modules (keeps it valid at all times)."""
import importlib, json, os, sys
HERE = os.path.dirname(os.path.dirname(os.path.abspath(__file__)))
sys.path.insert(0, os.path.join(HERE, "rules"))
props = [json.loads(l) for l in open(os.path.join(HERE, "properties.jsonl"))]
checks, na = [], []
NA_REASONS = {}
nap = os.path.join(HERE, "tools", "not_applicable.json")
if os.path.exists(nap):
    NA_REASONS = json.load(open(nap))
for p in props:
    pid = p["id"]
    if pid in NA_REASONS:
        na.append({"property_id": pid, "reason": NA_REASONS[pid]})
        continue
    try:
        mod = importlib.import_module("props." + pid)
    except ModuleNotFoundError:
        na.append({"property_id": pid, "reason": "check not built yet in this round (planned static rules: DESIGN.md §4.%s)" % pid})
        continue
    level = getattr(mod, "LEVEL", "other")
    checks.append({
        "property_id": pid,
        "quick_cmd": "./pv check %s --tier quick" % pid,
        "thorough_cmd": "./pv check %s --tier thorough" % pid,
        "evidence_file": "/verif/evidence/%s.json" % pid,
        "replay_cmd_template": "./pv replay {path}",
        "engine": "mirfacts+pvrules",
        "level_claimed": {"category": level, "text": getattr(mod, "EXPLANATION", ""), "design_ref": "DESIGN.md §4.%s" % pid},
        "level_note": "; ".join(getattr(mod, "ASSUMPTIONS", [])) or "trusted: rustc MIR construction, std/parking_lot primitives",
        "technique": getattr(mod, "TECHNIQUE", "static analysis: custom rules over rustc MIR (dominance, data-flow provenance, effect counts) extracted by a rustc_private driver"),
    })
allp = [p["id"] for p in props]
m = {"version": 1,
     "setup_cmd": "./pv setup",
     "hooks": {"guard": "prometheus_verif", "enable": "none needed: static analysis reads the source as it is (no hooks are compiled in)",
               "baseline_off_cmd": "cd /repo && cargo nextest run --workspace --no-fail-fast --offline  (fallback: cargo test --workspace --no-fail-fast --offline; no hooks exist, so guard-off is the plain build)", "source_commits": [], "add_only": True},
     "engines": [{"name": "mirfacts", "path": "driver/", "serves_properties": allp, "kind_free_text": "rustc_private driver dumping resolved MIR + item tables of /repo's current tree as JSON facts (no library code is executed)"},
                 {"name": "pvrules", "path": "rules/", "serves_properties": allp, "kind_free_text": "python rule library over MIR facts: CFG/dominators, data-flow terms, path rules, call graph, cross-config diff"},
                 {"name": "witness", "path": "harness/witness/", "serves_properties": ["C01", "C12", "C18"], "kind_free_text": "compile-fail witnesses with compiling twins, decided by rustc (cargo +nightly test --doc; twins are no_run, nothing is executed)"},
                 {"name": "harnesses", "path": "harness/", "serves_properties": ["C01", "C07", "C11", "C12", "C17", "C18", "C19", "C20"], "kind_free_text": "harness crates whose MIR is analysed: forms (C20 macro forms with hygiene decoys), smgen (generated static-metric declarations, C19), smreg (register_static_*/auto_flush_from!, C19), fixtures (positive controls for zero-count rules)"}],
     "checks": checks, "not_applicable": na,
     "notes": "All checks are static analyses of /repo's current working tree (MIR facts re-extracted on every run, nonce-checked). Genuine defects: known_findings.json. See DESIGN.md."}
json.dump(m, open(os.path.join(HERE, "MANIFEST.json"), "w"), indent=1)
print("checks:", [c["property_id"] for c in checks], "n/a:", [x["property_id"] for x in na])
