#!/bin/bash
# verify_seed.sh <prop> <n> [runs]: confirm a sub-agent's seed in its scratch worktree /tmp/seed-<prop>:
#   demo passes on the clean tree, fails with the seed; the full test suite passes with the seed.
# On success copies it to /verif/seeded/<prop>-<n>/ (patch.diff, demo.rs, note.md).
set -u
P=$1; N=$2; RUNS=${3:-2}
WT=${4:-/tmp/seed-$P}; OUT=${5:-$P-$N}
cd $WT || exit 2
export CARGO_NET_OFFLINE=true
git checkout -q -- . ; rm -f tests/demo_seed.rs
mkdir -p tests; cp SEED/demo$N.rs tests/demo_seed.rs
clean_ok=1
for i in $(seq $RUNS); do
  cargo test --offline --test demo_seed >/tmp/seedlog-$P-$N-clean.txt 2>&1 || clean_ok=0
done
git apply SEED/seed$N.diff || { echo "PATCH DOES NOT APPLY"; exit 2; }
seed_fail=0
for i in $(seq $RUNS); do
  cargo test --offline --test demo_seed >/tmp/seedlog-$P-$N-seeded.txt 2>&1 || seed_fail=$((seed_fail+1))
done
rm -f tests/demo_seed.rs; rmdir tests 2>/dev/null
suite_ok=1
# the baseline runner is nextest (one process per test: registry::tests::test_default_registry is flaky under the threaded libtest runner)
(cargo nextest run --workspace --no-fail-fast --offline && cargo test --workspace --doc --offline) >/tmp/seedlog-$P-$N-suite.txt 2>&1 || suite_ok=0
plain_ok=1
cargo check --offline --no-default-features >/dev/null 2>&1 || plain_ok=0
git checkout -q -- .
echo "seed $OUT: demo_clean_pass=$clean_ok demo_seeded_fail=$seed_fail/$RUNS suite_pass_with_seed=$suite_ok plain_builds=$plain_ok"
if [ $clean_ok = 1 ] && [ $seed_fail -ge 1 ] && [ $suite_ok = 1 ]; then
  D=/verif/seeded/$OUT; mkdir -p $D
  cp SEED/seed$N.diff $D/patch.diff; cp SEED/demo$N.rs $D/demo.rs; cp SEED/note$N.md $D/note.md 2>/dev/null
  echo "{\"confirmed\": {\"demo_clean_pass\": true, \"demo_seeded_fail\": \"$seed_fail/$RUNS\", \"suite_pass_with_seed\": true, \"plain_builds\": $plain_ok}}" > $D/confirm.json
  echo "KEPT $D"
else
  echo "REJECTED"
fi
