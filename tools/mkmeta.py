#!/usr/bin/env python3
"""Write seeded/<id>/meta.json for every kept seed (summary table below + confirm.json + MATRIX.json)."""
import json, os
HERE = os.path.dirname(os.path.dirname(os.path.abspath(__file__)))
S = {
 "C01-1": ("Clone for GenericLocalCounter copies the un-flushed local value (field-wise clone instead of new(counter.clone()))", "multi-step sequence: local.inc_by(n); local.clone(); flush both handles"),
 "C01-2": ("get_or_create_metric builds the child outside the write lock and inserts without re-check (insert overwrites)", "interleaving: two threads racing on the first request for the same label values; increments on the orphaned child are lost"),
 "C02-1": ("drop(collect_guard) moved before the two trailing hot_shard merges in HistogramCore::proto", "interleaving: two collectors overlapping at the tail of proto"),
 "C02-2": ("LocalHistogramCore::flush publishes shard.count (Release) before the bucket loop", "interleaving: a collect flipping in the middle of a concurrent local flush"),
 "C03-1": ("LocalHistogramCore::flush finds the hot shard with a plain get() and writes buckets/sum before claiming with inc_by", "interleaving: a collect between the get() and the claim of a concurrent local flush"),
 "C03-2": ("collect lock released two statements early in HistogramCore::proto (before hot_shard.count/sum merges)", "interleaving: two or more collector threads"),
 "C04-1": ("escape_string slow path iterates bytes() and pushes char::from(b)", "unusual input: an escapable character followed by a multi-byte character in help or a label value"),
 "C04-2": ("write_sample prints whole values below 2^53 through (value as i64).to_string()", "unusual input: a sample value of exactly -0.0"),
 "C05-1": ("SEPARATOR_BYTE changed from 0xFF to 0x1F (a valid UTF-8 byte)", "unusual input: a label value containing U+001F at a value boundary"),
 "C05-2": ("get_or_create_metric builds first and inserts under a short write lock without re-check", "interleaving: concurrent first requests for the same tuple"),
 "C06-1": ("unregister removes descriptor ids while summing them, before it knows whether the collector is registered", "multi-step history: bundles with overlapping descriptors, failed unregister, then register"),
 "C06-2": ("Registry::register split into check() under the read lock and admit() under the write lock", "interleaving: two concurrent registrations of mutually exclusive collectors"),
 "C07-1": ("gather sorts samples with sort_by_cached_key on label values joined by 0xFF instead of the pairwise comparator", "unusual input: label values where one is a strict prefix of another at the same position"),
 "C07-2": ("gather skips the registry prefix for families whose name already starts with '<prefix>_'", "configuration: a prefixed registry plus a metric named '<prefix>_x'"),
 "C08-1": ("HistogramCore::observe uses partition_point with f64::total_cmp instead of the first v <= bound scan", "unusual input: a -0.0 bound with a +0.0 observation, or a NaN with the sign bit set"),
 "C08-2": ("check_and_adjust_buckets pops the trailing +Inf before the default fill and the validation loop", "unusual input: bucket lists [+Inf] or [.., +Inf, +Inf]"),
 "C09-1": ("is_valid_ident rewritten as a match; tail predicate uses char::is_numeric instead of is_ascii_digit", "unusual input: a non-ASCII numeric character after the first character of a name"),
 "C09-2": ("HistogramCore::new checks `le` only when label_values is empty; HistogramVec::new checks only variable labels", "two cooperating sites: a HistogramVec with const_label(\"le\", ..) and at least one variable label"),
 "C10-1": ("get_or_create_metric builds before locking and returns the fresh child although or_insert_with kept an existing one", "interleaving: concurrent first requests; the loser's handle is not in the map"),
 "C10-2": ("MetricVecCore::collect clones the children under the read lock and reads child.metric() after releasing it", "interleaving: remove + later handle update between the two phases of a collect"),
 "C11-1": ("AtomicF64::dec_by gets its own CAS loop whose retry recomputes `new` from the stale value", "interleaving: CAS contention on a float gauge during sub/dec"),
 "C11-2": ("AtomicI64 inc_by/dec_by become get + checked_add + fetch_add, or set(MAX/MIN) on overflow", "boundary values near i64::MAX/MIN, or large operands from two threads"),
 "C12-1": ("GenericLocalCounterVec::remove_label_values deletes the shared child first (with `?`) and the local entry afterwards", "multi-step history over two local handles of one vec"),
 "C12-2": ("Drop for LocalHistogram flushes only if !std::thread::panicking()", "a local histogram (or local vec) dropped during panic unwinding"),
 "C13-1": ("ProtobufEncoder::encode frames by hand using cached_size()/compute_size() on a shared CodedOutputStream", "multi-step sequence: gather, encode, mutate the same MetricFamily, encode again"),
 "C13-2": ("Metric.timestamp_ms read/sized/written with the sint64 functions (zig-zag) in the generated code", "a sample with an explicit non-zero timestamp decoded by an independent decoder"),
 "C14-2": ("PullingGauge::collect declares COUNTER when the name ends in _total while metric() still fills a gauge payload", "unusual input: a pulling gauge named *_total"),
 "C15-1": ("Desc::new hashes fq_name without the separator before the first const label value", "boundary-shifted splits: (name, first const value) pairs that concatenate equally"),
 "C15-2": ("Desc::new pushes const label values while iterating the HashMap instead of in sorted-name order", "two const labels with different values and two maps iterating in different orders (hash seed)"),
 "C16-1": ("plain_model Metric::set_label sorts its argument", "configuration: --no-default-features plus a registry common label sorting before a metric label"),
 "C16-2": ("proto_ext Histogram::get_sample_count falls back to the last bucket's cumulative count when unset", "default features plus a hand-assembled Histogram without sample_count"),
 "C17-1": ("is_valid_ident uses input.split_at(1)", "unusual input: a name starting with a multi-byte character panics instead of Err"),
 "C17-2": ("text encoder reads buckets[buckets.len() - 1] instead of tracking inf_seen", "unusual input: a histogram family without explicit buckets"),
 "C18-1": ("Clone for LocalHistogram derived (no clear of the copy)", "multi-step: an un-flushed local.observe before local.start_timer"),
 "C18-2": ("both timers' Drop skip recording when std::thread::panicking()", "a timer dropped while its thread unwinds"),
 "C19-1": ("auto-flush leaves are created with with_label_values(&[..]) instead of with(name -> value map)", "a backing vector whose label order differs from the declaration (auto-flush variant, >= 2 labels)"),
 "C19-2": ("try_get gets a length fast path comparing value.len() (bytes) with the maximal char count", "a declared renamed value containing multi-byte characters"),
 "C20-1": ("histogram_opts! (name, help, buckets) arm drops non-finite bounds with retain(is_finite)", "unusual input: bucket lists containing -Inf, NaN or an explicit +Inf"),
 "C20-2": ("register_int_counter_vec_with_registry! loses local_inner_macros; its (name, help, ..) arm calls an unqualified opts!", "a caller that has its own opts! macro in scope (macro hygiene)"),
 "C04-3": ("write_sample's timestamp guard changed from != 0 to > 0", "unusual input: a sample with a negative timestamp_ms (custom collector)"),
 "C04-4": ("inf_seen hoisted out of the per-metric loop in the histogram arm of the text encoder", "a histogram family with >= 2 series where an earlier one has an explicit +Inf bucket and a later one has not"),
 "C06-3": ("Desc::new merges the two passes over the const labels: values are hashed in HashMap iteration order", "two equal descriptors with >= 2 const labels built independently (hash seed); register admits a duplicate"),
 "C06-4": ("register's scratch map of new dim hashes becomes a field that is not cleared on the early Err returns", "multi-step history: a multi-descriptor collector rejected on its second descriptor, then a later registration under the first name"),
 "C07-3": ("gather de-duplicates samples of same-name families through a BTreeSet<Vec<LabelPair>> (LabelPair orders by name only)", "two or more collectors registered under one name with different const-label values"),
 "C07-4": ("make_label_pairs skips variable labels whose value is the empty string", "a vector child created with an empty label value"),
 "C08-3": ("proto carries the drained sum over to the hot shard only if it is > 0.0", "a running sum <= 0 or NaN at collect time, and a second collect"),
 "C08-4": ("LocalHistogramCore::flush publishes shard.count before adding the sum", "interleaving: a collect inside a concurrent local flush"),
 "C09-3": ("Desc::new validates label names in one late pass over the name set, stripping the '$' marker first", "unusual input: a CONST label literally named \"$x\""),
 "C09-4": ("register's common-label clash check uses binary_search on desc.variable_labels (declaration order, unsorted)", "a vector whose variable labels are not in lexicographic order and clash with a registry common label"),
 "C12-3": ("LocalHistogramCore::observe uses partition_point(|f| f < v)", "unusual input: a NaN observed through a local histogram lands in bucket 0"),
 "C12-4": ("clear() returns early when count == 0 and flush() takes count/sum with mem::replace before its trailing clear()", "two cooperating edits + multi-step history: a second batch on the same local handle re-adds the first batch's bucket counts"),
 "C13-3": ("generated Histogram compute_size / write_to_with_cached_sizes skip buckets whose upper bound is +Inf", "a hand-built or custom-collector family with an explicit +Inf bucket"),
 "C13-4": ("ProtobufEncoder::encode serialises into a thread-local buffer that is not cleared on the `?` early returns", "multi-step: an encode refused after a valid family, then a later encode on the same thread"),
 "C14-3": ("gather re-declares UNTYPED families as GAUGE while leaving the untyped payload", "a custom Collector exporting an UNTYPED family"),
 "C14-4": ("register records the first-seen type per family name, gather overwrites declared types from that table, unregister keeps it", "multi-step history: register kind A, unregister, register kind B under the same name"),
 "C16-3": ("proto_ext Metric::from_label drops label pairs with an empty value (protobuf model only)", "default features plus an empty-string label value"),
 "C16-4": ("text encoder returns Err when *m.get_counter() == Default::default() (and likewise for the other payloads)", "--no-default-features plus a metric whose payload is still the zero value (MessageField default = unset vs plain default = zero)"),
 "C17-3": ("bucket ordering check uses partial_cmp(next).expect(..)", "unusual input: NaN at index >= 1 of a bucket list panics instead of Err"),
 "C17-4": ("get_or_create_metric returns self.children.read()[&hash].clone() after a separate insert", "interleaving: a concurrent remove between the insert and the index panics"),
 "C18-3": ("LocalHistogram::observe_closure_duration holds borrow_mut() across f()", "re-entrant use of the same local histogram inside the closure (RefCell double borrow)"),
 "C18-4": ("LocalHistogramTimer::observe returns early on !record before setting observed", "two cooperating sites: stop_and_discard leaves observed=false, Drop then records"),
 "C20-3": ("prometheus::register maps Err(AlreadyReg) to Ok(())", "multi-step: the same metric registered twice through a default-registry macro"),
 "C20-4": ("opts! merges several const-label maps first-wins (entry().or_insert_with) instead of last-wins (extend)", "unusual input: two label maps sharing a key"),
 "C01-3": ("GenericLocalCounter::flush folds the pending value in with get(); +=; set() instead of the atomic inc_by", "interleaving: another inc or flush between the get and the set is overwritten"),
 "C01-4": ("GenericLocalCounterVec::remove_label_values flushes the cached local and keeps the cache entry", "multi-step: use labels, remove, use the same labels again, flush — increments go to the orphaned child"),
 "C02-3": ("LocalHistogramCore::flush adds the batch sum with set(get() + sum) instead of the CAS loop", "interleaving: a second writer of the hot shard between get and set"),
 "C02-4": ("proto merges cold into hot only when > 0 (integer guards harmless, `cold_shard_sum > 0.0` drops negative / NaN sums)", "unusual input: a negative running sum and two collections"),
 "C03-3": ("proto: hot_shard.sum.inc_by(cold_shard_sum) only if cold_shard_sum > 0.0", "unusual input: negative observations and at least two collects"),
 "C03-4": ("LocalHistogramCore::observe finds the bucket with partition_point(|f| *f <= v)", "unusual input: a value equal to a bucket bound observed through a local batch"),
 "C05-3": ("hash_labels = hash_label_values(get_label_values(labels)): the cardinality check runs on the resolved vector", "unusual input: a label map with all declared names plus a superfluous key is accepted"),
 "C05-4": ("local vectors' remove_label_values deletes the shared child first and returns early with `?`", "multi-step: tuple removed through another handle, then local remove (Err) leaves a stale cached child"),
 "C10-3": ("delete_label_values / delete check contains_key under the read lock, then remove under a separate write lock and return Ok", "interleaving: two concurrent removes of the same child both succeed"),
 "C10-4": ("hash_label_values skips empty values (and their separator)", "unusual input: an empty label value — slice form and map form key the same tuple differently"),
 "C11-3": ("AtomicI64::set = load; fetch_add(val - current)", "interleaving: two concurrent sets mix into a value nobody wrote"),
 "C11-4": ("AtomicF64::dec_by normalises -0.0 with `if get() == 0.0 { set(0.0) }`", "interleaving: an add landing between the get and the set is overwritten when the gauge returns to exactly 0"),
 "C15-3": ("the id hasher skips empty const-label values", "unusual input: an empty const label value; {a:\"\",b:\"x\"} and {a:\"x\",b:\"\"} share an id"),
 "C15-4": ("dim_hash over sorted const names followed by sorted variable names without the `$` marker", "unusual input: the boundary between const and variable labels shifts while the combined sequence stays"),
 "C19-3": ("make_static_metric leaf label map takes the preceding label names from labels.iter().rev().skip(1)", "a declaration with three or more labels: names of labels 0 and 1 are swapped"),
 "C19-4": ("AFLocalHistogram::observe returns early on NaN", "unusual input: a NaN sample through the auto-flush histogram form only"),
}
mpath = os.path.join(HERE, "seeded", "MATRIX.json")
matrix = json.load(open(mpath)) if os.path.exists(mpath) else {}
for sid, (change, needs) in sorted(S.items()):
    d = os.path.join(HERE, "seeded", sid)
    if not os.path.isdir(d):
        print("missing", sid); continue
    conf = {}
    cp = os.path.join(d, "confirm.json")
    if os.path.exists(cp):
        conf = json.load(open(cp)).get("confirmed", {})
    row = matrix.get(sid, {})
    meta = {
        "id": sid, "property": sid.split("-")[0], "origin": "independent sub-agent given only the property text and a scratch worktree of /repo",
        "change": change, "needs_to_manifest": needs,
        "files": ["patch.diff (git diff against /repo HEAD with the fix: commits)", "demo.rs (integration test: passes without the patch, fails with it)", "note.md (the sub-agent's own notes)"],
        "confirmed_by_me": {"how": "tools/verify_seed.sh in the sub-agent's scratch worktree: demo on the clean tree, demo with the patch, full `cargo test --workspace --offline` with the patch, "
                                   "`cargo check --no-default-features` with the patch (C16-1 and C19-* were confirmed with the equivalent manual commands, see DESIGN.md §9)", **conf},
        "detected_by": {p: keys for p, keys in sorted(row.items()) if keys},
        "detected_by_own_property_check": bool(row.get(sid.split("-")[0])) if row else None,
    }
    json.dump(meta, open(os.path.join(d, "meta.json"), "w"), indent=1)
print("meta written for", len(S))
