#!/usr/bin/env python3
"""Write seeded/<id>/meta.json for every kept seed (summary table below + confirm.json + MATRIX.json)."""
import json, os
HERE = os.path.dirname(os.path.dirname(os.path.abspath(__file__)))
S = {
 "C01-1": ("Clone for GenericLocalCounter copies the un-flushed local value (field-wise clone instead of new(counter.clone()))", "multi-step sequence: local.inc_by(n); local.clone(); flush both handles"),
 "C01-2": ("get_or_create_metric builds the child outside the write lock and inserts without re-check (insert overwrites)", "interleaving: two threads racing on the first request for the same label values; increments on the orphaned child are lost"),
 "C02-1": ("drop(collect_guard) moved before the two trailing hot_shard merges in HistogramCore::proto", "interleaving: two collectors overlapping at the tail of proto"),
 "C02-2": ("LocalHistogramCore::flush publishes shard.count (Release) before the bucket loop", "interleaving: a collect flipping in the middle of a concurrent local flush"),
 "C03-1": ("LocalHistogramCore::flush finds the hot shard with a plain get() and writes buckets/sum before claiming with inc_by", "interleaving: a collect between the get() and the claim of a concurrent local flush"),
 "C03-2": ("collect lock released two statements early in HistogramCore::proto (before hot_shard.count/sum merges)", "interleaving: two or more collector threads"),
 "C04-1": ("escape_string slow path iterates bytes() and pushes char::from(b)", "unusual input: an escapable character followed by a multi-byte character in help or a label value"),
 "C04-2": ("write_sample prints whole values below 2^53 through (value as i64).to_string()", "unusual input: a sample value of exactly -0.0"),
 "C05-1": ("SEPARATOR_BYTE changed from 0xFF to 0x1F (a valid UTF-8 byte)", "unusual input: a label value containing U+001F at a value boundary"),
 "C05-2": ("get_or_create_metric builds first and inserts under a short write lock without re-check", "interleaving: concurrent first requests for the same tuple"),
 "C06-1": ("unregister removes descriptor ids while summing them, before it knows whether the collector is registered", "multi-step history: bundles with overlapping descriptors, failed unregister, then register"),
 "C06-2": ("Registry::register split into check() under the read lock and admit() under the write lock", "interleaving: two concurrent registrations of mutually exclusive collectors"),
 "C07-1": ("gather sorts samples with sort_by_cached_key on label values joined by 0xFF instead of the pairwise comparator", "unusual input: label values where one is a strict prefix of another at the same position"),
 "C07-2": ("gather skips the registry prefix for families whose name already starts with '<prefix>_'", "configuration: a prefixed registry plus a metric named '<prefix>_x'"),
 "C08-1": ("HistogramCore::observe uses partition_point with f64::total_cmp instead of the first v <= bound scan", "unusual input: a -0.0 bound with a +0.0 observation, or a NaN with the sign bit set"),
 "C08-2": ("check_and_adjust_buckets pops the trailing +Inf before the default fill and the validation loop", "unusual input: bucket lists [+Inf] or [.., +Inf, +Inf]"),
 "C09-1": ("is_valid_ident rewritten as a match; tail predicate uses char::is_numeric instead of is_ascii_digit", "unusual input: a non-ASCII numeric character after the first character of a name"),
 "C09-2": ("HistogramCore::new checks `le` only when label_values is empty; HistogramVec::new checks only variable labels", "two cooperating sites: a HistogramVec with const_label(\"le\", ..) and at least one variable label"),
 "C10-1": ("get_or_create_metric builds before locking and returns the fresh child although or_insert_with kept an existing one", "interleaving: concurrent first requests; the loser's handle is not in the map"),
 "C10-2": ("MetricVecCore::collect clones the children under the read lock and reads child.metric() after releasing it", "interleaving: remove + later handle update between the two phases of a collect"),
 "C11-1": ("AtomicF64::dec_by gets its own CAS loop whose retry recomputes `new` from the stale value", "interleaving: CAS contention on a float gauge during sub/dec"),
 "C11-2": ("AtomicI64 inc_by/dec_by become get + checked_add + fetch_add, or set(MAX/MIN) on overflow", "boundary values near i64::MAX/MIN, or large operands from two threads"),
 "C12-1": ("GenericLocalCounterVec::remove_label_values deletes the shared child first (with `?`) and the local entry afterwards", "multi-step history over two local handles of one vec"),
 "C12-2": ("Drop for LocalHistogram flushes only if !std::thread::panicking()", "a local histogram (or local vec) dropped during panic unwinding"),
 "C13-1": ("ProtobufEncoder::encode frames by hand using cached_size()/compute_size() on a shared CodedOutputStream", "multi-step sequence: gather, encode, mutate the same MetricFamily, encode again"),
 "C13-2": ("Metric.timestamp_ms read/sized/written with the sint64 functions (zig-zag) in the generated code", "a sample with an explicit non-zero timestamp decoded by an independent decoder"),
 "C14-2": ("PullingGauge::collect declares COUNTER when the name ends in _total while metric() still fills a gauge payload", "unusual input: a pulling gauge named *_total"),
 "C15-1": ("Desc::new hashes fq_name without the separator before the first const label value", "boundary-shifted splits: (name, first const value) pairs that concatenate equally"),
 "C15-2": ("Desc::new pushes const label values while iterating the HashMap instead of in sorted-name order", "two const labels with different values and two maps iterating in different orders (hash seed)"),
 "C16-1": ("plain_model Metric::set_label sorts its argument", "configuration: --no-default-features plus a registry common label sorting before a metric label"),
 "C16-2": ("proto_ext Histogram::get_sample_count falls back to the last bucket's cumulative count when unset", "default features plus a hand-assembled Histogram without sample_count"),
 "C17-1": ("is_valid_ident uses input.split_at(1)", "unusual input: a name starting with a multi-byte character panics instead of Err"),
 "C17-2": ("text encoder reads buckets[buckets.len() - 1] instead of tracking inf_seen", "unusual input: a histogram family without explicit buckets"),
 "C18-1": ("Clone for LocalHistogram derived (no clear of the copy)", "multi-step: an un-flushed local.observe before local.start_timer"),
 "C18-2": ("both timers' Drop skip recording when std::thread::panicking()", "a timer dropped while its thread unwinds"),
 "C19-1": ("auto-flush leaves are created with with_label_values(&[..]) instead of with(name -> value map)", "a backing vector whose label order differs from the declaration (auto-flush variant, >= 2 labels)"),
 "C19-2": ("try_get gets a length fast path comparing value.len() (bytes) with the maximal char count", "a declared renamed value containing multi-byte characters"),
 "C20-1": ("histogram_opts! (name, help, buckets) arm drops non-finite bounds with retain(is_finite)", "unusual input: bucket lists containing -Inf, NaN or an explicit +Inf"),
 "C20-2": ("register_int_counter_vec_with_registry! loses local_inner_macros; its (name, help, ..) arm calls an unqualified opts!", "a caller that has its own opts! macro in scope (macro hygiene)"),
}
mpath = os.path.join(HERE, "seeded", "MATRIX.json")
matrix = json.load(open(mpath)) if os.path.exists(mpath) else {}
for sid, (change, needs) in sorted(S.items()):
    d = os.path.join(HERE, "seeded", sid)
    if not os.path.isdir(d):
        print("missing", sid); continue
    conf = {}
    cp = os.path.join(d, "confirm.json")
    if os.path.exists(cp):
        conf = json.load(open(cp)).get("confirmed", {})
    row = matrix.get(sid, {})
    meta = {
        "id": sid, "property": sid.split("-")[0], "origin": "independent sub-agent given only the property text and a scratch worktree of /repo",
        "change": change, "needs_to_manifest": needs,
        "files": ["patch.diff (git diff against /repo HEAD with the fix: commits)", "demo.rs (integration test: passes without the patch, fails with it)", "note.md (the sub-agent's own notes)"],
        "confirmed_by_me": {"how": "tools/verify_seed.sh in the sub-agent's scratch worktree: demo on the clean tree, demo with the patch, full `cargo test --workspace --offline` with the patch, "
                                   "`cargo check --no-default-features` with the patch (C16-1 and C19-* were confirmed with the equivalent manual commands, see DESIGN.md §9)", **conf},
        "detected_by": {p: keys for p, keys in sorted(row.items()) if keys},
        "detected_by_own_property_check": bool(row.get(sid.split("-")[0])) if row else None,
    }
    json.dump(meta, open(os.path.join(d, "meta.json"), "w"), indent=1)
print("meta written for", len(S))
