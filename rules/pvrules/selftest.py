"""Self-test of the checkers: apply edit-spec mutants to a scratch copy of /repo and require fire / silence.

A mutant is a JSON file:
  {"property": "C01", "name": "...", "edits": [{"file": "src/atomic64.rs", "old": "...", "new": "..."}],
   "expect": "R3"            # substring that must occur in the key of a fired (non-known) violation; "" = any
  }
mutants/breaking/<Cxx>/*.json must fire; mutants/equivalent/<Cxx>/*.json must stay silent for that property."""
import glob
import importlib
import json
import os
import shutil
import subprocess
import sys
import tempfile

from . import check, extract

VERIF = extract.VERIF


def scratch_copy(repo="/repo"):
    d = tempfile.mkdtemp(prefix="pv-scratch-")
    subprocess.check_call(["rsync", "-a", "--exclude", "target", "--exclude", ".git", repo + "/", d + "/"])
    return d


def apply_edits(d, edits):
    for e in edits:
        p = os.path.join(d, e["file"])
        s = open(p).read()
        n = s.count(e["old"])
        if n != 1:
            return "edit does not apply (%d matches) in %s: %r" % (n, e["file"], e["old"][:60])
        s = s.replace(e["old"], e["new"])
        open(p, "w").write(s)
    return None


def run_on(prop, repo, tier="quick", share=None):
    """share: a dict reused between calls on the same tree, so that every configuration / harness is extracted once."""
    mod = importlib.import_module("props." + prop)
    ctx = check.Ctx(prop, tier=tier, repo=repo, quiet=True)
    if share is not None:
        ctx._facts = share.setdefault("facts", {})
        ctx._harness = share.setdefault("harness", {})
    mod.run(ctx)
    known = {k["key"] for k in check.load_known() if k.get("status") == "known" and k.get("property") == prop}
    bad = [o for o in ctx.obligations if not o["ok"] and o["key"] not in known]
    return bad, ctx


def run_mutant(path, kind):
    m = json.load(open(path))
    prop = m["property"]
    d = scratch_copy()
    try:
        err = None
        if m.get("base_patch"):
            # a mutant of a stored behaviour-preserving variant: that variant's patch first, then the edits
            import subprocess
            r_ = subprocess.run(["git", "apply", os.path.join(extract.VERIF, m["base_patch"])], cwd=d, capture_output=True, text=True)
            if r_.returncode:
                err = "base patch does not apply: " + r_.stderr[:200]
        err = err or apply_edits(d, m["edits"])
        if err:
            return {"mutant": path, "status": "skipped", "why": err}
        try:
            bad, ctx = run_on(prop, d)
        except extract.ExtractError as e:
            return {"mutant": path, "status": "skipped", "why": "does not compile: " + str(e)[-300:]}
        keys = [o["key"] for o in bad]
        if kind == "breaking":
            exp = m.get("expect", "")
            hit = [k for k in keys if exp in k]
            return {"mutant": path, "status": "fired" if hit else "MISSED", "keys": keys[:8]}
        else:
            return {"mutant": path, "status": "silent" if not keys else "FALSE-ALARM", "keys": keys[:8]}
    finally:
        shutil.rmtree(d, ignore_errors=True)


def collect(prop):
    """Run all mutants of one property; summary for the evidence file."""
    res = []
    for kind in ("breaking", "equivalent"):
        for p in sorted(glob.glob(os.path.join(VERIF, "mutants", kind, prop, "*.json"))):
            r = run_mutant(p, kind)
            r["kind"] = kind
            res.append(r)
    return {
        "breaking": sum(r["kind"] == "breaking" for r in res), "fired": sum(r["status"] == "fired" for r in res),
        "equivalent": sum(r["kind"] == "equivalent" for r in res), "silent": sum(r["status"] == "silent" for r in res),
        "skipped": sum(r["status"] == "skipped" for r in res),
        "missed": [os.path.basename(r["mutant"]) for r in res if r["status"] == "MISSED"],
        "false_alarms": [os.path.basename(r["mutant"]) for r in res if r["status"] == "FALSE-ALARM"],
        "mutants": {os.path.basename(r["mutant"]): {"status": r["status"], "keys": r.get("keys", [])[:3]} for r in res},
    }


def main(props):
    res = []
    for kind in ("breaking", "equivalent"):
        for p in sorted(glob.glob(os.path.join(VERIF, "mutants", kind, "*", "*.json"))):
            prop = os.path.basename(os.path.dirname(p))
            if props and prop not in props:
                continue
            r = run_mutant(p, kind)
            r["kind"] = kind
            res.append(r)
            print("SELFTEST %-10s %-11s %s %s" % (kind, r["status"], os.path.relpath(p, VERIF), r.get("why", "") or ",".join(r.get("keys", [])[:3])))
            sys.stdout.flush()
    bad = [r for r in res if r["status"] in ("MISSED", "FALSE-ALARM")]
    print("selftest: %d mutants, %d fired, %d silent, %d skipped, %d wrong" % (
        len(res), sum(r["status"] == "fired" for r in res), sum(r["status"] == "silent" for r in res),
        sum(r["status"] == "skipped" for r in res), len(bad)))
    return 1 if bad else 0
