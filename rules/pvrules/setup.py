"""setup: build the driver and warm the dependency caches of every configuration (offline)."""
import sys
import time
from . import extract


def main():
    t0 = time.time()
    extract.build_driver()
    print("driver built in %.1fs" % (time.time() - t0))
    for c in extract.CONFIGS:
        try:
            _, info = extract.extract_repo(c)
            print("warmed", info)
        except extract.ExtractError as e:
            print("WARNING: config %s could not be warmed: %s" % (c, str(e)[-500:]))
    import os
    hdir = os.path.join(extract.VERIF, "harness")
    if os.path.isdir(hdir):
        for h in sorted(os.listdir(hdir)):
            if os.path.exists(os.path.join(hdir, h, "Cargo.toml")) and os.path.exists(os.path.join(hdir, h, ".pvharness")):
                try:
                    _, info = extract.extract_harness(h)
                    print("warmed", info)
                except extract.ExtractError as e:
                    print("WARNING: harness %s could not be warmed: %s" % (h, str(e)[-500:]))
    try:
        from . import witness
        res, _ = witness.run_witnesses()
        print("warmed witness crate (%d doc tests)" % len(res))
    except extract.ExtractError as e:
        print("WARNING: witness crate could not be warmed: %s" % str(e)[-500:])
    print("setup done in %.1fs" % (time.time() - t0))
    return 0
