"""Core analyses over the MIR fact base: CFG, dominators, terms (data-flow provenance), call sites,
edge classification, path queries, call graph.  Everything here is a relation over resolved MIR;
nothing matches source text or line numbers (spans are carried for reports only)."""
import re
import sys
from collections import defaultdict, deque

sys.setrecursionlimit(10000)

# --------------------------------------------------------------------------------------------
# path normalisation


def strip_generics(path):
    """Remove `::<...>` turbofish groups and generic args inside `<T<..> as Tr<..>>` qualifiers."""
    out = []
    i = 0
    n = len(path)
    while i < n:
        if path.startswith("::<", i):
            depth = 0
            j = i + 2
            while j < n:
                if path[j] == "<":
                    depth += 1
                elif path[j] == ">":
                    if j > 0 and path[j - 1] == "-":
                        pass
                    else:
                        depth -= 1
                        if depth == 0:
                            break
                j += 1
            i = j + 1
            continue
        out.append(path[i])
        i += 1
    return "".join(out)


def split_qualified(path):
    """`<S as T>::rest` -> (S, T, rest) ; else None."""
    if not path.startswith("<"):
        return None
    depth = 0
    as_at = None
    i = 0
    n = len(path)
    while i < n:
        c = path[i]
        if c == "<":
            depth += 1
        elif c == ">" and not (i > 0 and path[i - 1] == "-"):
            depth -= 1
            if depth == 0:
                break
        elif depth == 1 and path.startswith(" as ", i) and as_at is None:
            as_at = i
        i += 1
    if i >= n:
        return None
    rest = path[i + 1:]
    if as_at is None:
        return (path[1:i], None, rest)
    return (path[1:as_at], path[as_at + 4:i], rest)


def strip_all_generics(s):
    """Remove every balanced <...> group."""
    out = []
    depth = 0
    for i, c in enumerate(s):
        if c == "<":
            depth += 1
        elif c == ">" and not (i > 0 and s[i - 1] == "-"):
            depth -= 1
        elif depth == 0:
            out.append(c)
    return "".join(out)


_names_memo = {}


def names_of(path):
    """All names under which a callee path can be matched: the path itself, generics stripped,
    `Trait::method` and `SelfType::method` for qualified paths."""
    if path in _names_memo:
        return _names_memo[path]
    res = {path, strip_generics(path)}
    q = split_qualified(path)
    if q:
        s_, t_, rest = q
        if t_:
            res.add(strip_all_generics(t_) + rest)
        s2 = s_.lstrip("&").replace("mut ", "").replace("dyn ", "")
        if s2.startswith("'"):
            s2 = s2.split(" ", 1)[-1]
        if s2.startswith("<"):
            pass
        else:
            res.add(strip_all_generics(s2) + rest)
    res = {strip_generics(x) for x in res} | res
    _names_memo[path] = res
    return res


def name_matches(names, pat):
    if hasattr(pat, "search"):
        return any(pat.search(n) for n in names)
    if isinstance(pat, (list, tuple, set, frozenset)):
        return any(name_matches(names, p) for p in pat)
    for n in names:
        if n == pat or n.endswith("::" + pat):
            return True
    return False


def short(path):
    """Last two segments of a def path (Type::method), generics stripped."""
    p = strip_generics(path)
    return p


class Body:
    def __init__(self, raw, facts):
        self.raw = raw
        self.facts = facts
        self.path = raw["path"]
        self.blocks = raw["blocks"]
        self.locals = raw["locals"]
        self.argc = raw["argc"]
        self.n = len(self.blocks)
        self.is_closure = raw["kind"] == "Closure"
        self._succ = None
        self._pred = None
        self._dom = None
        self._pdom = None
        self._defs = None
        self._calls = None
        self._term_memo = {}
        self._reach_memo = {}

    # ---------------------------------------------------------------- CFG (normal edges only)
    def is_cleanup(self, b):
        return bool(self.blocks[b].get("cleanup"))

    def succs(self, b):
        if self._succ is None:
            self._build_cfg()
        return self._succ[b]

    def preds(self, b):
        if self._pred is None:
            self._build_cfg()
        return self._pred[b]

    def _build_cfg(self):
        succ = []
        for bi, bb in enumerate(self.blocks):
            t = bb["term"]
            k = t["k"]
            s = []
            if bb.get("cleanup"):
                succ.append([])
                continue
            if k == "goto":
                s = [t["target"]]
            elif k == "switch":
                s = [a[1] for a in t["arms"]] + [t["otherwise"]]
            elif k in ("drop", "assert"):
                s = [t["target"]]
            elif k == "call":
                if "target" in t:
                    s = [t["target"]]
            # return / unreachable / resume / terminate: none
            seen = []
            for x in s:
                if x not in seen:
                    seen.append(x)
            succ.append(seen)
        pred = [[] for _ in self.blocks]
        for b, ss in enumerate(succ):
            for s in ss:
                pred[s].append(b)
        self._succ = succ
        self._pred = pred

    def reachable_from(self, b, avoid=()):
        key = (b, tuple(sorted(avoid)))
        if key in self._reach_memo:
            return self._reach_memo[key]
        avoid = set(avoid)
        seen = set()
        dq = deque([b])
        while dq:
            x = dq.popleft()
            if x in seen or x in avoid:
                continue
            seen.add(x)
            for s in self.succs(x):
                if s not in seen:
                    dq.append(s)
        self._reach_memo[key] = seen
        return seen

    def reach(self, start, avoid_blocks=(), avoid_edges=()):
        """Blocks reachable from start (inclusive) without entering avoid_blocks or taking avoid_edges."""
        avoid_blocks = set(avoid_blocks)
        avoid_edges = set(avoid_edges)
        seen = set()
        dq = deque([start])
        while dq:
            x = dq.popleft()
            if x in seen or x in avoid_blocks:
                continue
            seen.add(x)
            for s in self.succs(x):
                if (x, s) not in avoid_edges and s not in seen:
                    dq.append(s)
        return seen

    def return_variants_ps(self, start):
        """Variants (Ok / Err / Some / None / ... or None when unknown) the return place holds at the returns reachable from `start`, tracked like reach_ps."""
        self._ret_tags = []
        self.reach_ps(start, _collect=True)
        return list(self._ret_tags)

    def reach_ps(self, start, avoid_blocks=(), _collect=False, avoid_edges=(), assume=None):
        """Blocks reachable from `start` over normal edges with a little path sensitivity: the variant (Ok/Err, Continue/Break) of
        Result / ControlFlow values built on the path is tracked through moves, `Try::branch` and `discriminant`, and a switch on a known
        variant follows only the matching arm.  (Needed once a Result-returning helper is inlined: its `return Err(..)` and `Ok(())`
        meet in one block before the caller's `?`.)"""
        avoid = set(avoid_blocks)
        ZERO, ONE = ("Ok", "Continue", "None"), ("Err", "Break", "Some")
        seen = set()
        out = set()
        todo = [(start, ())]
        while todo:
            bi, st = todo.pop()
            if (bi, st) in seen or bi in avoid:
                continue
            seen.add((bi, st))
            out.add(bi)
            tags = dict(st)
            bb = self.blocks[bi]
            for s_ in bb["stmts"]:
                if s_["k"] != "assign":
                    continue
                pl, rv = s_["pl"], s_["rv"]
                if pl["p"]:
                    continue
                l = pl["l"]
                if rv["k"] == "agg" and rv.get("agg") == "adt" and rv.get("variant") in ZERO + ONE and (rv["adt"].endswith("result::Result") or rv["adt"].endswith("ControlFlow") or rv["adt"].endswith("option::Option")):
                    tags[l] = rv["variant"]
                elif rv["k"] == "use" and rv["ops"][0].get("k") in ("copy", "move") and not rv["ops"][0]["pl"]["p"] and rv["ops"][0]["pl"]["l"] in tags:
                    tags[l] = tags[rv["ops"][0]["pl"]["l"]]
                elif rv["k"] == "use" and rv["ops"][0].get("k") == "const" and rv["ops"][0].get("ty") == "bool" and rv["ops"][0].get("val") in ("true", "false"):
                    tags[l] = ("bool", rv["ops"][0]["val"] == "true")       # a literal flag (e.g. the argument of an inlined `observe(true)`)
                elif rv["k"] == "unop" and rv.get("op") == "Not" and rv["ops"][0].get("k") in ("copy", "move") and not rv["ops"][0]["pl"]["p"] \
                        and isinstance(tags.get(rv["ops"][0]["pl"]["l"]), tuple) and tags[rv["ops"][0]["pl"]["l"]][0] == "bool":
                    tags[l] = ("bool", not tags[rv["ops"][0]["pl"]["l"]][1])
                elif rv["k"] == "discr" and not rv["pl"]["p"] and isinstance(tags.get(rv["pl"]["l"]), str):
                    tags[l] = ("discr", tags[rv["pl"]["l"]])
                else:
                    tags.pop(l, None)
            t = bb["term"]
            succs = self.succs(bi)
            if _collect and t["k"] == "return":
                self._ret_tags.append(tags.get(0) if isinstance(tags.get(0), str) else None)
            if t["k"] == "call" and not t["dest"]["p"]:
                d = t["dest"]["l"]
                nm = t.get("callee", "")
                a0 = t["args"][0] if t.get("args") else None
                at = tags.get(a0["pl"]["l"]) if a0 and a0.get("k") in ("copy", "move") and not a0["pl"]["p"] else None
                if nm.endswith("Try::branch") and at in ("Ok", "Err", "Some", "None"):
                    tags[d] = "Continue" if at in ("Ok", "Some") else "Break"
                elif assume and bi in assume:
                    tags[d] = assume[bi]      # a fact about this call's result established by the caller (e.g. `mem::replace(&mut flag, true)` of a flag known to be unset)
                elif nm.endswith("FromResidual::from_residual"):
                    tags[d] = "Err"
                elif re.search(r"result::Result::<.*>::(map|map_err|inspect|inspect_err)$|option::Option::<.*>::(map|inspect|filter_map_never)$", nm) and at in ("Ok", "Err", "Some", "None"):
                    tags[d] = at            # the payload changes, the variant does not
                else:
                    tags.pop(d, None)
            elif t["k"] == "switch":
                dop = t["discr"]
                dt = tags.get(dop["pl"]["l"]) if dop.get("k") in ("copy", "move") and not dop["pl"]["p"] else None
                if isinstance(dt, tuple) and dt[0] == "discr":
                    want = 0 if dt[1] in ZERO else 1
                    hit = [a[1] for a in t["arms"] if int(a[0]) == want]
                    succs = hit if hit else [t["otherwise"]]
                elif isinstance(dt, tuple) and dt[0] == "bool":
                    want = 1 if dt[1] else 0
                    hit = [a[1] for a in t["arms"] if int(a[0]) == want]
                    succs = hit if hit else [t["otherwise"]]
            nst = tuple(sorted(tags.items(), key=lambda kv: kv[0]))
            for s2 in succs:
                if avoid_edges and (bi, s2) in avoid_edges:
                    continue
                if s2 in self._normal_blocks():
                    todo.append((s2, nst))
        return out

    def err_places(self):
        """Locals an `Err(..)` assigned to which is returned by the function: the return place, and the result place of an expanded fallible helper --
        a local that is only ever assigned Ok(..)/Err(..) aggregates and is consumed by one `?` whose residual goes to the return place."""
        if getattr(self, "_errp", None) is not None:
            return self._errp
        res = {0}
        cand = {}
        moved = {}
        bad = set()
        zero_other = False      # the return place is written by something other than a moved result, an Ok/Err value or the residual of a `?`
        for bi in self.reachable_blocks():
            bb = self.blocks[bi]
            for st in bb["stmts"]:
                if st["k"] == "assign" and not st["pl"]["p"]:
                    rv = st["rv"]
                    if rv["k"] == "agg" and rv.get("agg") == "adt" and rv["adt"].endswith("result::Result") and rv.get("variant") in ("Ok", "Err"):
                        cand.setdefault(st["pl"]["l"], 0)
                    elif rv["k"] == "use" and rv["ops"][0].get("k") == "move" and not rv["ops"][0]["pl"]["p"] and st["pl"]["l"] not in moved:
                        moved[st["pl"]["l"]] = rv["ops"][0]["pl"]["l"]      # the result place handed on to the `?`
                    else:
                        bad.add(st["pl"]["l"])
                        zero_other = zero_other or st["pl"]["l"] == 0
            t = bb["term"]
            if t["k"] == "call" and not t["dest"]["p"]:
                bad.add(t["dest"]["l"])
                if t["dest"]["l"] == 0 and not t.get("callee", "").endswith("FromResidual::from_residual"):
                    zero_other = True
        residual_returned = any(self.blocks[bi]["term"]["k"] == "call" and self.blocks[bi]["term"].get("callee", "").endswith("FromResidual::from_residual")
                                and self.blocks[bi]["term"]["dest"]["l"] == 0 and not self.blocks[bi]["term"]["dest"]["p"] for bi in self.reachable_blocks())
        if residual_returned:
            for bi in self.reachable_blocks():
                t = self.blocks[bi]["term"]
                if t["k"] == "call" and t.get("callee", "").endswith("Try::branch") and t.get("args") and t["args"][0].get("k") == "move" and not t["args"][0]["pl"]["p"]:
                    l = t["args"][0]["pl"]["l"]
                    if l in moved and l not in bad and l not in cand:
                        l = moved[l]
                    if l in cand:
                        cand[l] += 1
            res |= {l for l, n in cand.items() if n == 1 and l not in bad}
        # ... or is handed back as it is: `_0 = move r` (the expanded helper is the function's tail call)
        if 0 in moved and moved[0] in cand and moved[0] not in bad and not zero_other:
            res.add(moved[0])
        self._errp = res
        return res

    def _normal_blocks(self):
        if getattr(self, "_nb", None) is None:
            self._nb = {i for i, b in enumerate(self.blocks) if not b.get("cleanup")}
        return self._nb

    def reachable_blocks(self):
        return self.reachable_from(0)

    def strictly_after(self, b, avoid=()):
        """Blocks reachable from the successors of b (b itself only if on a cycle)."""
        res = set()
        for s in self.succs(b):
            res |= self.reachable_from(s, avoid)
        return res

    def exits(self):
        """Blocks whose terminator is a normal return."""
        return [i for i in self.reachable_blocks() if self.blocks[i]["term"]["k"] == "return"]

    def diverging(self):
        """Reachable non-cleanup blocks without successors that are not returns (panics / unreachable)."""
        return [i for i in self.reachable_blocks()
                if not self.succs(i) and self.blocks[i]["term"]["k"] != "return"]

    # dominators (iterative)
    def dominators(self):
        if self._dom is not None:
            return self._dom
        nodes = sorted(self.reachable_blocks())
        dom = {n: set(nodes) for n in nodes}
        dom[0] = {0}
        changed = True
        order = self._rpo()
        while changed:
            changed = False
            for n in order:
                if n == 0:
                    continue
                ps = [p for p in self.preds(n) if p in dom]
                if not ps:
                    continue
                new = set.intersection(*(dom[p] for p in ps)) | {n}
                if new != dom[n]:
                    dom[n] = new
                    changed = True
        self._dom = dom
        return dom

    def _rpo(self):
        seen = set()
        order = []

        def dfs(b):
            stack = [(b, iter(self.succs(b)))]
            seen.add(b)
            while stack:
                node, it = stack[-1]
                adv = False
                for s in it:
                    if s not in seen:
                        seen.add(s)
                        stack.append((s, iter(self.succs(s))))
                        adv = True
                        break
                if not adv:
                    order.append(node)
                    stack.pop()
        dfs(0)
        order.reverse()
        return order

    def dominates(self, a, b):
        """Block a dominates block b (normal CFG)."""
        d = self.dominators()
        return b in d and a in d[b]

    def edge_dominates(self, src, tgt, block):
        """Every path from the entry to `block` takes the CFG edge src->tgt."""
        return block not in self.reach(0, avoid_edges=[(src, tgt)])

    def postdominators(self):
        """Post-dominators with respect to normal returns: a pdom b iff every path from b to a return
        passes through a.  Paths that diverge (panic) are ignored."""
        if self._pdom is not None:
            return self._pdom
        nodes = sorted(self.reachable_blocks())
        exits = set(self.exits())
        # only nodes that can reach an exit matter
        can = set()
        dq = deque(exits)
        while dq:
            x = dq.popleft()
            if x in can:
                continue
            can.add(x)
            for p in self.preds(x):
                if p not in can:
                    dq.append(p)
        pd = {n: set(can) for n in can}
        for e in exits:
            pd[e] = {e}
        changed = True
        while changed:
            changed = False
            for n in can:
                if n in exits:
                    continue
                ss = [s for s in self.succs(n) if s in can]
                if not ss:
                    continue
                new = set.intersection(*(pd[s] for s in ss)) | {n}
                if new != pd[n]:
                    pd[n] = new
                    changed = True
        self._pdom = pd
        self._can_exit = can
        return pd

    def postdominates(self, a, b):
        pd = self.postdominators()
        return b in pd and a in pd[b]

    def can_reach_exit(self, b):
        self.postdominators()
        return b in self._can_exit

    def back_edges(self):
        res = []
        for b in self.reachable_blocks():
            for s in self.succs(b):
                if self.dominates(s, b):
                    res.append((b, s))
        return res

    def natural_loop(self, back):
        tail, head = back
        loop = {head}
        st = [tail]
        while st:
            x = st.pop()
            if x in loop:
                continue
            loop.add(x)
            st.extend(self.preds(x))
        return loop

    def loops(self):
        """dict head -> set of blocks (union of natural loops with that head)."""
        res = {}
        for be in self.back_edges():
            res.setdefault(be[1], set()).update(self.natural_loop(be))
        return res

    def in_loop(self, b):
        return any(b in l for l in self.loops().values())

    def all_paths_pass(self, src, through, dst_set=None):
        """Every normal path from block src to a return (or to dst_set) passes through a block in `through`."""
        through = set(through)
        if src in through:
            return True
        targets = set(dst_set) if dst_set is not None else set(self.exits())
        reach = self.reach_ps(src, avoid_blocks=through)   # infeasible Ok/Err combinations are pruned (see reach_ps)
        return not (reach & targets)

    # ---------------------------------------------------------------- definitions
    def defs(self):
        """local -> list of ('assign', bb, idx, rvalue) | ('call', bb, term) | ('partial', bb, idx, place, rvalue)"""
        if self._defs is not None:
            return self._defs
        d = defaultdict(list)
        # pointers that are `&mut L.q` of a local L and nothing else: a store through one of them is a store into L (a `&mut self` helper expanded into its caller
        # writes the caller's struct local this way)
        ptr_defs = defaultdict(list)
        for bi, bb in enumerate(self.blocks):
            if bb.get("cleanup"):
                continue
            for st in bb["stmts"]:
                if st["k"] == "assign" and not st["pl"]["p"]:
                    ptr_defs[st["pl"]["l"]].append(st["rv"])
            t = bb["term"]
            if t["k"] == "call" and not t["dest"]["p"]:
                ptr_defs[t["dest"]["l"]].append(None)
        ptr_of = {}
        for l_, rvs in ptr_defs.items():
            if len(rvs) == 1 and rvs[0] is not None and rvs[0].get("k") == "ref" and rvs[0].get("bk") == "mut" and not any(q[0] == "deref" for q in rvs[0]["pl"]["p"]) \
                    and l_ > self.argc:
                ptr_of[l_] = rvs[0]["pl"]
        # further levels: `_b = &mut (*_a)` (a reborrow made for a call), `_c = move _b` (the argument of an expanded helper)
        for _round in range(4):
            grown = False
            for l_, rvs in ptr_defs.items():
                if l_ in ptr_of or len(rvs) != 1 or rvs[0] is None or l_ <= self.argc:
                    continue
                rv_ = rvs[0]
                if rv_.get("k") == "ref" and rv_.get("bk") == "mut":
                    pl_ = rv_["pl"]
                    if pl_["p"] and pl_["p"][0][0] == "deref" and pl_["l"] in ptr_of and not any(q[0] == "deref" for q in pl_["p"][1:]):
                        base = ptr_of[pl_["l"]]
                        ptr_of[l_] = {"l": base["l"], "p": list(base["p"]) + list(pl_["p"][1:])}
                        grown = True
                elif rv_.get("k") == "use" and rv_["ops"][0].get("k") in ("move", "copy") and not rv_["ops"][0]["pl"]["p"] and rv_["ops"][0]["pl"]["l"] in ptr_of:
                    ptr_of[l_] = ptr_of[rv_["ops"][0]["pl"]["l"]]
                    grown = True
            if not grown:
                break
        for bi, bb in enumerate(self.blocks):
            if bb.get("cleanup"):
                continue
            for si, st in enumerate(bb["stmts"]):
                if st["k"] == "assign":
                    pl = st["pl"]
                    if not pl["p"]:
                        d[pl["l"]].append(("assign", bi, si, st["rv"]))
                    elif pl["p"][0][0] != "deref":
                        d[pl["l"]].append(("partial", bi, si, pl, st["rv"]))
                    elif pl["l"] in ptr_of and len(pl["p"]) > 1:
                        base = ptr_of[pl["l"]]
                        d[base["l"]].append(("partial", bi, si, {"l": base["l"], "p": list(base["p"]) + list(pl["p"][1:])}, st["rv"]))
                elif st["k"] == "setdiscr":
                    pl = st["pl"]
                    d[pl["l"]].append(("partial", bi, si, pl, None))
            t = bb["term"]
            if t["k"] == "call":
                pl = t["dest"]
                if not pl["p"]:
                    d[pl["l"]].append(("call", bi, t))
                elif pl["p"][0][0] != "deref":
                    d[pl["l"]].append(("partial", bi, -1, pl, None))
                elif pl["l"] in ptr_of and len(pl["p"]) > 1:
                    base = ptr_of[pl["l"]]
                    d[base["l"]].append(("partial", bi, -1, {"l": base["l"], "p": list(base["p"]) + list(pl["p"][1:])}, None))
        self._defs = d
        return d

    def local_name(self, l):
        return self.locals[l].get("name")

    def local_ty(self, l):
        return self.locals[l]["ty"]

    def local_by_name(self, name):
        return [i for i, l in enumerate(self.locals) if l.get("name") == name]

    # ---------------------------------------------------------------- terms
    def term_local(self, l, depth=0):
        key = l
        if key in self._term_memo:
            v = self._term_memo[key]
            if v is None:
                return ("cyc", l)
            return v
        self._term_memo[key] = None
        res = self._term_local(l, depth)
        self._term_memo[key] = res
        return res

    def _term_local(self, l, depth):
        if 1 <= l <= self.argc:
            # a parameter that is re-assigned is rare; treat params as params
            return ("param", l)
        ds = self.defs().get(l, [])
        full = [d for d in ds if d[0] in ("assign", "call")]
        partial = [d for d in ds if d[0] == "partial"]
        if len(full) == 1 and not partial:
            d = full[0]
            if d[0] == "assign":
                return self.term_rvalue(d[3], (d[1], d[2]))
            else:
                return self.term_call(d[1])
        if not full and not partial:
            return ("undef", l)
        # several definitions: a variable (alternatives via var_alts, so that terms stay finite)
        return ("var", l)

    def var_alts(self, l):
        """Terms of all full definitions of a multiply-assigned local."""
        alts = []
        for d in self.defs().get(l, []):
            if d[0] == "assign":
                alts.append(self.term_rvalue(d[3], (d[1], d[2])))
            elif d[0] == "call":
                alts.append(self.term_call(d[1]))
        return alts

    def place_alts(self, t):
        """Terms of everything stored in the storage location `t`: a multiply-assigned local (`var`), or one field of such a local (`var.f`, a piece of state kept in a
        struct local): the field's value in every full definition of the struct plus every assignment to that field alone."""
        if isinstance(t, tuple) and len(t) == 2 and t[0] == "var":
            return self.var_alts(t[1])
        if isinstance(t, tuple) and len(t) == 3 and t[0] == "field" and isinstance(t[1], tuple) and len(t[1]) == 2 and t[1][0] == "var":
            alts = []
            for d in self.defs().get(t[1][1], []):
                if d[0] == "assign":
                    alts.append(self.apply_proj(self.term_rvalue(d[3], (d[1], d[2])), [("field", None, t[2])]))
                elif d[0] == "call":
                    alts.append(("field", self.term_call(d[1]), t[2]))
                elif d[0] == "partial":
                    pj = d[3]["p"]
                    if pj and pj[0][0] == "field" and pj[0][2] == t[2]:
                        if len(pj) > 1:
                            alts.append(("other", "partial store below the field"))
                        elif d[4] is not None:
                            alts.append(self.term_rvalue(d[4], (d[1], d[2])))
                        elif d[2] == -1:
                            alts.append(self.term_call(d[1]))
                        else:
                            alts.append(("other", "set_discriminant"))
            return alts
        return []

    def dominates_ps(self, a, b):
        """Every feasible path from the entry to block b passes block a (feasible as in reach_ps: the arm of a `?` follows the variant built on the path)."""
        return a == b or b not in self.reach_ps(0, avoid_blocks={a})

    _PRIM_CMP = re.compile(r"^<(&*)(f64|f32|u8|u16|u32|u64|u128|usize|i8|i16|i32|i64|i128|isize|bool|char) as std::cmp::Partial(Ord|Eq)(<[^>]*>)?>::(lt|le|gt|ge|eq|ne)$")

    def term_call(self, bi):
        t = self.blocks[bi]["term"]
        args = tuple(self.term_operand(a) for a in t["args"])
        # comparing two references to primitive values (`a >= b` with a, b: &f64) goes through PartialOrd on the reference type; it is the comparison of the values
        m = self._PRIM_CMP.match(t.get("callee_args") or "")
        if m and len(args) == 2:
            def val(x):
                for _ in range(len(m.group(1)) + 1):
                    if isinstance(x, tuple) and x and x[0] == "ref":
                        x = x[1]
                    else:
                        x = ("deref", x)
                return x
            op = {"lt": "Lt", "le": "Le", "gt": "Gt", "ge": "Ge", "eq": "Eq", "ne": "Ne"}[m.group(5)]
            return ("binop", op, val(args[0]), val(args[1]))
        return ("call", callee_name(t), args, bi)

    def term_place(self, pl):
        base = self.term_local(pl["l"])
        return self.apply_proj(base, pl["p"])

    def apply_proj(self, base, projs):
        t = base
        for p in projs:
            k = p[0]
            if k == "deref":
                if t[0] == "ref":
                    t = t[1]
                else:
                    t = ("deref", t)
            elif k == "field":
                # `x?` where x is the result place of an expanded fallible helper (one `Ok(v)`, every other definition an `Err(..)`): the value is v
                if t[0] == "downcast" and t[2] == "Continue" and str(p[2]) == "0" and isinstance(t[1], tuple) and t[1] and t[1][0] == "call" and t[1][1].endswith("Try>::branch") and t[1][2]:
                    v = self._ok_payload_of(t[1][2][0])
                    if v is not None:
                        t = v
                        continue
                # field of a struct local that is built once by an aggregate and later only has OTHER fields re-assigned
                if t[0] == "var":
                    ds = self.defs().get(t[1], [])
                    full = [d for d in ds if d[0] in ("assign", "call")]
                    part = [d for d in ds if d[0] == "partial"]
                    if len(full) == 1 and full[0][0] == "assign" and full[0][3]["k"] == "agg" and full[0][3].get("agg") == "adt" \
                            and not any(d[3]["p"] and d[3]["p"][0][0] == "field" and d[3]["p"][0][2] == p[2] for d in part) \
                            and not isinstance(p[2], int) and p[2] in full[0][3].get("fields", []):
                        t = self.term_operand(full[0][3]["ops"][full[0][3]["fields"].index(p[2])])
                        continue
                    # ... or that is a moved value (`let mut timer = self;`) of which only OTHER fields are written afterwards: this field is still the moved value's
                    if len(full) == 1 and full[0][0] == "assign" and full[0][3]["k"] == "use" and part \
                            and not any(d[3]["p"] and d[3]["p"][0][0] == "field" and d[3]["p"][0][2] == p[2] for d in part) \
                            and all(d[3]["p"] and d[3]["p"][0][0] == "field" for d in part):
                        src_ = self.term_rvalue(full[0][3], (full[0][1], full[0][2]))
                        if isinstance(src_, tuple) and len(src_) == 2 and src_[0] == "param":
                            t = ("field", src_, p[2])
                            continue
                # field of an aggregate whose construction we know
                if t[0] == "agg" and t[1] in ("tuple", "closure") and p[1] < len(t[3]):
                    t = t[3][p[1]]
                elif t[0] == "agg" and t[1] == "adt" and not isinstance(p[2], int) and p[2] in t[4]:
                    t = t[3][t[4].index(p[2])]
                elif t[0] == "field" and t[2] in getattr(self.facts, "wrapper_fields", {}) and p[2] in self.facts.wrapper_fields[t[2]]:
                    # `self.inner.local` where `inner` only wraps what used to be the struct's own fields (Facts._compute_wrappers)
                    t = ("field", t[1], p[2])
                else:
                    t = ("field", t, p[2])
            elif k == "index":
                t = ("index", t, self.term_local(p[1]))
            elif k == "downcast":
                t = ("downcast", t, p[2])
            elif k == "cindex":
                t = ("cindex", t, p[1], p[3])
            else:
                t = (k, t)
        return t

    def _ok_payload_of(self, x):
        if not (isinstance(x, tuple) and len(x) == 2 and x[0] == "var"):
            return None
        alts = self.var_alts(x[1])
        if len(alts) == 1 and isinstance(alts[0], tuple) and len(alts[0]) == 2 and alts[0][0] == "var":
            alts = self.var_alts(alts[0][1])
        oks = [a for a in alts if isinstance(a, tuple) and a and a[0] == "agg" and a[1] == "adt" and a[2].endswith("Result::Ok") and a[3]]
        rest = [a for a in alts if a not in oks]
        if len(oks) == 1 and rest and all(isinstance(a, tuple) and a and a[0] == "agg" and a[1] == "adt" and a[2].endswith("Result::Err") for a in rest):
            return oks[0][3][0]
        return None

    def term_operand(self, op):
        k = op["k"]
        if k in ("copy", "move"):
            return self.term_place(op["pl"])
        if k == "const":
            if "fn" in op:
                return ("fn", op["fn"], op.get("fnargs"))
            if "static" in op:
                return ("static", op["static"])
            if "def" in op and "promoted" not in op:
                return ("constdef", op["def"], op.get("bits"), op.get("val"))
            if "promoted" in op:
                pt = self.promoted_term(op["promoted"])
                if pt is not None:
                    return pt
            return ("const", op.get("val"), op.get("ty"), op.get("bits"))
        return ("other", str(op))

    def promoted_term(self, idx):
        """Value of the idx-th promoted constant of this body (e.g. `&Some(&f64::INFINITY)`) as a term, when its little body is straight-line; else None."""
        memo = self.__dict__.setdefault("_prom_memo", {})
        if idx in memo:
            return memo[idx]
        memo[idx] = None
        proms = self.raw.get("promoted") or []
        try:
            idx = int(idx)
        except (TypeError, ValueError):
            return None
        if idx >= len(proms) or self.raw.get("kind") == "Promoted":
            return None
        try:
            pb = Body(proms[idx], self.facts)
            if len(pb.reachable_blocks()) <= 3:
                t = pb.term_local(0)
                if isinstance(t, tuple) and t and t[0] not in ("var", "cyc", "other"):
                    memo[idx] = t
        except Exception:  # noqa
            memo[idx] = None
        return memo[idx]

    def term_rvalue(self, rv, loc=None):
        k = rv["k"]
        if k == "use":
            return self.term_operand(rv["ops"][0])
        if k == "ref":
            inner = self.term_place(rv["pl"])
            if inner[0] == "deref":
                return inner[1]   # reborrow &*x == x
            return ("ref", inner)
        if k == "rawptr":
            return ("rawptr", self.term_place(rv["pl"]))
        if k == "binop":
            return ("binop", rv["op"], self.term_operand(rv["ops"][0]), self.term_operand(rv["ops"][1]))
        if k == "unop":
            return ("unop", rv["op"], self.term_operand(rv["ops"][0]))
        if k == "cast":
            return ("cast", rv["cast"], self.term_operand(rv["ops"][0]), rv["ty"])
        if k == "discr":
            return ("discr", self.term_place(rv["pl"]))
        if k == "agg":
            ops = tuple(self.term_operand(o) for o in rv["ops"])
            a = rv["agg"]
            if a == "adt":
                w = getattr(self.facts, "wrappers", {}).get(rv["adt"])
                if w is not None and len(ops) >= 1:
                    # Outer { inner: Inner { a, b } }  ->  Outer { a, b }
                    wi = list(rv["fields"]).index(w[0]) if w[0] in rv["fields"] else None
                    it = peel(ops[wi], transparent=[]) if wi is not None else None
                    if isinstance(it, tuple) and it and it[0] == "agg" and it[1] == "adt" and it[2].startswith(w[1] + "::"):
                        rest = [(o_, n_) for o_, n_ in zip(ops, rv["fields"]) if n_ != w[0]]
                        return ("agg", "adt", rv["adt"] + "::" + rv["variant"], tuple(o_ for o_, _ in rest) + tuple(it[3]), tuple(n_ for _, n_ in rest) + tuple(it[4]))
                return ("agg", "adt", rv["adt"] + "::" + rv["variant"], ops, tuple(rv["fields"]))
            if a == "closure":
                return ("agg", "closure", rv["def"], ops, ())
            return ("agg", a, rv.get("ty", ""), ops, ())
        if k == "repeat":
            return ("repeat", self.term_operand(rv["ops"][0]), rv.get("n"))
        if k == "tlref":
            return ("tlref", rv["def"])
        return ("other", rv.get("dbg", k))

    # ---------------------------------------------------------------- call sites
    def calls(self):
        """List of CallSite for all normal (non-cleanup), reachable blocks in block order."""
        if self._calls is not None:
            return self._calls
        res = []
        reach = self.reachable_blocks()
        for bi, bb in enumerate(self.blocks):
            if bb.get("cleanup") or bi not in reach:
                continue
            t = bb["term"]
            if t["k"] == "call":
                res.append(CallSite(self, bi, t))
        self._calls = res
        return res

    def calls_to(self, pat, expansion=None):
        return [c for c in self.calls() if c.matches(pat) and (expansion is None or c.from_expansion == expansion)]

    def span_of_block(self, bi):
        return self.blocks[bi]["term"]["sp"]["at"]

    # ---------------------------------------------------------------- stores
    def stores(self):
        """All assignments whose destination goes through a deref or is a field of a local: (bb, idx, place, rvalue)."""
        res = []
        reach = self.reachable_blocks()
        for bi, bb in enumerate(self.blocks):
            if bb.get("cleanup") or bi not in reach:
                continue
            for si, st in enumerate(bb["stmts"]):
                if st["k"] == "assign" and st["pl"]["p"]:
                    res.append((bi, si, st["pl"], st["rv"]))
        return res

    # ---------------------------------------------------------------- edges
    def switch_info(self, bi):
        """For a switch block: (discr term, [(value:int, target)], otherwise)."""
        t = self.blocks[bi]["term"]
        if t["k"] != "switch":
            return None
        arms = [(int(a[0]), a[1]) for a in t["arms"]]
        # `let Some(v) = opt else { .. }` / `if let Ok(v) = r`: a switch on the discriminant of a two-variant enum that lists one variant; the other one is the `otherwise`
        if len(arms) == 1 and arms[0][0] in (0, 1) and t["otherwise"] is not None and t["dty"] == "isize" and t["discr"].get("k") in ("copy", "move") and not t["discr"]["pl"]["p"]:
            dl = t["discr"]["pl"]["l"]
            for st in reversed(self.blocks[bi]["stmts"]):
                if st["k"] == "assign" and not st["pl"]["p"] and st["pl"]["l"] == dl:
                    if st["rv"]["k"] == "discr" and not st["rv"]["pl"]["p"] and \
                            re.match(r"^(std|core)::(option::Option|result::Result|ops::ControlFlow|ops::control_flow::ControlFlow)<", self.local_ty(st["rv"]["pl"]["l"]) or ""):
                        arms = sorted(arms + [(1 - arms[0][0], t["otherwise"])])
                    break
        return (self.term_operand(t["discr"]), arms, t["otherwise"], t["dty"])

    def branch_on_call(self, call):
        """bool_edges of the branch that tests the result of `call`: normally the block the call returns to; when the call sits in an expanded helper the
        test comes a few blocks later (the result travels through the helper's return place), so the branch is looked up by its condition term."""
        if call.target is not None:
            be = self.bool_edges(call.target)
            if be and be[0] == call.result_term():
                return be
        rt = call.result_term()
        for bi in sorted(self.reach(call.bb)):
            be = self.bool_edges(bi)
            if be and be[0] == rt:
                return be
        return self.bool_edges(call.target) if call.target is not None else None

    def bool_edges(self, bi):
        """For a switch on a bool: (cond term, true_target, false_target) else None."""
        si = self.switch_info(bi)
        if not si:
            return None
        discr, arms, other, dty = si
        if dty != "bool":
            return None
        if len(arms) == 1 and arms[0][0] == 0:
            t_edge, f_edge = other, arms[0][1]
            # `if !c { A } else { B }` is `if c { B } else { A }`: conditions are reported without leading negations
            while isinstance(discr, tuple) and len(discr) == 3 and discr[0] == "unop" and discr[1] == "Not":
                discr, t_edge, f_edge = discr[2], f_edge, t_edge
            return (discr, t_edge, f_edge)
        return None


def callee_name(t):
    """Best name for the callee of a call terminator: the resolved impl item when resolution found a
    different (more specific) item, else the generic callee path with its substitutions."""
    if "callee" not in t:
        return "<indirect>"
    return t.get("callee_args") or t["callee"]


class CallSite:
    def __init__(self, body, bi, t):
        self.body = body
        self.bb = bi
        self.t = t
        self.callee = t.get("callee", "<indirect>")          # generic def path
        self.callee_args = t.get("callee_args", self.callee)  # with substitutions
        self.res = t.get("res")                               # resolved instance def path
        self.res_args = t.get("res_args")
        self.trait = t.get("trait")
        self.targs = t.get("targs", [])
        self.from_expansion = bool(t["fnsp"].get("exp")) or bool(t["sp"].get("exp"))
        self.macro = t["sp"].get("macro") or t["fnsp"].get("macro")
        self.span = t["fnsp"]["at"]
        self.target = t.get("target")
        self._args = None
        self.names = set(names_of(self.callee)) | names_of(self.callee_args)
        if self.res:
            self.names |= names_of(self.res)
            if self.res_args:
                self.names |= names_of(self.res_args)

    @property
    def args(self):
        if self._args is None:
            self._args = [self.body.term_operand(a) for a in self.t["args"]]
        return self._args

    def arg(self, i):
        return self.args[i]

    @property
    def dest(self):
        return self.t["dest"]

    def result_term(self):
        return ("call", callee_name(self.t), tuple(self.args), self.bb)

    def matches(self, pat):
        """pat: str (suffix match on `::`-boundary of any known name), compiled regex, or list of those."""
        return name_matches(self.names, pat)

    def __repr__(self):
        return "Call(%s @%s bb%d)" % (strip_generics(self.callee_args), self.span, self.bb)


# --------------------------------------------------------------------------------------------
# term utilities


def subterms(t):
    yield t
    if isinstance(t, tuple):
        for x in t[1:]:
            if isinstance(x, tuple):
                if x and isinstance(x[0], str):
                    yield from subterms(x)
                else:
                    for y in x:
                        if isinstance(y, tuple):
                            yield from subterms(y)


def term_has(t, pred):
    return any(pred(s) for s in subterms(t))


def term_calls(t):
    """All ('call', name, args, bb) subterms."""
    return [s for s in subterms(t) if isinstance(s, tuple) and s and s[0] == "call"]


def is_call(t, pat):
    if not (isinstance(t, tuple) and t and t[0] == "call"):
        return False
    return name_matches(names_of(t[1]), pat)


TRANSPARENT = [
    "Deref::deref", "DerefMut::deref_mut", "AsRef::as_ref", "Borrow::borrow", "Into::into", "From::from",
    "Clone::clone", "ToOwned::to_owned", "Result::unwrap", "Result::expect", "Option::unwrap",
    "Option::expect", "Option::cloned", "Option::copied", "hint::must_use", "Box::new", "Arc::new", "Arc::clone",
    "ToString::to_string", "String::as_str", "String::as_bytes", "str::as_bytes", "Vec::as_slice",
    "IntoIterator::into_iter", "Iterator::enumerate", "Iterator::cloned", "Iterator::copied", "slice::iter",
    "Vec::iter", "Try::branch", "str::to_owned", "String::from", "str::to_string",
]


def peel(t, transparent=TRANSPARENT, refs=True):
    """Strip refs/derefs and transparent calls to reach the underlying origin."""
    while True:
        if not isinstance(t, tuple) or not t:
            return t
        if refs and t[0] in ("ref", "deref", "rawptr"):
            t = t[1]
            continue
        if t[0] == "cast" and refs and ("Pointer" in t[1] or "Unsize" in t[1] or "Transmute" in t[1]):
            t = t[2]
            continue
        if t[0] == "call" and t[2] and any(is_call(t, p) for p in transparent):
            t = t[2][0]
            continue
        if t[0] == "field" and t[1][0] == "downcast" and t[1][2] == "Continue" and is_call(peel_once(t[1][1]), "Try::branch"):
            # (x? as Continue).0  is the Ok payload of x
            t = ("okpayload", peel_once(t[1][1])[2][0])
            continue
        if t[0] == "okpayload":
            t = t[1]
            continue
        return t


def peel_once(t):
    if isinstance(t, tuple) and t and t[0] in ("ref", "deref"):
        return t[1]
    return t


def origins(t, transparent=TRANSPARENT, body=None, _seen=frozenset()):
    """Set of leaf origins of a term after peeling: params, consts, calls (non transparent), fields..."""
    t = peel(t, transparent)
    if not isinstance(t, tuple) or not t:
        return {t}
    if t[0] == "var":
        res = {t}
        if body is not None and t not in _seen:
            for a in body.var_alts(t[1]):
                res |= origins(a, transparent, body, _seen | {t})
        return res
    if t[0] in ("field", "downcast", "index", "cindex"):
        return {t} | origins(t[1], transparent, body, _seen)
    return {t}


def mentions_param(t, i):
    return term_has(t, lambda s: s == ("param", i))


def show(t, depth=0):
    """Compact human-readable rendering of a term."""
    if not isinstance(t, tuple) or not t:
        return str(t)
    if depth > 6:
        return "…"
    k = t[0]
    d = depth + 1
    if k == "param":
        return "arg%d" % t[1]
    if k == "const":
        return str(t[1])
    if k == "constdef":
        return t[1].split("::")[-1]
    if k == "fn":
        return "fn:" + strip_generics(t[1]).split("::")[-1]
    if k == "ref":
        return "&" + show(t[1], d)
    if k == "deref":
        return "*" + show(t[1], d)
    if k == "field":
        return show(t[1], d) + "." + str(t[2])
    if k == "downcast":
        return show(t[1], d) + " as " + str(t[2])
    if k == "index":
        return show(t[1], d) + "[" + show(t[2], d) + "]"
    if k == "call":
        n = strip_generics(t[1])
        n = "::".join(n.split("::")[-2:])
        return n + "(" + ", ".join(show(a, d) for a in t[2]) + ")@bb%d" % t[3]
    if k == "binop":
        return "(" + show(t[2], d) + " " + t[1] + " " + show(t[3], d) + ")"
    if k == "unop":
        return t[1] + "(" + show(t[2], d) + ")"
    if k == "cast":
        return "(" + show(t[2], d) + " as " + t[3] + ")"
    if k == "agg":
        return t[2].split("::")[-1] + "{" + ", ".join(show(a, d) for a in t[3]) + "}"
    if k == "var":
        return "var_%d" % t[1]
    if k == "okpayload":
        return show(t[1], d) + "?"
    if k == "discr":
        return "discr(" + show(t[1], d) + ")"
    return k + "(" + ", ".join(show(a, d) if isinstance(a, tuple) else str(a) for a in t[1:]) + ")"


# --------------------------------------------------------------------------------------------
# fact base


class Facts:
    def __init__(self, raw, keep_helper=None):
        self.raw = raw
        self.crate = raw["crate"]
        # helpers that did not exist on the pinned tree are inlined into their callers (see inline.py); keep_helper(path) -> True leaves a helper as a call
        from . import inline
        self.inlined = inline.inline_new_helpers(raw, keep=keep_helper)
        self.features = raw.get("features", [])
        self.bodies = {}
        self.order = []
        absorbed = set(raw.get("_absorbed_helpers", []))
        for b in raw["bodies"]:
            body = Body(b, self)
            # duplicate paths (e.g. impls for different type args) get an ordinal
            p = body.path
            k = p
            n = 1
            while k in self.bodies:
                n += 1
                k = "%s#%d" % (p, n)
            body.key = k
            self.bodies[k] = body
            # a helper that has been inlined at every call site is looked up by name if needed, but not scanned again
            if not (body.path in absorbed or any(body.path.startswith(h + "::{") for h in absorbed)):
                self.order.append(k)
        self.adts = {a["path"]: a for a in raw["adts"]}
        self._compute_wrappers()
        self.impls = raw["impls"]
        self.consts = {c["path"]: c for c in raw["consts"]}
        self.macros = raw["macros"]
        self.aliases = {a["path"]: a for a in raw["aliases"]}
        self._cg = None
        self._trait_impls = None

    def _compute_wrappers(self):
        """A struct of the pinned tree whose fields were moved into ONE new private struct it now holds (`struct GenericLocalCounterVec { inner: LocalChildren<..> }`)
        is looked at as if it still had those fields itself: wrappers = {outer adt path: (wrapper field name, inner adt path, inner field names)}.
        `new` = not in the ADT table frozen with the baseline."""
        self.wrappers = {}
        self.wrapper_fields = {}
        try:
            from . import inline
            import json as _json, os as _os
            base = _json.load(open(_os.path.join(_os.path.dirname(_os.path.dirname(_os.path.abspath(__file__))), "baseline_fns.json")))
            known = set(base.get("adts") or [])
        except Exception:  # noqa
            known = set()
        if not known or self.crate != "prometheus":
            return
        for p, a in list(self.adts.items()):
            if p not in known or a.get("kind") != "Struct" or len(a["variants"]) != 1:
                continue
            fs = [x for x in a["variants"][0]["fields"] if "PhantomData" not in x["ty"]]
            if len(fs) != 1:
                continue
            ity = re.sub(r"<.*$", "", fs[0]["ty"])
            inner = self.adts.get(ity)
            if inner is None or ity in known or inner.get("kind") != "Struct" or len(inner["variants"]) != 1 or inner.get("vis") == "pub":
                continue
            names = [x["name"] for x in inner["variants"][0]["fields"]]
            self.wrappers[p] = (fs[0]["name"], ity, names)
            self.wrapper_fields.setdefault(fs[0]["name"], set()).update(names)
            # the outer type as rules see it: the inner type's fields in place of the wrapper field (type parameters of the inner type are not substituted)
            flat = dict(a)
            v0 = dict(a["variants"][0])
            # type parameters of the inner type are replaced by the arguments the wrapper field instantiates it with (top-level split of `Inner<A, B>`)
            gens = inner.get("generics") or []
            argstr = fs[0]["ty"][len(ity):].strip()
            targs = []
            if argstr.startswith("<") and argstr.endswith(">"):
                depth, cur = 0, ""
                for ch in argstr[1:-1]:
                    if ch in "<([":
                        depth += 1
                    elif ch in ">)]":
                        depth -= 1
                    if ch == "," and depth == 0:
                        targs.append(cur.strip())
                        cur = ""
                    else:
                        cur += ch
                if cur.strip():
                    targs.append(cur.strip())
            targs = [t_ for t_ in targs if not t_.startswith("'")]

            def subst_ty(ty_):
                if len(gens) != len(targs):
                    return ty_
                for g_, a_ in zip(gens, targs):
                    ty_ = re.sub(r"(?<![A-Za-z0-9_:])%s(?![A-Za-z0-9_])" % re.escape(g_), a_.replace("\\", "\\\\"), ty_)
                return ty_
            v0["fields"] = [x for x in a["variants"][0]["fields"] if x is not fs[0]] + [dict(x, ty=subst_ty(x["ty"])) for x in inner["variants"][0]["fields"]]
            flat["variants"] = [v0]
            flat["flattened_from"] = ity
            self.adts[p] = flat

    def body(self, path):
        """Exact path, else unique suffix match; None when absent."""
        if path in self.bodies:
            return self.bodies[path]
        c = self.find(path)
        if len(c) == 1:
            return c[0]
        if not c and isinstance(path, str) and path.startswith("<") and "prometheus::" in path:
            # a trait impl whose type moved to another module of the crate: the same path with the crate-local module prefixes ignored
            def norm(p_):
                return re.sub(r"prometheus::(?:[a-z_0-9]+::)*", "prometheus::", p_)
            want = norm(path)
            cands = [self.bodies[k] for k in self.order if norm(self.bodies[k].path) == want]
            if len(cands) == 1:
                return cands[0]
        if not c and isinstance(path, str) and path.startswith("prometheus::") and not path.startswith("<"):
            # the function may have been moved to another module of the crate: the same item name (`Type::method`, or a free function's name) found exactly once
            segs = strip_generics(path).split("::")
            tail = segs[-2:] if (len(segs) >= 3 and segs[-2][:1].isupper()) else segs[-1:]
            cands = []
            for k in self.order:
                ps = strip_generics(self.bodies[k].path).split("::")
                if ps[-len(tail):] == tail and "{closure" not in self.bodies[k].path and not self.bodies[k].path.startswith("<"):
                    if len(tail) == 1 and len(ps) >= 2 and ps[-2][:1].isupper():
                        continue       # a method of some type is not the free function that was asked for
                    cands.append(self.bodies[k])
            if len(cands) == 1:
                return cands[0]
        return None

    def find(self, pat):
        """Bodies whose path (generics stripped) equals pat or ends with ::pat; regex allowed."""
        res = []
        for k in self.order:
            b = self.bodies[k]
            p = b.path
            ps = strip_generics(p)
            if hasattr(pat, "search"):
                if pat.search(p) or pat.search(ps):
                    res.append(b)
            elif p == pat or ps == pat or p.endswith("::" + pat) or ps.endswith("::" + pat):
                res.append(b)
        return res

    def closures_of(self, body):
        """Closures written in `body`, and those written in the new helpers that were expanded into it (their code runs as part of it)."""
        owners = [body.path]
        for _ in range(4):
            more = [h for (c, h) in (self.inlined or []) if isinstance(h, str) and c in owners and h not in owners and h.startswith("prometheus")]
            if not more:
                break
            owners += more
        res = []
        for o in owners:
            pre = o + "::{closure#"
            keys = self.order if o == body.path else sorted(self.bodies)       # (expanded helpers and their closures are no longer in `order`)
            res += [self.bodies[k] for k in keys if self.bodies[k].path.startswith(pre) and self.bodies[k] not in res]
        return res

    def closure(self, defpath):
        return self.bodies.get(defpath)

    def adt(self, pat):
        for p, a in self.adts.items():
            if p == pat or p.endswith("::" + pat):
                return a
        # moved to another module of the crate: the same type name found exactly once
        name = pat.split("::")[-1]
        c = [a for p, a in self.adts.items() if p.split("::")[-1] == name and p.startswith("prometheus")]
        return c[0] if len(c) == 1 else None

    def trait_impls(self):
        """trait item path -> list of impl method paths (local crate)."""
        if self._trait_impls is None:
            d = defaultdict(list)
            for im in self.impls:
                for m in im["methods"]:
                    if "trait_item" in m:
                        d[m["trait_item"]].append(m["path"])
            self._trait_impls = d
        return self._trait_impls

    # call graph over local bodies: body key -> set of body keys
    def call_graph(self):
        if self._cg is not None:
            return self._cg
        by_path = defaultdict(list)
        for k in self.order:
            by_path[strip_generics(self.bodies[k].path)].append(k)
            by_path[self.bodies[k].path].append(k)
        ti = self.trait_impls()
        cg = {}
        for k in self.order:
            b = self.bodies[k]
            out = set()
            for c in b.calls():
                out |= self.resolve_local(c, by_path, ti)
                # function items passed as arguments (callbacks, lazy initialisers) may be called by the callee
                for a in c.args:
                    for s_ in subterms(a):
                        if isinstance(s_, tuple) and s_ and s_[0] == "fn" and s_[1]:
                            for key in (s_[1], strip_generics(s_[1])):
                                if key in by_path:
                                    out.update(by_path[key])
            # closures defined in this body are considered called by it
            for c in self.closures_of(b):
                out.add(c.key)
            cg[k] = out
        self._cg = cg
        self._by_path = by_path
        return cg

    def resolve_local(self, c, by_path=None, ti=None):
        if by_path is None:
            self.call_graph()
            by_path = self._by_path
            ti = self.trait_impls()
        out = set()
        cands = []
        if c.res:
            cands.append(c.res)
        cands.append(c.callee)
        hit = False
        for n in cands:
            for key in (n, strip_generics(n)):
                if key in by_path:
                    out.update(by_path[key])
                    hit = True
            if hit:
                break
        # unresolved trait method call: fan out over all local impls (and the default body)
        if c.trait and (not c.res or c.res == c.callee):
            for p in ti.get(c.callee, []):
                for key in (p, strip_generics(p)):
                    if key in by_path:
                        out.update(by_path[key])
        return out

    def reachable_bodies(self, roots):
        cg = self.call_graph()
        seen = set()
        parent = {}
        dq = deque()
        for r in roots:
            if r not in seen:
                seen.add(r)
                parent[r] = None
                dq.append(r)
        while dq:
            x = dq.popleft()
            for y in cg.get(x, ()):
                if y not in seen:
                    seen.add(y)
                    parent[y] = x
                    dq.append(y)
        return seen, parent


def chain(parent, k):
    res = []
    while k is not None:
        res.append(k)
        k = parent.get(k)
    res.reverse()
    return res
