"""A small abstract interpreter for name validators (C09.R1): evaluates MIR over a finite partition of `char` into classes,
with symbolic Option / iterator values.  It never runs code on concrete inputs: each class stands for all its characters, so one
evaluation per class covers every input string whose first character is in that class."""
from .mir import is_call, name_matches, names_of, strip_generics


class Unknown(Exception):
    pass


# character classes (a partition of all chars once the literal singletons are added)
ALPHA, DIGIT, ASCII_OTHER, UNI_ALPHA, UNI_DIGIT, UNI_OTHER = "ASCII_ALPHA", "ASCII_DIGIT", "ASCII_OTHER", "UNI_ALPHA", "UNI_NUMERIC", "UNI_OTHER"
BASE_CLASSES = [ALPHA, DIGIT, ASCII_OTHER, UNI_ALPHA, UNI_DIGIT, UNI_OTHER]

CHAR_PREDS = {
    "is_ascii_alphabetic": {ALPHA},
    "is_ascii_digit": {DIGIT},
    "is_ascii_alphanumeric": {ALPHA, DIGIT},
    "is_ascii_lowercase": None, "is_ascii_uppercase": None,     # split ALPHA: not representable -> Unknown
    "is_alphabetic": {ALPHA, UNI_ALPHA},
    "is_numeric": {DIGIT, UNI_DIGIT},
    "is_alphanumeric": {ALPHA, DIGIT, UNI_ALPHA, UNI_DIGIT},
    "is_ascii": {ALPHA, DIGIT, ASCII_OTHER, "LIT"},
    "is_ascii_punctuation": None, "is_ascii_graphic": None,
}


def lit_class(ch):
    return ("lit", ch)


def pred_on_class(name, cls):
    table = CHAR_PREDS.get(name, "missing")
    if table == "missing" or table is None:
        raise Unknown("char predicate %s is not modelled" % name)
    if isinstance(cls, tuple) and cls[0] == "lit":
        ch = cls[1]
        if ch.isascii() and (ch.isalpha() or ch.isdigit()):
            raise Unknown("alphanumeric literal %r used as a character class" % ch)
        if not ch.isascii():
            raise Unknown("non-ASCII literal %r" % ch)
        return "LIT" in table
    return cls in table


class Chars:
    def __init__(self):
        self.taken = 0


class Interp:
    def __init__(self, facts, first_class):
        self.f = facts
        self.first = first_class    # class of the first character, or "EMPTY"
        self.literals = set()
        self.steps = 0

    # ------------------------------------------------------------------
    def run(self, body, args):
        env = {}
        for i, a in enumerate(args):
            env[i + 1] = a
        return self.exec_body(body, env)

    def exec_body(self, b, env):
        bi = 0
        visited = 0
        while True:
            visited += 1
            self.steps += 1
            if visited > 400 or self.steps > 5000:
                raise Unknown("loop in validator body %s" % b.path)
            bb = b.blocks[bi]
            for st in bb["stmts"]:
                if st["k"] == "assign":
                    v = self.rvalue(b, env, st["rv"])
                    self.store(b, env, st["pl"], v)
            t = bb["term"]
            k = t["k"]
            if k == "goto":
                bi = t["target"]
            elif k == "return":
                return env.get(0)
            elif k == "drop":
                bi = t["target"]
            elif k == "switch":
                d = self.operand(b, env, t["discr"])
                val = self.discr_value(d)
                nxt = None
                for a in t["arms"]:
                    if int(a[0]) == val:
                        nxt = a[1]
                bi = nxt if nxt is not None else t["otherwise"]
            elif k == "call":
                v = self.call(b, env, t)
                self.store(b, env, t["dest"], v)
                if "target" not in t:
                    raise Unknown("diverging call in validator")
                bi = t["target"]
            elif k == "assert":
                bi = t["target"]
            else:
                raise Unknown("terminator %s" % k)

    def discr_value(self, d):
        if d is True:
            return 1
        if d is False:
            return 0
        if isinstance(d, tuple) and d[0] == "discr":
            return d[1]
        if isinstance(d, tuple) and d[0] == "cls":
            raise Unknown("switch on a character (match on char) is not modelled")
        raise Unknown("switch on %r" % (d,))

    # ------------------------------------------------------------------ places
    def load(self, b, env, pl):
        if pl["l"] not in env:
            raise Unknown("read of unset local _%d in %s" % (pl["l"], b.path))
        v = env[pl["l"]]
        for p in pl["p"]:
            if p[0] == "deref":
                continue            # references are transparent
            if p[0] == "field":
                if isinstance(v, tuple) and v[0] == "tuple":
                    v = v[1][p[1]]
                elif isinstance(v, tuple) and v[0] == "closure":
                    v = v[2][p[1]]
                elif isinstance(v, tuple) and v[0] == "opt":
                    v = v[1]
                else:
                    raise Unknown("field of %r" % (v,))
            elif p[0] == "downcast":
                continue
            else:
                raise Unknown("projection %s" % p[0])
        return v

    def store(self, b, env, pl, v):
        if pl["p"]:
            # writes through references are not needed for validators
            if all(p[0] == "deref" for p in pl["p"]):
                env[pl["l"]] = v
                return
            raise Unknown("store to projection")
        env[pl["l"]] = v

    def operand(self, b, env, op):
        k = op["k"]
        if k in ("copy", "move"):
            return self.load(b, env, op["pl"])
        if k == "const":
            if "fn" in op:
                return ("fn", op["fn"])
            ty = op.get("ty", "")
            val = op.get("val")
            if ty == "bool":
                return val == "true"
            if ty == "char":
                ch = chr(int(op["bits"]))
                self.literals.add(ch)
                return ("charconst", ch)
            if ty == "()":
                return ("unit",)
            return ("const", val, ty)
        raise Unknown("operand %s" % k)

    def rvalue(self, b, env, rv):
        k = rv["k"]
        if k == "use":
            return self.operand(b, env, rv["ops"][0])
        if k == "ref" or k == "rawptr":
            return self.load(b, env, rv["pl"])
        if k == "agg":
            ops = [self.operand(b, env, o) for o in rv["ops"]]
            a = rv["agg"]
            if a == "tuple":
                return ("tuple", ops)
            if a == "closure":
                return ("closure", rv["def"], ops)
            if a == "adt":
                if rv["adt"].endswith("option::Option"):
                    return ("opt", ops[0]) if rv["variant"] == "Some" else ("opt", None)
                raise Unknown("aggregate %s" % rv["adt"])
            raise Unknown("aggregate kind %s" % a)
        if k == "binop":
            x = self.operand(b, env, rv["ops"][0])
            y = self.operand(b, env, rv["ops"][1])
            op = rv["op"]
            if op in ("Eq", "Ne"):
                r = self.eq(x, y)
                return r if op == "Eq" else (not r)
            if op in ("BitAnd", "BitOr") and isinstance(x, bool) and isinstance(y, bool):
                return (x and y) if op == "BitAnd" else (x or y)
            raise Unknown("binop %s" % op)
        if k == "unop":
            x = self.operand(b, env, rv["ops"][0])
            if rv["op"] == "Not" and isinstance(x, bool):
                return not x
            raise Unknown("unop %s" % rv["op"])
        if k == "discr":
            v = self.load(b, env, rv["pl"])
            if isinstance(v, tuple) and v[0] == "opt":
                return ("discr", 0 if v[1] is None else 1)
            raise Unknown("discriminant of %r" % (v,))
        if k == "cast":
            return self.operand(b, env, rv["ops"][0])
        raise Unknown("rvalue %s" % k)

    def eq(self, x, y):
        for a, c in ((x, y), (y, x)):
            if isinstance(a, tuple) and a[0] == "cls" and isinstance(c, tuple) and c[0] == "charconst":
                return a[1] == lit_class(c[1])
        if isinstance(x, bool) and isinstance(y, bool):
            return x == y
        raise Unknown("comparison of %r and %r" % (x, y))

    # ------------------------------------------------------------------ calls
    def call(self, b, env, t):
        args = [self.operand(b, env, a) for a in t["args"]]
        names = set()
        for key in ("callee", "callee_args", "res", "res_args"):
            if t.get(key):
                names |= names_of(t[key])

        def m(p):
            return name_matches(names, p)
        last = strip_generics(t.get("callee", "")).split("::")[-1]
        # char predicates
        if any(n.startswith("std::char::methods::") or n.startswith("core::char::methods::") for n in names):
            c = args[0]
            if not (isinstance(c, tuple) and c[0] == "cls"):
                raise Unknown("char predicate on %r" % (c,))
            if last == "is_digit":
                return c[1] == DIGIT     # radix 10 assumed; other radices are not modelled
            return pred_on_class(last, c[1])
        if m("str::chars"):
            return Chars()
        if m("str::is_empty") or m("String::is_empty"):
            return self.first == "EMPTY"
        if m("Iterator::next") and isinstance(args[0], Chars):
            ch = args[0]
            ch.taken += 1
            if ch.taken == 1:
                return ("opt", None) if self.first == "EMPTY" else ("opt", ("cls", self.first))
            raise Unknown("a second explicit next() on the character iterator")
        if m("Iterator::all") and isinstance(args[0], Chars):
            if args[0].taken != 1:
                raise Unknown("all() on an iterator that did not yield exactly the first character")
            return ("all", args[1])
        if m("Iterator::any") and isinstance(args[0], Chars):
            return ("any", args[1])
        if m("Option::and_then") or m("Option::map"):
            o, f = args
            if o[1] is None:
                return ("opt", None)
            r = self.apply(f, [o[1]])
            return r if m("Option::and_then") else ("opt", r)
        if m("Option::unwrap_or"):
            o, d = args
            return d if o[1] is None else o[1]
        if m("Option::map_or"):
            o, d, f = args
            return d if o[1] is None else self.apply(f, [o[1]])
        if m("Option::is_some"):
            return args[0][1] is not None
        if m("Option::is_none"):
            return args[0][1] is None
        if m("Option::unwrap_or_default"):
            return False if args[0][1] is None else args[0][1]
        if m("Option::filter"):
            o, f = args
            if o[1] is None:
                return o
            r = self.apply(f, [o[1]])
            return o if r is True else ("opt", None)
        if m(["FnMut::call_mut", "Fn::call", "FnOnce::call_once"]):
            f = args[0]
            a = args[1]
            return self.apply(f, a[1] if isinstance(a, tuple) and a[0] == "tuple" else [a])
        if m(["Deref::deref", "AsRef::as_ref", "Borrow::borrow", "Clone::clone", "String::as_str", "Into::into", "From::from", "IntoIterator::into_iter"]):
            return args[0]
        # a function of the analysed crate
        callee = t.get("res") or t.get("callee")
        tgt = self.f.body(callee) or self.f.body(t.get("callee", ""))
        if tgt is not None:
            return self.run(tgt, args)
        raise Unknown("call of %s is not modelled" % strip_generics(t.get("callee_args", "?")))

    def apply(self, f, args):
        if isinstance(f, tuple) and f[0] == "fn":
            tgt = self.f.body(f[1])
            if tgt is None:
                raise Unknown("function value %s" % f[1])
            return self.run(tgt, args)
        if isinstance(f, tuple) and f[0] == "closure":
            tgt = self.f.closure(f[1])
            if tgt is None:
                raise Unknown("closure %s" % f[1])
            return self.run(tgt, [f] + list(args))
        raise Unknown("call of non-function value %r" % (f,))


def classes_for(literals):
    return BASE_CLASSES + [lit_class(c) for c in sorted(literals)]


def accepted_classes(facts, fn_value, literals=("_", ":")):
    """Set of character classes on which the char -> bool function value is true.  Literals compared against in the code are added
    to the partition as singleton classes until a fixpoint is reached."""
    lits = set(literals)
    while True:
        acc = set()
        seen = set()
        for cls in classes_for(lits):
            it = Interp(facts, "EMPTY")
            r = it.apply(fn_value, [("cls", cls)])
            seen |= it.literals
            if r is True:
                acc.add(cls)
            elif r is not False:
                raise Unknown("predicate returned %r on class %s" % (r, cls))
        if seen <= lits:
            return acc
        lits |= seen


def evaluate_validator(facts, body, literals=("_", ":")):
    """Evaluate a `&str -> bool` validator for every class of first character (and the empty string).
    Returns {scenario: result} where result is True / False / ('all', accepted classes of the tail predicate)."""
    lits = set(literals)
    while True:
        res = {}
        seen = set()
        for first in ["EMPTY"] + classes_for(lits):
            it = Interp(facts, first)
            r = it.run(body, [("str",)])
            seen |= it.literals
            if isinstance(r, tuple) and r[0] == "all":
                acc = accepted_classes(facts, r[1], lits)
                for a in acc:
                    if isinstance(a, tuple):
                        seen.add(a[1])
                r = ("all", frozenset(map(str, acc)))
            res[str(first)] = r
        if seen <= lits:
            return res
        lits |= seen
