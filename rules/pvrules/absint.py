"""A small abstract interpreter for name validators (C09.R1): evaluates MIR over a finite partition of `char` into classes,
with symbolic Option / iterator values.  It never runs code on concrete inputs: each class stands for all its characters, so one
evaluation per class covers every input string whose first character is in that class."""
from .mir import is_call, name_matches, names_of, strip_generics


class Unknown(Exception):
    pass


# character classes: a partition of `char` into ASCII code-point intervals (cut at every boundary the code can observe) and three
# non-ASCII classes.  ("iv", lo, hi) is the interval lo..=hi.
UNI_ALPHA, UNI_DIGIT, UNI_OTHER = "UNI_ALPHA", "UNI_NUMERIC", "UNI_OTHER"
BASE_CUTS = {0, 48, 58, 65, 91, 97, 123, 128}          # 0-9, A-Z, a-z


class Refine(Exception):
    """The code distinguishes characters inside one class: the partition needs these additional cut points."""
    def __init__(self, cuts):
        Exception.__init__(self, "refine %s" % sorted(cuts))
        self.cuts = set(c for c in cuts if 0 < c < 128)


def classes_for(cuts):
    cs = sorted(set(cuts) | BASE_CUTS)
    return [("iv", cs[k], cs[k + 1] - 1) for k in range(len(cs) - 1)] + [UNI_ALPHA, UNI_DIGIT, UNI_OTHER]


def _inside(cls, ranges):
    """True / False when the interval lies inside / outside the union of the inclusive ranges; Refine when it straddles a boundary."""
    lo, hi = cls[1], cls[2]
    for a, b_ in ranges:
        if a <= lo and hi <= b_:
            return True
    if all(hi < a or lo > b_ for a, b_ in ranges):
        return False
    raise Refine({x for a, b_ in ranges for x in (a, b_ + 1)})


ASCII_SETS = {
    "is_ascii_alphabetic": [(65, 90), (97, 122)], "is_ascii_digit": [(48, 57)], "is_ascii_alphanumeric": [(48, 57), (65, 90), (97, 122)],
    "is_ascii_lowercase": [(97, 122)], "is_ascii_uppercase": [(65, 90)], "is_ascii": [(0, 127)],
    "is_ascii_punctuation": [(33, 47), (58, 64), (91, 96), (123, 126)], "is_ascii_graphic": [(33, 126)], "is_ascii_hexdigit": [(48, 57), (65, 70), (97, 102)],
    "is_ascii_whitespace": [(9, 10), (12, 13), (32, 32)], "is_ascii_control": [(0, 31), (127, 127)],
}
UNI_SETS = {"is_alphabetic": ([(65, 90), (97, 122)], {UNI_ALPHA}), "is_numeric": ([(48, 57)], {UNI_DIGIT}),
            "is_alphanumeric": ([(48, 57), (65, 90), (97, 122)], {UNI_ALPHA, UNI_DIGIT})}


def pred_on_class(name, cls):
    if name in ASCII_SETS:
        return _inside(cls, ASCII_SETS[name]) if isinstance(cls, tuple) else False
    if name in UNI_SETS:
        rng, uni = UNI_SETS[name]
        return _inside(cls, rng) if isinstance(cls, tuple) else cls in uni
    raise Unknown("char predicate %s is not modelled" % name)


def cmp_class_const(op, cls, k):
    """Truth value of `c <op> k` for every character c of the class (k an ASCII code point), or Refine."""
    if k > 127:
        raise Unknown("comparison with the non-ASCII constant U+%04X" % k)
    if not isinstance(cls, tuple):
        return op in ("Gt", "Ge", "Ne")          # every non-ASCII character is greater than every ASCII one
    lo, hi = cls[1], cls[2]
    holds = {"Lt": lambda x: x < k, "Le": lambda x: x <= k, "Gt": lambda x: x > k, "Ge": lambda x: x >= k, "Eq": lambda x: x == k, "Ne": lambda x: x != k}[op]
    a, b_ = holds(lo), holds(hi)
    inner = holds(k) if lo <= k <= hi else a
    if a == b_ == inner:
        return a
    raise Refine({k, k + 1})


LOOP = ("loop-again",)


class Chars:
    def __init__(self):
        self.taken = 0


class Interp:
    def __init__(self, facts, first_class, classes=None):
        self.f = facts
        self.first = first_class    # class of the first character, or "EMPTY"
        self.classes = classes or classes_for(())
        self.steps = 0

    # ------------------------------------------------------------------
    def run(self, body, args):
        env = {}
        for i, a in enumerate(args):
            env[i + 1] = a
        return self.exec_body(body, env)

    def exec_body(self, b, env, start=0, stop_at=None):
        """Run from block `start`.  stop_at: a block index; arriving there again ends the run with the sentinel LOOP (used to execute one
        iteration of a loop over the remaining characters)."""
        bi = start
        visited = 0
        first_step = True
        while True:
            if stop_at is not None and bi == stop_at and not first_step:
                return LOOP
            first_step = False
            visited += 1
            self.steps += 1
            if visited > 400 or self.steps > 20000:
                raise Unknown("loop in validator body %s" % b.path)
            bb = b.blocks[bi]
            for st in bb["stmts"]:
                if st["k"] == "assign":
                    v = self.rvalue(b, env, st["rv"])
                    self.store(b, env, st["pl"], v)
            t = bb["term"]
            k = t["k"]
            if k == "goto":
                bi = t["target"]
            elif k == "return":
                return env.get(0)
            elif k == "drop":
                bi = t["target"]
            elif k == "switch":
                d = self.operand(b, env, t["discr"])
                if d == ("more?",):
                    return self.index_loop(b, env, bi, t)
                val = self.discr_value(d, [int(a[0]) for a in t["arms"]])
                nxt = None
                for a in t["arms"]:
                    if int(a[0]) == val:
                        nxt = a[1]
                bi = nxt if nxt is not None else t["otherwise"]
            elif k == "call":
                if self.is_tail_next(b, env, t):
                    return self.tail_loop(b, env, bi, t)
                v = self.call(b, env, t)
                self.store(b, env, t["dest"], v)
                if "target" not in t:
                    raise Unknown("diverging call in validator")
                bi = t["target"]
            elif k == "assert":
                bi = t["target"]
            else:
                raise Unknown("terminator %s" % k)

    # ------------------------------------------------------------------ a loop over the remaining characters
    def is_tail_next(self, b, env, t):
        names = set()
        for key in ("callee", "callee_args", "res", "res_args"):
            if t.get(key):
                names |= names_of(t[key])
        if not name_matches(names, "Iterator::next") or not t.get("args"):
            return False
        try:
            it = self.operand(b, env, t["args"][0])
        except Unknown:
            return False
        return isinstance(it, Chars) and it.taken >= 1

    def tail_loop(self, b, env, bi, t):
        """`for c in chars { .. }` after the first character was taken: the rest of the string is an arbitrary sequence of characters.
        The loop is summarised as `all(rest, P)` when (a) with no character left the function returns true, and (b) for every class the
        body either returns false (class not in P) or comes back to this `next()` (class in P)."""
        if "target" not in t:
            raise Unknown("diverging next()")
        import copy as _copy
        e0 = _copy.copy(env)
        self.store(b, e0, t["dest"], ("opt", None))
        r_none = self.exec_body(b, e0, start=t["target"])
        if r_none is not True:
            raise Unknown("a loop over the remaining characters that does not end with `true` when nothing is left (%r)" % (r_none,))
        acc = set()
        for cls in self.classes:
            e1 = _copy.copy(env)
            self.store(b, e1, t["dest"], ("opt", ("cls", cls)))
            r = self.exec_body(b, e1, start=t["target"], stop_at=bi)
            if r is LOOP:
                acc.add(cls)
            elif r is not False:
                raise Unknown("loop body returned %r for class %s" % (r, cls))
        return ("allset", frozenset(acc))

    def index_loop(self, b, env, bi, t):
        """`while i < bytes.len() { .. bytes[i] .. ; i += 1 }` at a position after the first: like tail_loop.  With no byte left (the false arm) the function must return true; with
        one more byte of class C (the true arm, `bytes[i]` reading C) the body either returns false or comes back to this test."""
        import copy as _copy
        exit_t = ([a[1] for a in t["arms"] if int(a[0]) == 0] or [t["otherwise"]])[0]
        body_t = ([a[1] for a in t["arms"] if int(a[0]) == 1] or [t["otherwise"]])[0]
        if exit_t == body_t:
            raise Unknown("index loop whose test does not branch")
        r_none = self.exec_body(b, _copy.copy(env), start=exit_t)
        if r_none is not True:
            raise Unknown("an index loop over the remaining bytes that does not end with `true` when nothing is left (%r)" % (r_none,))
        if "__rest" in env:
            return LOOP          # (back at the test inside the summarised iteration)
        acc = set()
        for cls in self.classes:
            e1 = _copy.copy(env)
            e1["__rest"] = cls
            r = self.exec_body(b, e1, start=body_t, stop_at=bi)
            if r is LOOP:
                acc.add(cls)
            elif r is not False:
                raise Unknown("index loop body returned %r for class %s" % (r, cls))
        return ("allset", frozenset(acc))

    def discr_value(self, d, arm_values=()):
        if d is True:
            return 1
        if d is False:
            return 0
        if isinstance(d, tuple) and d[0] == "discr":
            return d[1]
        if isinstance(d, tuple) and d[0] == "cls":
            # `match c { '_' => .., ':' => .. }`: a switch on the code point
            cls = d[1]
            if not isinstance(cls, tuple):
                if any(v > 127 for v in arm_values):
                    raise Unknown("match on a non-ASCII character constant")
                return -1
            lo, hi = cls[1], cls[2]
            inside = [v for v in arm_values if lo <= v <= hi]
            if not inside:
                return -1
            if lo == hi:
                return lo
            raise Refine({x for v in inside for x in (v, v + 1)})
        raise Unknown("switch on %r" % (d,))

    # ------------------------------------------------------------------ places
    def load(self, b, env, pl):
        if pl["l"] not in env:
            raise Unknown("read of unset local _%d in %s" % (pl["l"], b.path))
        v = env[pl["l"]]
        for p in pl["p"]:
            if p[0] == "deref":
                continue            # references are transparent
            if p[0] == "field":
                if isinstance(v, tuple) and v[0] == "tuple":
                    v = v[1][p[1]]
                elif isinstance(v, tuple) and v[0] == "closure":
                    v = v[2][p[1]]
                elif isinstance(v, tuple) and v[0] == "opt":
                    v = v[1]
                else:
                    raise Unknown("field of %r" % (v,))
            elif p[0] == "downcast":
                continue
            elif p[0] == "index" and v == ("bytes",):
                # `bytes[i]`: position 0 is the first character; any later position is "one of the remaining bytes" (only inside the summarised index loop)
                iv = env.get(p[1])
                if not (isinstance(iv, tuple) and iv[0] == "charconst"):
                    raise Unknown("index %r into the validated string" % (iv,))
                if iv[1] == 0:
                    if self.first == "EMPTY":
                        raise Unknown("first byte of the empty string")
                    v = ("cls", self.first)
                elif "__rest" in env:
                    v = ("cls", env["__rest"])
                else:
                    raise Unknown("byte %d of the validated string outside a loop over the remaining bytes" % iv[1])
            elif p[0] == "cindex" and v == ("bytes",) and p[1] == 0 and not p[3]:
                # slice pattern `[first, ..]` (reached only behind the pattern's own length test)
                if self.first == "EMPTY":
                    raise Unknown("first byte of the empty string")
                v = ("cls", self.first)
            elif p[0] == "subslice" and v == ("bytes",) and p[1] == 1 and p[2] == 0 and p[3]:
                # slice pattern `[_, rest @ ..]`: everything after the first byte
                if self.first == "EMPTY":
                    raise Unknown("tail of the empty string")
                v = Chars()
                v.taken = 1
            else:
                raise Unknown("projection %s" % p[0])
        return v

    def store(self, b, env, pl, v):
        if pl["p"]:
            # writes through references are not needed for validators
            if all(p[0] == "deref" for p in pl["p"]):
                env[pl["l"]] = v
                return
            raise Unknown("store to projection")
        env[pl["l"]] = v

    def operand(self, b, env, op):
        k = op["k"]
        if k in ("copy", "move"):
            return self.load(b, env, op["pl"])
        if k == "const":
            if "fn" in op:
                return ("fn", op["fn"])
            ty = op.get("ty", "")
            val = op.get("val")
            if ty == "bool":
                return val == "true"
            if ty == "char":
                return ("charconst", int(op["bits"]))
            if ty in ("u32", "u8", "u16", "u64", "usize", "i32") and op.get("bits") is not None:
                return ("charconst", int(op["bits"]))     # a code point compared with `c as u32`
            if ty == "()":
                return ("unit",)
            return ("const", val, ty)
        raise Unknown("operand %s" % k)

    def rvalue(self, b, env, rv):
        k = rv["k"]
        if k == "use":
            return self.operand(b, env, rv["ops"][0])
        if k == "ref" or k == "rawptr":
            return self.load(b, env, rv["pl"])
        if k == "agg":
            ops = [self.operand(b, env, o) for o in rv["ops"]]
            a = rv["agg"]
            if a == "tuple":
                return ("tuple", ops)
            if a == "closure":
                return ("closure", rv["def"], ops)
            if a == "adt":
                if rv["adt"].endswith("option::Option"):
                    return ("opt", ops[0]) if rv["variant"] == "Some" else ("opt", None)
                if not ops and rv.get("vidx") is not None:
                    return ("enum", rv["adt"], int(rv["vidx"]))      # a field-less variant of a crate enum (a mode switch such as `Charset::WithColon`)
                raise Unknown("aggregate %s" % rv["adt"])
            raise Unknown("aggregate kind %s" % a)
        if k == "binop":
            x = self.operand(b, env, rv["ops"][0])
            y = self.operand(b, env, rv["ops"][1])
            op = rv["op"]
            if op in ("Eq", "Ne", "Lt", "Le", "Gt", "Ge"):
                def is_cls(v):
                    return isinstance(v, tuple) and v[0] == "cls"

                def is_k(v):
                    return isinstance(v, tuple) and v[0] == "charconst"
                if is_cls(x) and is_k(y):
                    return cmp_class_const(op, x[1], y[1])
                if is_k(x) and is_cls(y):
                    return cmp_class_const({"Lt": "Gt", "Le": "Ge", "Gt": "Lt", "Ge": "Le"}.get(op, op), y[1], x[1])
                if (x == ("len",) and is_k(y)) or (is_k(x) and y == ("len",)):
                    k_, op_ = (y[1], op) if x == ("len",) else (x[1], {"Lt": "Gt", "Le": "Ge", "Gt": "Lt", "Ge": "Le"}.get(op, op))
                    if k_ >= 1 and self.first != "EMPTY" and op_ == "Gt":
                        return ("more?",)       # `i < len` for a position after the first: whether another byte follows is not known -- the loop is summarised at the branch
                    return self.cmp_len(op_, k_)
                if is_k(x) and is_k(y):
                    return {"Lt": x[1] < y[1], "Le": x[1] <= y[1], "Gt": x[1] > y[1], "Ge": x[1] >= y[1], "Eq": x[1] == y[1], "Ne": x[1] != y[1]}[op]
                if op in ("Eq", "Ne") and isinstance(x, bool) and isinstance(y, bool):
                    return (x == y) if op == "Eq" else (x != y)
                raise Unknown("comparison %s of %r and %r" % (op, x, y))
            if op in ("BitAnd", "BitOr") and isinstance(x, bool) and isinstance(y, bool):
                return (x and y) if op == "BitAnd" else (x or y)
            if op in ("Add", "AddWithOverflow", "AddUnchecked") and isinstance(x, tuple) and isinstance(y, tuple) and x[0] == y[0] == "charconst" and 0 <= x[1] + y[1] < 1 << 32:
                r_ = ("charconst", x[1] + y[1])        # a byte index being advanced
                return ("tuple", [r_, False]) if op == "AddWithOverflow" else r_
            raise Unknown("binop %s" % op)
        if k == "unop":
            x = self.operand(b, env, rv["ops"][0])
            if rv["op"] == "Not" and isinstance(x, bool):
                return not x
            if rv["op"] == "PtrMetadata" and x == ("bytes",):
                return ("len",)          # the length of the validated string: 0 for the empty string, at least 1 otherwise
            raise Unknown("unop %s" % rv["op"])
        if k == "discr":
            v = self.load(b, env, rv["pl"])
            if isinstance(v, tuple) and v[0] == "opt":
                return ("discr", 0 if v[1] is None else 1)
            if isinstance(v, tuple) and v[0] == "enum":
                return ("discr", v[2])
            raise Unknown("discriminant of %r" % (v,))
        if k == "cast":
            return self.operand(b, env, rv["ops"][0])
        raise Unknown("rvalue %s" % k)

    def cmp_len(self, op, k):
        """`len <op> k` for the validated string: len is 0 for the empty string and some value >= 1 otherwise."""
        holds = {"Lt": lambda x: x < k, "Le": lambda x: x <= k, "Gt": lambda x: x > k, "Ge": lambda x: x >= k, "Eq": lambda x: x == k, "Ne": lambda x: x != k}[op]
        if self.first == "EMPTY":
            return holds(0)
        # the same answer for every length >= 1, or the code looks at more than emptiness
        if k <= 1 and op in ("Ge", "Lt"):
            return holds(1)
        if k == 0:
            return holds(1)
        raise Unknown("comparison of the string length with %d" % k)

    # ------------------------------------------------------------------ calls
    def call(self, b, env, t):
        args = [self.operand(b, env, a) for a in t["args"]]
        if "callee" not in t and t.get("func"):
            # a call through a function pointer whose value is known here (a validator handed over as `fn(u8) -> bool`)
            return self.apply(self.operand(b, env, t["func"]), args)
        names = set()
        for key in ("callee", "callee_args", "res", "res_args"):
            if t.get(key):
                names |= names_of(t[key])

        def m(p):
            return name_matches(names, p)
        last = strip_generics(t.get("callee", "")).split("::")[-1]
        # char predicates
        if any(n.startswith("std::char::methods::") or n.startswith("core::char::methods::") for n in names):
            c = args[0]
            if not (isinstance(c, tuple) and c[0] == "cls"):
                raise Unknown("char predicate on %r" % (c,))
            if last == "is_digit":
                return pred_on_class("is_ascii_digit", c[1])     # radix 10 assumed; other radices are not modelled
            return pred_on_class(last, c[1])
        # the same string seen as bytes: every byte of a non-ASCII character is >= 0x80, i.e. above every ASCII constant, and no ASCII predicate holds for it --
        # exactly how the non-ASCII classes behave in comparisons with ASCII constants (cmp_class_const refuses constants above 127)
        if any("::<impl u8>::" in n for n in names) and last.startswith("is_ascii"):
            c = args[0]
            if not (isinstance(c, tuple) and c[0] == "cls"):
                raise Unknown("byte predicate on %r" % (c,))
            return pred_on_class(last, c[1])
        if m("str::as_bytes") or m("String::as_bytes"):
            if args[0] != ("str",):
                raise Unknown("as_bytes of something that is not the validated string")
            return ("bytes",)
        if m("str::bytes") and args[0] == ("str",):
            return Chars()
        if (m("slice::split_first")) and args[0] == ("bytes",):
            if self.first == "EMPTY":
                return ("opt", None)
            rest = Chars()
            rest.taken = 1
            return ("opt", ("tuple", [("cls", self.first), rest]))
        if (m("slice::first")) and args[0] == ("bytes",):
            return ("opt", None) if self.first == "EMPTY" else ("opt", ("cls", self.first))
        if m("slice::iter") and isinstance(args[0], Chars):
            return args[0]
        if m("slice::is_empty") and args[0] == ("bytes",):
            return self.first == "EMPTY"
        if (m("slice::len") and args[0] == ("bytes",)) or ((m("str::len") or m("String::len")) and args[0] == ("str",)):
            return ("len",)
        if m("slice::iter") and args[0] == ("bytes",):
            return Chars()
        if m("str::chars"):
            return Chars()
        if m("str::is_empty") or m("String::is_empty"):
            return self.first == "EMPTY"
        if m("Iterator::next") and isinstance(args[0], Chars):
            ch = args[0]
            ch.taken += 1
            if ch.taken == 1:
                return ("opt", None) if self.first == "EMPTY" else ("opt", ("cls", self.first))
            raise Unknown("a second explicit next() on the character iterator")
        if m("Iterator::all") and isinstance(args[0], Chars):
            if args[0].taken != 1:
                raise Unknown("all() on an iterator that did not yield exactly the first character")
            return ("all", args[1])
        if m("Iterator::any") and isinstance(args[0], Chars):
            return ("any", args[1])
        if m("Option::and_then") or m("Option::map"):
            o, f = args
            if o[1] is None:
                return ("opt", None)
            r = self.apply(f, [o[1]])
            return r if m("Option::and_then") else ("opt", r)
        if m("Option::unwrap_or"):
            o, d = args
            return d if o[1] is None else o[1]
        if m("Option::map_or"):
            o, d, f = args
            return d if o[1] is None else self.apply(f, [o[1]])
        if m("Option::is_some"):
            return args[0][1] is not None
        if m("Option::is_none"):
            return args[0][1] is None
        if m("Option::unwrap_or_default"):
            return False if args[0][1] is None else args[0][1]
        if m("Option::filter"):
            o, f = args
            if o[1] is None:
                return o
            r = self.apply(f, [o[1]])
            return o if r is True else ("opt", None)
        if m(["FnMut::call_mut", "Fn::call", "FnOnce::call_once"]):
            f = args[0]
            a = args[1]
            return self.apply(f, a[1] if isinstance(a, tuple) and a[0] == "tuple" else [a])
        if m(["Deref::deref", "AsRef::as_ref", "Borrow::borrow", "Clone::clone", "String::as_str", "Into::into", "From::from", "IntoIterator::into_iter"]):
            return args[0]
        # a function of the analysed crate
        callee = t.get("res") or t.get("callee")
        tgt = self.f.body(callee) or self.f.body(t.get("callee", ""))
        if tgt is not None:
            return self.run(tgt, args)
        raise Unknown("call of %s is not modelled" % strip_generics(t.get("callee_args", "?")))

    def apply(self, f, args):
        if isinstance(f, tuple) and f[0] == "fn":
            tgt = self.f.body(f[1])
            if tgt is None:
                raise Unknown("function value %s" % f[1])
            return self.run(tgt, args)
        if isinstance(f, tuple) and f[0] == "closure":
            tgt = self.f.closure(f[1])
            if tgt is None:
                raise Unknown("closure %s" % f[1])
            return self.run(tgt, [f] + list(args))
        raise Unknown("call of non-function value %r" % (f,))


def _with_refinement(fn):
    """Run fn(classes) and re-run it with a finer partition as long as the code distinguishes characters inside one class."""
    cuts = set(BASE_CUTS)
    for _ in range(40):
        try:
            return fn(classes_for(cuts)), cuts
        except Refine as r:
            if r.cuts <= cuts:
                raise Unknown("partition refinement does not converge at %s" % sorted(r.cuts))
            cuts |= r.cuts
    raise Unknown("too many partition refinements")


def accepted_classes(facts, fn_value, classes):
    """Set of character classes on which the char -> bool function value is true."""
    acc = set()
    for cls in classes:
        it = Interp(facts, "EMPTY", classes)
        r = it.apply(fn_value, [("cls", cls)])
        if r is True:
            acc.add(cls)
        elif r is not False:
            raise Unknown("predicate returned %r on class %s" % (r, cls))
    return acc


def code_points(classes):
    """(set of ASCII code points, set of non-ASCII class names) covered by a collection of classes."""
    pts, uni = set(), set()
    for c in classes:
        if isinstance(c, tuple):
            pts |= set(range(c[1], c[2] + 1))
        else:
            uni.add(c)
    return pts, uni


def evaluate_validator(facts, body):
    """Evaluate a `&str -> bool` validator for every class of first character (and the empty string).
    Returns {"EMPTY": bool, "first": [(class, result)]} where result is False / True / ("all", (ascii code points, non-ASCII classes)) —
    "accepted exactly when every following character is in that set"."""
    def run(classes):
        res = {"EMPTY": Interp(facts, "EMPTY", classes).run(body, [("str",)]), "first": []}
        for first in classes:
            it = Interp(facts, first, classes)
            r = it.run(body, [("str",)])
            if isinstance(r, tuple) and r[0] == "all":
                r = ("all", code_points(accepted_classes(facts, r[1], classes)))
            elif isinstance(r, tuple) and r[0] == "allset":
                r = ("all", code_points(r[1]))
            res["first"].append((first, r))
        return res
    res, cuts = _with_refinement(run)
    res["cuts"] = sorted(cuts)
    return res
