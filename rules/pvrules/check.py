"""Check context: obligations, anchors, floors, known findings, evidence and replay files."""
import json
import os
import time
import traceback

from . import extract
from .mir import Facts

VERIF = extract.VERIF
EVIDENCE_DIR = os.environ.get("PV_EVIDENCE", os.path.join(VERIF, "evidence"))


class Ctx:
    def __init__(self, prop, tier="quick", repo=None, quiet=False):
        self.prop = prop
        self.tier = tier
        self.repo = repo or extract.REPO
        self.t0 = time.time()
        self.obligations = []   # dicts
        self.violations = []    # dicts (subset view)
        self.notes = []
        self.extract_info = []
        self._facts = {}
        self._harness = {}
        self.functions_analysed = set()
        self.call_sites = 0
        self.quiet = quiet
        self.extra = {}
        self.assumptions = []
        self.rules = {}   # rule id -> description

    # ------------------------------------------------------------ facts
    def facts(self, config="default", keep_helper=None, variant=""):
        """keep_helper / variant: a second view of the same configuration in which some new helpers are NOT expanded (cached under config + variant)."""
        key = config + variant
        if key not in self._facts:
            raw, info = extract.extract_repo(config, repo=self.repo)
            self.extract_info.append(info)
            self._facts[key] = Facts(raw, keep_helper=keep_helper) if keep_helper else Facts(raw)
        return self._facts[key]

    def harness(self, name, **kw):
        if name not in self._harness or kw.get("hdir"):
            res, info = extract.extract_harness(name, repo=self.repo, **kw)
            self.extract_info.append(info)
            self._harness[name] = {k: Facts(v) for k, v in res.items()}
        return self._harness[name]

    # ------------------------------------------------------------ recording
    def rule(self, rid, text):
        self.rules[rid] = text

    def ob(self, rule, key, ok, what, site=None, detail=None, kind=None):
        """Record one obligation.  key identifies the rule instance (no line numbers)."""
        full = "%s.%s|%s" % (self.prop, rule, key)
        o = {"rule": "%s.%s" % (self.prop, rule), "key": full, "ok": bool(ok), "what": what}
        if site:
            o["site"] = site
        if detail is not None:
            o["detail"] = detail if isinstance(detail, str) else json.dumps(detail, default=str)[:2000]
        if kind:
            o["kind"] = kind
        self.obligations.append(o)
        return bool(ok)

    def anchor(self, rule, name, obj, what=None):
        """An expected function/field/impl. Missing anchor = violation (fail closed)."""
        ok = obj is not None and obj != [] and obj is not False
        self.ob(rule, "anchor:" + name, ok, what or ("anchor %s must exist" % name), kind="ANCHOR")
        return obj if ok else None

    def floor(self, rule, name, count, minimum):
        self.ob(rule, "floor:" + name, count >= minimum,
                "at least %d instances of %s expected (a fraction of what was counted by hand on the pinned tree: a recogniser that matches nothing must not pass vacuously); found %d" % (minimum, name, count),
                kind="FLOOR")

    def note(self, s):
        self.notes.append(s)

    def saw(self, body):
        if body is not None:
            self.functions_analysed.add(body.path)

    def run_rule(self, rid, fn, *a, **kw):
        """Run one rule function; an exception inside a rule is a violation (fail closed)."""
        try:
            return fn(self, *a, **kw)
        except extract.ExtractError:
            raise
        except Exception as e:  # noqa
            tb = traceback.format_exc()
            self.ob(rid, "rule-error", False,
                    "rule %s could not be evaluated on this tree (%s: %s); an unrecognised code shape counts as a violation"
                    % (rid, type(e).__name__, e), detail=tb[-1500:], kind="UNRECOGNISED")
            return None


def load_known():
    p = os.path.join(VERIF, "known_findings.json")
    if not os.path.exists(p):
        return []
    with open(p) as f:
        return json.load(f).get("findings", [])


def finish(ctx, level="other", explanation="", extra_cov=None, assumptions=None, seed=0):
    """Print verdict lines, write evidence and replay files, return exit code."""
    known = [k for k in load_known() if k.get("status") == "known" and k.get("property") == ctx.prop]
    known_keys = {k["key"]: k for k in known}
    bad = [o for o in ctx.obligations if not o["ok"]]
    viol = []
    kf = []
    for o in bad:
        if o["key"] in known_keys:
            kf.append((o, known_keys[o["key"]]))
        else:
            viol.append(o)
    os.makedirs(EVIDENCE_DIR, exist_ok=True)
    replay_dir = os.path.join(EVIDENCE_DIR, "replay")
    lines = []
    seen_kf = set()
    for o, k in kf:
        if k["key"] in seen_kf:
            continue
        seen_kf.add(k["key"])
        lines.append("KNOWN-FINDING: property=%s %s [%s]" % (ctx.prop, k.get("what", o["what"]), k["key"]))
    for i, o in enumerate(viol):
        os.makedirs(replay_dir, exist_ok=True)
        safe = "".join(c if c.isalnum() or c in "-_." else "_" for c in o["key"])[:150]
        rp = os.path.join(replay_dir, "%s-%s.json" % (ctx.prop, safe))
        with open(rp, "w") as f:
            json.dump({"property": ctx.prop, "tier": ctx.tier, "obligation": o,
                       "rule_text": ctx.rules.get(o["rule"].split(".", 1)[1], "")}, f, indent=1)
        lines.append("VIOLATION property=%s replay=%s" % (ctx.prop, rp))
        lines.append("  rule=%s key=%s%s\n  %s%s" % (o["rule"], o["key"], (" at " + o["site"]) if o.get("site") else "",
                                                    o["what"], ("\n  detail: " + o["detail"][:600]) if o.get("detail") else ""))
    wall = round(time.time() - ctx.t0, 2)
    n_ob = len(ctx.obligations)
    n_ok = n_ob - len(bad)
    samples = []
    # sample: a few per rule
    per_rule = {}
    for o in ctx.obligations:
        per_rule.setdefault(o["rule"], []).append(o)
    for r, os_ in sorted(per_rule.items()):
        os_ = [o for o in os_ if o.get("kind") not in ("ANCHOR", "FLOOR")] + [o for o in os_ if o.get("kind") in ("ANCHOR", "FLOOR")]
        for o in os_[:3]:
            samples.append({k: o[k] for k in ("rule", "key", "ok", "what", "site") if k in o})
    cov = {
        "explanation": explanation,
        "obligations": n_ob,
        "discharged": n_ok,
        "known_findings": len(seen_kf),
        "rules": {("%s.%s" % (ctx.prop, r)): t for r, t in ctx.rules.items()},
        "obligations_per_rule": {r: len(v) for r, v in sorted(per_rule.items())},
        "functions_analysed": sorted(ctx.functions_analysed),
        "n_functions_analysed": len(ctx.functions_analysed),
        "extractions": ctx.extract_info,
        "samples": samples[:60],
        "notes": ctx.notes,
    }
    cov.update(ctx.extra)
    if extra_cov:
        cov.update(extra_cov)
    ev = {
        "property_id": ctx.prop,
        "tier": ctx.tier,
        "seed": seed,
        "level": level,
        "coverage": cov,
        "assumptions": (assumptions or []) + ctx.assumptions,
        "wall_s": wall,
        "violations": len(viol),
    }
    with open(os.path.join(EVIDENCE_DIR, ctx.prop + ".json"), "w") as f:
        json.dump(ev, f, indent=1, default=str)
    if not ctx.quiet:
        for l in lines:
            print(l)
        print("%s tier=%s obligations=%d discharged=%d known=%d violations=%d functions=%d wall=%.1fs" % (
            ctx.prop, ctx.tier, n_ob, n_ok, len(seen_kf), len(viol), len(ctx.functions_analysed), wall))
    return 1 if viol else 0
