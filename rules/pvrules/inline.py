"""MIR-level inlining of helper functions that did not exist on the pinned tree.

Rules are written against the functions of the pinned tree (the anchors).  When a maintainer extracts part of such a function into a new
private helper, the behaviour is unchanged but the anchor's body no longer shows the operations the rules look for.  Before any rule
runs, every call whose resolved callee is a crate-local function that is NOT in the frozen table of the pinned tree's functions
(rules/baseline_fns.json) is replaced by the callee's body (parameters bound by assignment, `return` turned into an assignment to the
call's destination and a jump to its target), to a bounded depth.  Functions of the pinned tree are never inlined: rules name them."""
import copy
import json
import os
import re

HERE = os.path.dirname(os.path.abspath(__file__))
BASELINE = os.path.join(os.path.dirname(HERE), "baseline_fns.json")
MAX_DEPTH = 4
MAX_BLOCKS = 1500


def load_baseline():
    if not os.path.exists(BASELINE):
        return None
    with open(BASELINE) as f:
        return set(json.load(f)["functions"])


def _renumber(x, off_l, off_b):
    """Deep copy of a statement / terminator with locals and block ids shifted."""
    if isinstance(x, dict):
        if "l" in x and "p" in x and isinstance(x["l"], int):
            return {"l": x["l"] + off_l, "p": [[e[0], e[1] + off_l] if e and e[0] == "index" else copy.copy(e) for e in x["p"]]}
        out = {}
        for k, v in x.items():
            if k in ("target", "otherwise", "unwind") and isinstance(v, int):
                out[k] = v + off_b
            elif k == "arms":
                out[k] = [[a[0], a[1] + off_b] for a in v]
            else:
                out[k] = _renumber(v, off_l, off_b)
        return out
    if isinstance(x, list):
        return [_renumber(v, off_l, off_b) for v in x]
    return x


_TRAIT_CALL = re.compile(r"^<(\w+) as (.+)>::(\w+)$")


def _respecialise(term, subst, by_path):
    """A call `<S as Trait>::m` in the body of a generic helper, with S one of the helper's type parameters: in the copy expanded at a call site that fixes S to a
    type of this crate it is the call of that type's impl (the driver resolved it in the helper's own, still generic, context)."""
    if term.get("k") != "call" or term.get("res") or not subst:
        return
    m = _TRAIT_CALL.match(term.get("callee_args") or "")
    if not m or m.group(1) not in subst:
        return
    cand = "<%s as %s>::%s" % (subst[m.group(1)], m.group(2), m.group(3))
    if cand in by_path:
        term["res"] = cand
        term["res_args"] = cand
        term["res_kind"] = "item"
        term["callee_args"] = cand
        term["inl_respecialised"] = True


def _inline_one(caller, bi, callee, by_path=None):
    blocks = caller["blocks"]
    t = blocks[bi]["term"]
    subst = {}
    if by_path is not None and callee.get("generics"):
        # the resolved instance's own type arguments when the call was resolved to this very function (a trait call resolved to an impl method: the impl's parameters),
        # else the call's
        ta = t.get("res_targs") if (t.get("res") == callee.get("path") and t.get("res_targs") is not None) else t.get("targs")
        if len(callee["generics"]) == len(ta or []):
            subst = {g: a for g, a in zip(callee["generics"], ta) if g != a}
    off_l = len(caller["locals"])
    off_b = len(blocks)
    for lc in callee["locals"]:
        caller["locals"].append(dict(lc))
    sp = t.get("sp") or t.get("fnsp")
    for i, a in enumerate(t.get("args", [])):
        blocks[bi]["stmts"].append({"k": "assign", "pl": {"l": off_l + 1 + i, "p": []}, "rv": {"k": "use", "ops": [copy.deepcopy(a)]}, "sp": sp, "inl": "arg"})
    dest, target = t["dest"], t.get("target")
    blocks[bi]["term"] = {"k": "goto", "target": off_b, "sp": sp, "inl": callee["path"]}
    for cb in callee["blocks"]:
        nb = _renumber(cb, off_l, off_b)
        if subst:
            _respecialise(nb["term"], subst, by_path)
        if nb["term"]["k"] == "return":
            nb["stmts"].append({"k": "assign", "pl": copy.deepcopy(dest), "rv": {"k": "use", "ops": [{"k": "move", "pl": {"l": off_l, "p": []}}]}, "sp": sp, "inl": "ret"})
            nb["term"] = {"k": "goto", "target": target, "sp": sp} if target is not None else {"k": "unreachable", "sp": sp}
        blocks.append(nb)


def _capture_places(body, f_op):
    """For a closure held in local f_op: {upvar index: (place, by_ref)} where place is the caller's place the upvar stands for —
    `&mut x` / `&x` captures give x (by_ref=True), by-value captures of a plain local give that local (by_ref=False)."""
    if f_op.get("k") not in ("move", "copy") or f_op["pl"]["p"]:
        return {}
    l = f_op["pl"]["l"]
    agg = None
    for bb in body["blocks"]:
        for st in bb["stmts"]:
            if st["k"] == "assign" and st["pl"]["l"] == l and not st["pl"]["p"] and st["rv"].get("k") == "agg" and st["rv"].get("agg") == "closure":
                agg = st["rv"]
    if agg is None:
        return {}
    out = {}
    for k, op in enumerate(agg["ops"]):
        if op.get("k") not in ("move", "copy") or op["pl"]["p"]:
            continue
        t = op["pl"]["l"]
        defs = [st["rv"] for bb in body["blocks"] for st in bb["stmts"] if st["k"] == "assign" and st["pl"]["l"] == t and not st["pl"]["p"]]
        if len(defs) == 1 and defs[0].get("k") == "ref":
            out[k] = (defs[0]["pl"], True)
        elif len(defs) == 1 and defs[0].get("k") == "use" and defs[0]["ops"][0].get("k") in ("copy", "move") and False:
            out[k] = (defs[0]["ops"][0]["pl"], False)
    return out


def _forward_upvars(x, env_local, env_is_ref, caps):
    """Rewrite every place `(*(*env).k)` (env by reference) / `(*env.k)` in the inlined closure body into the caller's captured place, so that
    reads and WRITES of a captured variable are reads and writes of that variable."""
    if isinstance(x, dict):
        if "l" in x and "p" in x and isinstance(x["l"], int) and x["l"] == env_local:
            p = x["p"]
            i = 1 if (env_is_ref and p and p[0][0] == "deref") else 0
            if len(p) > i + 1 and p[i][0] == "field" and p[i + 1][0] == "deref" and p[i][1] in caps and caps[p[i][1]][1]:
                base = caps[p[i][1]][0]
                return {"l": base["l"], "p": copy.deepcopy(base["p"]) + copy.deepcopy(p[i + 2:])}
            return x
        return {k: _forward_upvars(v, env_local, env_is_ref, caps) for k, v in x.items()}
    if isinstance(x, list):
        return [_forward_upvars(v, env_local, env_is_ref, caps) for v in x]
    return x


def _retarget_env(caller, n0, l0, envty, caps):
    """After a closure body was inlined (blocks n0.., locals l0..): make its uses of captured variables uses of the caller's variables."""
    blocks = caller["blocks"]
    if not caps:
        return
    env_local = l0 + 1       # the closure body's own _1 after renumbering
    # rustc splits nested dereferences with `deref_copy` temporaries (`_t = deref_copy (*_1).0; (*_t) = ..`): undo that first
    cfd = {}
    for bi_ in range(n0, len(blocks)):
        for st in blocks[bi_]["stmts"]:
            if st["k"] == "assign" and not st["pl"]["p"] and st["rv"].get("k") == "use" and st["rv"]["ops"][0].get("k") == "copy" \
                    and (st["rv"].get("cfd") or st["rv"]["ops"][0]["pl"]["l"] == env_local) and st["pl"]["l"] >= l0:
                cfd.setdefault(st["pl"]["l"], []).append(st["rv"]["ops"][0]["pl"])
    # only temporaries with one and the same source everywhere
    cfd = {k_: v_[0] for k_, v_ in cfd.items() if all(x_ == v_[0] for x_ in v_)}

    def undo_cfd(x):
        if isinstance(x, dict):
            if "l" in x and "p" in x and isinstance(x["l"], int) and x["l"] in cfd and x["p"] and x["p"][0][0] == "deref":
                src = cfd[x["l"]]
                return {"l": src["l"], "p": copy.deepcopy(src["p"]) + copy.deepcopy(x["p"])}
            return {k: undo_cfd(v) for k, v in x.items()}
        if isinstance(x, list):
            return [undo_cfd(v) for v in x]
        return x
    for bi_ in range(n0, len(blocks)):
        nb_ = undo_cfd(blocks[bi_]) if cfd else blocks[bi_]
        blocks[bi_] = _forward_upvars(nb_, env_local, envty.startswith("&"), caps)


def _closure_def(body, op):
    """Definition path of the closure held by operand `op` (a local assigned once from a closure aggregate), or ('fn', const operand)."""
    if op.get("k") == "const" and op.get("fn"):
        return ("fn", op)
    if op.get("k") not in ("move", "copy") or op["pl"]["p"]:
        return None
    l = op["pl"]["l"]
    defs = []
    for bb in body["blocks"]:
        for st in bb["stmts"]:
            if st["k"] == "assign" and st["pl"]["l"] == l and not st["pl"]["p"]:
                defs.append(st["rv"])
    if len(defs) == 1 and defs[0].get("k") == "agg" and defs[0].get("agg") == "closure":
        return ("closure", defs[0]["def"])
    return None


def _single_def_call(body, l, depth=0):
    """(block index, terminator) of the only definition of local l when that is a call (moves of whole locals are followed: `let it = a.map(f); v.extend(it)`), else None."""
    found = []
    moved = []
    for bb in body["blocks"]:
        for st in bb["stmts"]:
            if st["k"] == "assign" and st["pl"]["l"] == l and not st["pl"]["p"]:
                moved.append(st["rv"])
    if len(moved) == 1 and depth < 4 and moved[0].get("k") == "use" and moved[0]["ops"][0].get("k") == "move" and not moved[0]["ops"][0]["pl"]["p"] \
            and not any(bb["term"].get("k") == "call" and bb["term"]["dest"]["l"] == l and not bb["term"]["dest"]["p"] for bb in body["blocks"]):
        return _single_def_call(body, moved[0]["ops"][0]["pl"]["l"], depth + 1)
    for bi, bb in enumerate(body["blocks"]):
        for st in bb["stmts"]:
            if st["k"] == "assign" and st["pl"]["l"] == l and not st["pl"]["p"]:
                found.append(None)
        t = bb["term"]
        if t.get("k") == "call" and t["dest"]["l"] == l and not t["dest"]["p"]:
            found.append((bi, t))
    return found[0] if len(found) == 1 and found[0] is not None else None


def _resolve_closure(body, op, depth=0):
    """Definition path of the closure an operand denotes, following moves, copies and (re)borrows of locals with a single definition."""
    if depth > 6 or op.get("k") not in ("move", "copy"):
        return None
    pl = op["pl"]
    if [e for e in pl["p"] if e[0] != "deref"]:
        return None
    l = pl["l"]
    defs = [st["rv"] for bb in body["blocks"] for st in bb["stmts"] if st["k"] == "assign" and st["pl"]["l"] == l and not st["pl"]["p"]]
    calls = [bb["term"] for bb in body["blocks"] if bb["term"].get("k") == "call" and bb["term"]["dest"]["l"] == l and not bb["term"]["dest"]["p"]]
    if len(defs) != 1 or calls:
        return None
    rv = defs[0]
    if rv.get("k") == "agg" and rv.get("agg") == "closure":
        return (rv["def"], l)
    if rv.get("k") == "use":
        return _resolve_closure(body, rv["ops"][0], depth + 1)
    if rv.get("k") == "ref":
        return _resolve_closure(body, {"k": "copy", "pl": rv["pl"]}, depth + 1)
    return None


def _resolve_fn_item(body, op, depth=0):
    """The function item an operand denotes (`with_core(LocalHistogramCore::flush)`: the parameter `f` is that item), following moves of single-definition locals."""
    if op.get("k") == "const":
        return op if op.get("fn") else None
    if depth > 6 or op.get("k") not in ("move", "copy"):
        return None
    pl = op["pl"]
    if [e for e in pl["p"] if e[0] != "deref"]:
        return None
    l = pl["l"]
    defs = [st["rv"] for bb in body["blocks"] for st in bb["stmts"] if st["k"] == "assign" and st["pl"]["l"] == l and not st["pl"]["p"]]
    calls = [bb["term"] for bb in body["blocks"] if bb["term"].get("k") == "call" and bb["term"]["dest"]["l"] == l and not bb["term"]["dest"]["p"]]
    if len(defs) != 1 or calls:
        return None
    rv = defs[0]
    if rv.get("k") == "use":
        return _resolve_fn_item(body, rv["ops"][0], depth + 1)
    if rv.get("k") == "ref":
        return _resolve_fn_item(body, {"k": "copy", "pl": rv["pl"]}, depth + 1)
    return None


def _tuple_arity(ty):
    ty = (ty or "").strip()
    if not (ty.startswith("(") and ty.endswith(")")):
        return None
    inner, depth, n, cur = ty[1:-1], 0, 0, ""
    for ch in inner:
        if ch in "(<[":
            depth += 1
        elif ch in ")>]":
            depth -= 1
        if ch == "," and depth == 0:
            n += 1 if cur.strip() else 0
            cur = ""
        else:
            cur += ch
    return n + (1 if cur.strip() else 0)


def _inline_closure_call(caller, bi, by_path):
    """`f(x, y)` where f is a closure defined in this very body (`<closure as Fn>::call(&f, (x, y))`): replaced by the closure's body.
    Where f is a function item, the call becomes the direct call of that function."""
    blocks = caller["blocks"]
    t = blocks[bi]["term"]
    if len(t.get("args", [])) != 2 or t.get("target") is None:
        return False
    rc = _resolve_closure(caller, t["args"][0])
    if rc is None:
        fi = _resolve_fn_item(caller, t["args"][0])
        tup = t["args"][1]
        if fi is None or tup.get("k") not in ("move", "copy") or tup["pl"]["p"]:
            return False
        n = _tuple_arity(caller["locals"][tup["pl"]["l"]]["ty"])
        if n is None:
            return False
        sp = t.get("sp") or t.get("fnsp")
        blocks[bi]["term"] = {"k": "call", "func": copy.deepcopy(fi), "args": [{"k": "move", "pl": {"l": tup["pl"]["l"], "p": [["field", i, str(i)]]}} for i in range(n)],
                              "dest": t["dest"], "target": t["target"], "fnsp": sp, "sp": sp, "callee": fi["fn"], "callee_args": fi.get("fnargs", fi["fn"]), "targs": [],
                              "res": fi["fn"], "res_args": fi.get("fnargs", fi["fn"]), "res_kind": "item", "inl": "fn-item-call",
                              **({"unwind": t["unwind"]} if "unwind" in t else {})}
        return True
    if rc[0] not in by_path:
        return False
    cbody = copy.deepcopy(by_path[rc[0]])
    locs = caller["locals"]
    sp = t.get("sp") or t.get("fnsp")
    envty = cbody["locals"][1]["ty"] if len(cbody["locals"]) > 1 else ""
    a0 = t["args"][0]
    a0ty = locs[a0["pl"]["l"]]["ty"] if not a0["pl"]["p"] else "&"
    args = []
    if envty.startswith("&") and not a0ty.startswith("&"):
        locs.append({"ty": envty})
        l_env = len(locs) - 1
        blocks[bi]["stmts"].append({"k": "assign", "pl": {"l": l_env, "p": []}, "rv": {"k": "ref", "bk": "mut" if envty.startswith("&mut") else "shared", "pl": copy.deepcopy(a0["pl"])}, "sp": sp})
        args.append({"k": "move", "pl": {"l": l_env, "p": []}})
    else:
        args.append(copy.deepcopy(a0))
    tup = t["args"][1]
    nparams = cbody["argc"] - 1
    for i in range(nparams):
        if tup.get("k") in ("move", "copy"):
            args.append({"k": "move", "pl": {"l": tup["pl"]["l"], "p": copy.deepcopy(tup["pl"]["p"]) + [["field", i, str(i)]]}})
        else:
            return False
    fake = dict(t)
    fake["args"] = args
    blocks[bi]["term"] = fake
    n0, l0 = len(blocks), len(locs)
    # the closure local that holds the aggregate (for upvar forwarding)
    caps = _capture_places(caller, {"k": "move", "pl": {"l": rc[1], "p": []}})
    _inline_one(caller, bi, cbody)
    _retarget_env(caller, n0, l0, envty, caps)
    return True


def _desugar_map_collect(caller, bi, by_path):
    """`iter.map(f).collect::<Vec<_>>()` -> `let mut v = Vec::new(); for x in iter { v.push(f(x)) }` (closure inlined)."""
    blocks = caller["blocks"]
    t = blocks[bi]["term"]
    if len(t.get("args", [])) != 1 or t.get("target") is None or "Vec<" not in (t.get("callee_args") or ""):
        return False
    a = t["args"][0]
    if a.get("k") not in ("move", "copy") or a["pl"]["p"]:
        return False
    d = _single_def_call(caller, a["pl"]["l"])
    if d is None or not (d[1].get("callee") or "").endswith("iter::Iterator::map") or len(d[1].get("args", [])) != 2 or d[1].get("target") is None:
        return False
    mbi, mt = d
    it_op, f_op = copy.deepcopy(mt["args"][0]), copy.deepcopy(mt["args"][1])
    if _closure_def(caller, f_op) is None or (_closure_def(caller, f_op)[0] == "closure" and _closure_def(caller, f_op)[1] not in by_path):
        return False
    # the map call disappears; the loop is built at the collect site
    blocks[mbi]["term"] = {"k": "goto", "target": mt["target"], "sp": mt.get("sp")}
    t["args"] = [it_op, f_op]
    return _desugar_for_each(caller, bi, by_path, collect_into_vec=True)


def _desugar_for_each(caller, bi, by_path, collect_into_vec=False, try_mode=False, fold=False, summing=False):
    """`Iterator::for_each(iter, f)` -> an explicit `loop { match iter.next() { Some(x) => f(x), None => break } }` with the closure's body
    inlined, so that rules written for `for` loops see the same shape.  Returns True when the call was rewritten.
    collect_into_vec: the results of f are pushed into a fresh Vec that becomes the value of the call (map + collect)."""
    blocks = caller["blocks"]
    t = blocks[bi]["term"]
    acc_op = None
    if fold:
        # fold(iter, init, f) / try_fold(&mut iter, init, f): an accumulator is threaded through the closure
        if len(t.get("args", [])) != 3 or t.get("target") is None:
            return False
        it_op, acc_op, f_op = t["args"]
    else:
        if len(t.get("args", [])) != 2 or t.get("target") is None:
            return False
        it_op, f_op = t["args"]
    cd = _closure_def(caller, f_op)
    if cd is None:
        return False
    if fold and cd[0] != "closure":
        return False
    if cd[0] == "closure" and cd[1] not in by_path:
        return False
    sp = t.get("sp") or t.get("fnsp")
    locs = caller["locals"]
    ity = locs[it_op["pl"]["l"]]["ty"] if it_op.get("k") in ("move", "copy") and not it_op["pl"]["p"] else "?"

    def newl(ty, name=None):
        locs.append({"ty": ty, **({"name": name} if name else {})})
        return len(locs) - 1
    l_it, l_ref, l_opt, l_d, l_elem, l_unit = newl(ity, "iter"), newl("&mut " + ity), newl("std::option::Option<?>"), newl("isize"), newl("?"), newl("()")
    dest, target = t["dest"], t["target"]
    nb = len(blocks)
    H, S, B, E, U = nb, nb + 1, nb + 2, nb + 3, nb + 4
    P_ = nb + 5          # push block (map + collect) / `?` on the closure's result (try_for_each)
    after_f = P_ if (collect_into_vec or try_mode or fold or summing) else H
    l_acc = None
    if fold:
        l_acc = newl("?", "acc")
        blocks[bi]["stmts"].append({"k": "assign", "pl": {"l": l_acc, "p": []}, "rv": {"k": "use", "ops": [copy.deepcopy(acc_op)]}, "sp": sp, "inl": "fold"})
    if try_mode and not (not dest["p"] and locs[dest["l"]]["ty"].startswith("std::result::Result<")):
        return False
    if summing:
        sty = locs[dest["l"]]["ty"] if not dest["p"] else "?"
        if not re.match(r"^[ui](8|16|32|64|128|size)$", sty):
            return False
        l_acc = newl(sty, "sum")
        blocks[bi]["stmts"].append({"k": "assign", "pl": {"l": l_acc, "p": []}, "rv": {"k": "use", "ops": [{"k": "const", "ty": sty, "val": "0_" + sty, "bits": "0"}]}, "sp": sp, "inl": "sum"})
    blocks[bi]["stmts"].append({"k": "assign", "pl": {"l": l_it, "p": []}, "rv": {"k": "use", "ops": [copy.deepcopy(it_op)]}, "sp": sp, "inl": "for_each"})
    into_existing = isinstance(collect_into_vec, dict)
    if into_existing:
        # `vec.extend(iter.map(f))`: the results are pushed into the vector the caller already has (operand: &mut Vec)
        l_vref0, l_pu = newl("&mut std::vec::Vec<?>"), newl("()")
        blocks[bi]["stmts"].append({"k": "assign", "pl": {"l": l_vref0, "p": []}, "rv": {"k": "use", "ops": [copy.deepcopy(collect_into_vec)]}, "sp": sp, "inl": "extend"})
        blocks[bi]["term"] = {"k": "goto", "target": H, "sp": sp, "inl": "extend"}
    elif collect_into_vec:
        vty = locs[dest["l"]]["ty"] if not dest["p"] else "std::vec::Vec<?>"
        l_vec, l_vref, l_pu = newl(vty, "collected"), newl("&mut " + vty), newl("()")
        V0 = nb + 6
        vnew = "std::vec::Vec::<?>::new"
        blocks[bi]["term"] = {"k": "call", "func": {"k": "const", "ty": "fn", "fn": "std::vec::Vec::<T>::new", "fnargs": vnew}, "args": [], "dest": {"l": l_vec, "p": []}, "target": H,
                              "fnsp": sp, "sp": sp, "callee": "std::vec::Vec::<T>::new", "callee_args": vnew, "targs": [], "inl": "map_collect"}
    else:
        blocks[bi]["term"] = {"k": "goto", "target": H, "sp": sp, "inl": "for_each"}
    nxt = "<%s as std::iter::Iterator>::next" % ity
    blocks.append({"stmts": [{"k": "assign", "pl": {"l": l_ref, "p": []}, "rv": {"k": "ref", "bk": "mut", "pl": {"l": l_it, "p": []}}, "sp": sp}],
                   "term": {"k": "call", "func": {"k": "const", "ty": "fn", "fn": "std::iter::Iterator::next", "fnargs": nxt}, "args": [{"k": "move", "pl": {"l": l_ref, "p": []}}],
                            "dest": {"l": l_opt, "p": []}, "target": S, "fnsp": sp, "sp": sp, "callee": "std::iter::Iterator::next", "callee_args": nxt, "targs": [ity],
                            "trait": "std::iter::Iterator", "exp": True}})
    blocks.append({"stmts": [{"k": "assign", "pl": {"l": l_d, "p": []}, "rv": {"k": "discr", "pl": {"l": l_opt, "p": []}}, "sp": sp}],
                   "term": {"k": "switch", "discr": {"k": "move", "pl": {"l": l_d, "p": []}}, "dty": "isize", "arms": [["0", E], ["1", B]], "otherwise": U, "sp": sp}})
    elem_stmt = {"k": "assign", "pl": {"l": l_elem, "p": []}, "rv": {"k": "use", "ops": [{"k": "move", "pl": {"l": l_opt, "p": [["downcast", 1, "Some"], ["field", 0, "0"]]}}]}, "sp": sp}
    if cd[0] == "fn":
        op = cd[1]
        call = {"k": "call", "func": copy.deepcopy(op), "args": [{"k": "move", "pl": {"l": l_elem, "p": []}}], "dest": {"l": l_unit, "p": []}, "target": after_f, "fnsp": sp, "sp": sp,
                "callee": op["fn"], "callee_args": op.get("fnargs", op["fn"]), "targs": [], "res": op["fn"], "res_args": op.get("fnargs", op["fn"]), "res_kind": "item"}
        blocks.append({"stmts": [elem_stmt], "term": call})
    else:
        # a call of the closure body, inlined right away
        cbody = by_path[cd[1]]
        envty = cbody["locals"][1]["ty"] if len(cbody["locals"]) > 1 else ""
        env = ({"k": "ref", "bk": "mut", "pl": copy.deepcopy(f_op["pl"])} if envty.startswith("&mut") else
               {"k": "ref", "bk": "shared", "pl": copy.deepcopy(f_op["pl"])} if envty.startswith("&") else {"k": "use", "ops": [copy.deepcopy(f_op)]})
        l_env = newl(envty or "?")
        fargs = [{"k": "move", "pl": {"l": l_env, "p": []}}] + ([{"k": "move", "pl": {"l": l_acc, "p": []}}] if fold else []) + [{"k": "move", "pl": {"l": l_elem, "p": []}}]
        fake = {"k": "call", "args": fargs, "dest": {"l": l_unit, "p": []}, "target": after_f, "sp": sp}
        blocks.append({"stmts": [elem_stmt, {"k": "assign", "pl": {"l": l_env, "p": []}, "rv": env, "sp": sp}], "term": fake})
    if isinstance(collect_into_vec, dict):
        blocks.append({"stmts": [{"k": "assign", "pl": copy.deepcopy(dest), "rv": {"k": "agg", "ops": [], "agg": "tuple"}, "sp": sp}], "term": {"k": "goto", "target": target, "sp": sp}})
    elif collect_into_vec:
        blocks.append({"stmts": [{"k": "assign", "pl": copy.deepcopy(dest), "rv": {"k": "use", "ops": [{"k": "move", "pl": {"l": l_vec, "p": []}}]}, "sp": sp}], "term": {"k": "goto", "target": target, "sp": sp}})
    elif (fold and not try_mode) or summing:
        blocks.append({"stmts": [{"k": "assign", "pl": copy.deepcopy(dest), "rv": {"k": "use", "ops": [{"k": "move", "pl": {"l": l_acc, "p": []}}]}, "sp": sp}], "term": {"k": "goto", "target": target, "sp": sp}})
    elif fold and try_mode:
        blocks.append({"stmts": [{"k": "assign", "pl": copy.deepcopy(dest), "rv": {"k": "agg", "ops": [{"k": "move", "pl": {"l": l_acc, "p": []}}], "agg": "adt", "adt": "std::result::Result",
                                                                                  "adtargs": "std::result::Result", "variant": "Ok", "vidx": 0, "fields": ["0"]}, "sp": sp}],
                       "term": {"k": "goto", "target": target, "sp": sp}})
    elif try_mode:
        l_u = newl("()")
        blocks.append({"stmts": [{"k": "assign", "pl": {"l": l_u, "p": []}, "rv": {"k": "agg", "ops": [], "agg": "tuple"}, "sp": sp},
                                 {"k": "assign", "pl": copy.deepcopy(dest), "rv": {"k": "agg", "ops": [{"k": "move", "pl": {"l": l_u, "p": []}}], "agg": "adt", "adt": "std::result::Result",
                                                                                  "adtargs": "std::result::Result", "variant": "Ok", "vidx": 0, "fields": ["0"]}, "sp": sp}],
                       "term": {"k": "goto", "target": target, "sp": sp}})
    else:
        blocks.append({"stmts": [{"k": "assign", "pl": copy.deepcopy(dest), "rv": {"k": "agg", "ops": [], "agg": "tuple"}, "sp": sp}], "term": {"k": "goto", "target": target, "sp": sp}})
    blocks.append({"stmts": [], "term": {"k": "unreachable", "sp": sp}})
    if fold and not try_mode:
        blocks.append({"stmts": [{"k": "assign", "pl": {"l": l_acc, "p": []}, "rv": {"k": "use", "ops": [{"k": "move", "pl": {"l": l_unit, "p": []}}]}, "sp": sp, "inl": "fold"}],
                       "term": {"k": "goto", "target": H, "sp": sp}})
    if summing:
        blocks.append({"stmts": [{"k": "assign", "pl": {"l": l_acc, "p": []}, "rv": {"k": "binop", "op": "Add", "ops": [{"k": "copy", "pl": {"l": l_acc, "p": []}}, {"k": "move", "pl": {"l": l_unit, "p": []}}]},
                                  "sp": sp, "inl": "sum"}],
                       "term": {"k": "goto", "target": H, "sp": sp}})
    if try_mode:
        # P_: `match Try::branch(r) { Continue(()) => next iteration, Break(residual) => return FromResidual::from_residual(residual) }`
        l_cf, l_cd, l_rs = newl("std::ops::ControlFlow<?, ()>"), newl("isize"), newl("?")
        SW, BK = nb + 6, nb + 7
        br = "<std::result::Result<(), ?> as std::ops::Try>::branch"
        fr = "<std::result::Result<(), ?> as std::ops::FromResidual<?>>::from_residual"
        blocks.append({"stmts": [], "term": {"k": "call", "func": {"k": "const", "ty": "fn", "fn": "std::ops::Try::branch", "fnargs": br}, "args": [{"k": "move", "pl": {"l": l_unit, "p": []}}],
                                              "dest": {"l": l_cf, "p": []}, "target": SW, "fnsp": sp, "sp": sp, "callee": "std::ops::Try::branch", "callee_args": br, "targs": [],
                                              "trait": "std::ops::Try", "exp": True}})
        blocks.append({"stmts": [{"k": "assign", "pl": {"l": l_cd, "p": []}, "rv": {"k": "discr", "pl": {"l": l_cf, "p": []}}, "sp": sp}],
                       "term": {"k": "switch", "discr": {"k": "move", "pl": {"l": l_cd, "p": []}}, "dty": "isize", "arms": [["0", (nb + 8) if fold else H], ["1", BK]], "otherwise": U, "sp": sp}})
        blocks.append({"stmts": [{"k": "assign", "pl": {"l": l_rs, "p": []}, "rv": {"k": "use", "ops": [{"k": "move", "pl": {"l": l_cf, "p": [["downcast", 1, "Break"], ["field", 0, "0"]]}}]}, "sp": sp}],
                       "term": {"k": "call", "func": {"k": "const", "ty": "fn", "fn": "std::ops::FromResidual::from_residual", "fnargs": fr}, "args": [{"k": "move", "pl": {"l": l_rs, "p": []}}],
                                "dest": copy.deepcopy(dest), "target": target, "fnsp": sp, "sp": sp, "callee": "std::ops::FromResidual::from_residual", "callee_args": fr, "targs": [],
                                "trait": "std::ops::FromResidual", "exp": True}})
        if fold:
            # nb + 8: the closure returned Continue(acc'): the accumulator takes that value and the next element is fetched
            blocks.append({"stmts": [{"k": "assign", "pl": {"l": l_acc, "p": []}, "rv": {"k": "use", "ops": [{"k": "move", "pl": {"l": l_cf, "p": [["downcast", 0, "Continue"], ["field", 0, "0"]]}}]},
                                      "sp": sp, "inl": "fold"}],
                           "term": {"k": "goto", "target": H, "sp": sp}})
    if isinstance(collect_into_vec, dict):
        push = "std::vec::Vec::<?>::push"
        l_rb = newl("&mut std::vec::Vec<?>")
        blocks.append({"stmts": [{"k": "assign", "pl": {"l": l_rb, "p": []}, "rv": {"k": "ref", "bk": "mut", "pl": {"l": l_vref0, "p": [["deref"]]}}, "sp": sp}],
                       "term": {"k": "call", "func": {"k": "const", "ty": "fn", "fn": "std::vec::Vec::<T>::push", "fnargs": push},
                                "args": [{"k": "move", "pl": {"l": l_rb, "p": []}}, {"k": "move", "pl": {"l": l_unit, "p": []}}], "dest": {"l": l_pu, "p": []}, "target": H,
                                "fnsp": sp, "sp": sp, "callee": "std::vec::Vec::<T>::push", "callee_args": push, "targs": [], "inl": "extend"}})
    elif collect_into_vec:
        push = "std::vec::Vec::<?>::push"
        blocks.append({"stmts": [{"k": "assign", "pl": {"l": l_vref, "p": []}, "rv": {"k": "ref", "bk": "mut", "pl": {"l": l_vec, "p": []}}, "sp": sp}],
                       "term": {"k": "call", "func": {"k": "const", "ty": "fn", "fn": "std::vec::Vec::<T>::push", "fnargs": push},
                                "args": [{"k": "move", "pl": {"l": l_vref, "p": []}}, {"k": "move", "pl": {"l": l_unit, "p": []}}], "dest": {"l": l_pu, "p": []}, "target": H,
                                "fnsp": sp, "sp": sp, "callee": "std::vec::Vec::<T>::push", "callee_args": push, "targs": [], "inl": "map_collect"}})
    if cd[0] == "closure":
        n0, l0 = len(blocks), len(locs)
        caps = _capture_places(caller, f_op)
        _inline_one(caller, B, copy.deepcopy(by_path[cd[1]]))
        _retarget_env(caller, n0, l0, envty, caps)
    return True


def _specialise_closure(caller, agg_rv, by_path, n):
    """A copy of the closure body named by the aggregate `agg_rv` (built in `caller`) in which every call of a captured function value whose
    definition is known in the caller (a closure the caller built, or a function item) is replaced by that function's body / a direct call.
    None when there is nothing to resolve."""
    hbody = copy.deepcopy(by_path[agg_rv["def"]])
    ops = agg_rv.get("ops") or []
    changed = False
    for _ in range(MAX_DEPTH):
        sites = [bi for bi, bb in enumerate(hbody["blocks"]) if bb["term"].get("k") == "call" and not bb.get("cleanup")
                 and re.search(r"ops::(function::)?Fn(Mut|Once)?::call(_mut|_once)?$", bb["term"].get("callee") or "")]
        k_ = 0
        for bi in sites:
            t = hbody["blocks"][bi]["term"]
            if len(t.get("args", [])) != 2 or t.get("target") is None:
                continue
            cap_idx = _captured_index(hbody, t["args"][0])
            if cap_idx is None or cap_idx >= len(ops):
                continue
            # what the caller put into that capture slot (by value, or a reference to it)
            op_k = ops[cap_idx]
            rc = _resolve_closure(caller, op_k)
            if rc is not None and rc[0] in by_path and "{closure" in rc[0]:
                cbody = copy.deepcopy(by_path[rc[0]])
                envty = cbody["locals"][1]["ty"] if len(cbody["locals"]) > 1 else ""
                a0 = t["args"][0]
                locs = hbody["locals"]
                a0ty = locs[a0["pl"]["l"]]["ty"] if a0.get("k") in ("move", "copy") and not a0["pl"]["p"] else "&"
                args = []
                sp = t.get("sp") or t.get("fnsp")
                if envty.startswith("&") and not a0ty.startswith("&"):
                    locs.append({"ty": envty})
                    l_env = len(locs) - 1
                    hbody["blocks"][bi]["stmts"].append({"k": "assign", "pl": {"l": l_env, "p": []}, "rv": {"k": "ref", "bk": "mut" if envty.startswith("&mut") else "shared", "pl": copy.deepcopy(a0["pl"])}, "sp": sp})
                    args.append({"k": "move", "pl": {"l": l_env, "p": []}})
                elif not envty.startswith("&") and a0ty.startswith("&"):
                    args.append({"k": "copy", "pl": {"l": a0["pl"]["l"], "p": copy.deepcopy(a0["pl"]["p"]) + [["deref"]]}})
                else:
                    args.append(copy.deepcopy(a0))
                tup = t["args"][1]
                if tup.get("k") not in ("move", "copy"):
                    continue
                for i in range(cbody["argc"] - 1):
                    args.append({"k": "move", "pl": {"l": tup["pl"]["l"], "p": copy.deepcopy(tup["pl"]["p"]) + [["field", i, str(i)]]}})
                fake = dict(t)
                fake["args"] = args
                hbody["blocks"][bi]["term"] = fake
                _inline_one(hbody, bi, cbody)
                k_ += 1
                continue
            fi = _resolve_fn_item(caller, op_k)
            tup = t["args"][1]
            if fi is not None and tup.get("k") in ("move", "copy") and not tup["pl"]["p"]:
                n_args = _tuple_arity(hbody["locals"][tup["pl"]["l"]]["ty"])
                if n_args is None:
                    continue
                sp = t.get("sp") or t.get("fnsp")
                hbody["blocks"][bi]["term"] = {"k": "call", "func": copy.deepcopy(fi), "args": [{"k": "move", "pl": {"l": tup["pl"]["l"], "p": [["field", i, str(i)]]}} for i in range(n_args)],
                                               "dest": t["dest"], "target": t["target"], "fnsp": sp, "sp": sp, "callee": fi["fn"], "callee_args": fi.get("fnargs", fi["fn"]), "targs": [],
                                               "res": fi["fn"], "res_args": fi.get("fnargs", fi["fn"]), "res_kind": "item", "inl": "fn-item-call",
                                               **({"unwind": t["unwind"]} if "unwind" in t else {})}
                k_ += 1
        if not k_:
            break
        changed = True
    if not changed:
        return None
    hbody["path"] = "%s::{closure#spec%d}" % (caller["path"], n)
    hbody["spec_of"] = agg_rv["def"]
    return hbody


def _captured_index(body, op, depth=0):
    """k when operand `op` of a closure body denotes its k-th captured variable (`(*_1).k`, `_1.k`, or a local copied/moved/borrowed from it); else None."""
    if depth > 5 or op.get("k") not in ("move", "copy"):
        return None
    pl = op["pl"]
    if pl["l"] == 1:
        proj = [e for e in pl["p"] if e[0] != "deref"]
        if len(proj) == 1 and proj[0][0] == "field":
            return int(proj[0][1])
        return None
    if [e for e in pl["p"] if e[0] != "deref"]:
        return None
    l = pl["l"]
    defs = [st["rv"] for bb in body["blocks"] for st in bb["stmts"] if st["k"] == "assign" and st["pl"]["l"] == l and not st["pl"]["p"]]
    if len(defs) != 1:
        return None
    rv = defs[0]
    if rv.get("k") == "use":
        return _captured_index(body, rv["ops"][0], depth + 1)
    if rv.get("k") == "ref":
        return _captured_index(body, {"k": "copy", "pl": rv["pl"]}, depth + 1)
    return None


def _switch_of_defs(body, def_blocks):
    """(switch block, discriminated place, discr type, {def block: [values]}) when every block of `def_blocks` is entered only from one and the same switch on
    `discriminant(place)` and that place is a local (never a projection through a pointer that might change); else None."""
    blocks = body["blocks"]
    preds = {}
    for bj, bb in enumerate(blocks):
        t = bb["term"]
        succ = []
        if t.get("k") == "switch":
            succ = [a[1] for a in t["arms"]] + [t["otherwise"]]
        elif t.get("k") == "goto":
            succ = [t["target"]]
        elif t.get("target") is not None:
            succ = [t["target"]]
        for s_ in succ:
            preds.setdefault(s_, []).append(bj)
    sw = None
    for d in def_blocks:
        ps = preds.get(d, [])
        if len(ps) != 1 or blocks[ps[0]]["term"].get("k") != "switch":
            return None
        if sw is None:
            sw = ps[0]
        elif sw != ps[0]:
            return None
    t = blocks[sw]["term"]
    dop = t["discr"]
    if dop.get("k") not in ("move", "copy") or dop["pl"]["p"]:
        return None
    dl = dop["pl"]["l"]
    dst = [st for st in blocks[sw]["stmts"] if st["k"] == "assign" and st["pl"]["l"] == dl and not st["pl"]["p"]]
    if len(dst) != 1 or dst[0]["rv"].get("k") != "discr" or dst[0]["rv"]["pl"]["p"]:
        return None
    place = dst[0]["rv"]["pl"]
    # the discriminated local is assigned exactly once in the whole body
    ndefs = sum(1 for bb in blocks for st in bb["stmts"] if st["k"] == "assign" and st["pl"]["l"] == place["l"] and not st["pl"]["p"]) + \
        sum(1 for bb in blocks if bb["term"].get("k") == "call" and bb["term"]["dest"]["l"] == place["l"] and not bb["term"]["dest"]["p"])
    if ndefs != 1:
        return None
    arm_of = {}
    for v_, tgt in t["arms"]:
        if tgt in def_blocks:
            arm_of.setdefault(tgt, []).append(v_)
    if t["otherwise"] in def_blocks or set(arm_of) != set(def_blocks):
        return None
    return sw, place, t.get("dty", "isize"), arm_of


def _defunctionalise(body):
    """A call through a function pointer local that is assigned, on different paths, one of several known function items (`let f: fn(..) = match ty { A => fa, B => fb };
    .. f(x)`) becomes a switch over a selector recorded at the assignments, with one direct call per item.  Returns the number of call sites rewritten."""
    blocks, locs = body["blocks"], body["locals"]
    n = 0
    for bi in range(len(blocks)):
        t = blocks[bi]["term"]
        if t.get("k") != "call" or blocks[bi].get("cleanup") or t.get("target") is None:
            continue
        fo = t.get("func") or {}
        if fo.get("k") not in ("move", "copy") or fo["pl"]["p"]:
            continue
        # follow plain moves back to the multiply-assigned pointer local
        l, seen = fo["pl"]["l"], set()
        while l not in seen:
            seen.add(l)
            defs = [(bj, si, st) for bj, bb in enumerate(blocks) for si, st in enumerate(bb["stmts"]) if st["k"] == "assign" and st["pl"]["l"] == l and not st["pl"]["p"]]
            if len(defs) == 1 and defs[0][2]["rv"].get("k") == "use" and defs[0][2]["rv"]["ops"][0].get("k") in ("move", "copy") and not defs[0][2]["rv"]["ops"][0]["pl"]["p"]:
                l = defs[0][2]["rv"]["ops"][0]["pl"]["l"]
                continue
            break
        items = []
        for bj, si, st in defs:
            rv = st["rv"]
            if rv.get("k") == "cast" and "ReifyFnPointer" in (rv.get("cast") or "") and rv["ops"][0].get("k") == "const" and rv["ops"][0].get("fn"):
                items.append((bj, si, rv["ops"][0]))
            else:
                items = None
                break
        if not items or len(items) < 2 or any(bb["term"].get("k") == "call" and bb["term"]["dest"]["l"] == l for bb in blocks):
            continue
        sp = t.get("sp") or t.get("fnsp")
        # when the assignments sit directly in the arms of ONE switch on an enum discriminant whose place is still intact at the call, the call site can
        # switch on that very discriminant again (the selector is then not needed and rules see the familiar `match ty { A => fa(x), .. }`)
        same = _switch_of_defs(body, [bj for bj, _, _ in items])
        if same is not None:
            sbi, dplace, dty, arm_of = same
            locs.append({"ty": "isize"})
            d2 = len(locs) - 1
            nb = len(blocks)
            arms = []
            for idx, (bj, si, op) in enumerate(items):
                call = {"k": "call", "func": copy.deepcopy(op), "args": copy.deepcopy(t["args"]), "dest": copy.deepcopy(t["dest"]), "target": t["target"], "fnsp": sp, "sp": sp,
                        "callee": op["fn"], "callee_args": op.get("fnargs", op["fn"]), "targs": [], "res": op["fn"], "res_args": op.get("fnargs", op["fn"]), "res_kind": "item", "inl": "defun",
                        **({"unwind": t["unwind"]} if "unwind" in t else {})}
                blocks.append({"stmts": [], "term": call})
                for v_ in arm_of[bj]:
                    arms.append([str(v_), nb + idx])
            blocks.append({"stmts": [], "term": {"k": "unreachable", "sp": sp}})
            blocks[bi]["stmts"].append({"k": "assign", "pl": {"l": d2, "p": []}, "rv": {"k": "discr", "pl": copy.deepcopy(dplace)}, "sp": sp, "inl": "defun"})
            blocks[bi]["term"] = {"k": "switch", "discr": {"k": "move", "pl": {"l": d2, "p": []}}, "dty": dty, "arms": arms, "otherwise": nb + len(items), "sp": sp, "inl": "defun"}
            n += 1
            continue
        locs.append({"ty": "usize", "name": "fn_selector"})
        sel = len(locs) - 1
        # record the selector next to each assignment (insert from the back so that statement indices stay valid)
        for idx, (bj, si, op) in sorted(enumerate(items), key=lambda x: (x[1][0], -x[1][1])):
            blocks[bj]["stmts"].insert(si + 1, {"k": "assign", "pl": {"l": sel, "p": []}, "rv": {"k": "use", "ops": [{"k": "const", "ty": "usize", "val": "%d_usize" % idx, "bits": str(idx)}]},
                                                "sp": sp, "inl": "defun"})
        nb = len(blocks)
        arms = []
        for idx, (bj, si, op) in enumerate(items):
            call = {"k": "call", "func": copy.deepcopy(op), "args": copy.deepcopy(t["args"]), "dest": copy.deepcopy(t["dest"]), "target": t["target"], "fnsp": sp, "sp": sp,
                    "callee": op["fn"], "callee_args": op.get("fnargs", op["fn"]), "targs": [], "res": op["fn"], "res_args": op.get("fnargs", op["fn"]), "res_kind": "item", "inl": "defun",
                    **({"unwind": t["unwind"]} if "unwind" in t else {})}
            blocks.append({"stmts": [], "term": call})
            arms.append([str(idx), nb + idx])
        blocks.append({"stmts": [], "term": {"k": "unreachable", "sp": sp}})
        blocks[bi]["term"] = {"k": "switch", "discr": {"k": "copy", "pl": {"l": sel, "p": []}}, "dty": "usize", "arms": arms, "otherwise": nb + len(items), "sp": sp, "inl": "defun"}
        n += 1
    return n


def _fold_prehashed_twins(raw, helpers, by_path):
    """`fn f(&self, v) { let h = self.g(v)?; self.f_with(h, v) }` -- a function of the pinned tree whose body is now "compute g(v), hand it and v to a new helper" -- and,
    elsewhere, a caller that already holds `h = self.g(v)?` (or `.unwrap()`) and calls `self.f_with(h, v)` itself so as not to compute g twice: that call *is* `self.f(v)`
    (g has succeeded on this path, and f does nothing but compute it again).  It is rewritten into the call of f, which the rules know.  Returns the list of (caller, helper, f)."""
    import types
    from .mir import Body, peel, is_call
    from . import seqeval
    stub = types.SimpleNamespace(wrapper_fields={})
    twins = {}       # helper path -> (f path, g callee, number of leading args (self))
    for F in raw["bodies"]:
        if F["path"] in helpers or F.get("kind") not in ("Fn", "AssocFn") or F.get("argc", 0) < 2:
            continue
        calls = [(bi, bb["term"]) for bi, bb in enumerate(F["blocks"]) if bb["term"].get("k") == "call" and not bb.get("cleanup")]
        names = [(t.get("res") or t.get("callee") or "") for _, t in calls]
        hs = [(bi, t) for (bi, t), n in zip(calls, names) if n in helpers]
        other = [n for n in names if n not in helpers and not re.search(r"Try>?::branch$", n) and not re.search(r"FromResidual(<.*>)?>?::from_residual$", n)]
        if os.environ.get("PV_DEBUG_FOLD") and hs:
            print("FOLD cand", F["path"], names)
        if len(hs) != 1 or len(other) != 1 or len(calls) > 4:
            continue
        try:
            fb = Body(F, stub)
            hbi, ht = hs[0]
            hc = [c for c in fb.calls() if c.bb == hbi][0]
            gcs = [c for c in fb.calls() if (c.res or c.callee) == other[0]]
            if len(gcs) != 1 or len(hc.args) != F["argc"] + 1:
                continue
            g = gcs[0]
            params = [("param", i + 1) for i in range(F["argc"])]
            # g(self, v..) and helper(self, <payload of g>, v..), and the helper's result is f's result
            if [peel(a) for a in g.args] != params:
                continue
            if peel(hc.args[0]) != params[0] or [peel(a) for a in hc.args[2:]] != params[1:]:
                continue
            if peel(seqeval._unwrap_payload(hc.args[1], None, fb), transparent=[]) != g.result_term():
                continue
            if peel(fb.term_local(0), transparent=[]) != hc.result_term():
                # the result may travel through the return place of the `?` join: every non-error return is the helper's result
                alts = fb.var_alts(peel(fb.term_local(0), transparent=[])[1]) if peel(fb.term_local(0), transparent=[])[0] == "var" else []
                if not alts or not all(a == hc.result_term() or is_call(peel(a, transparent=[]), "FromResidual::from_residual") for a in alts):
                    continue
            twins[ht.get("res") or ht.get("callee")] = (F["path"], g.res or g.callee)
        except Exception:
            if os.environ.get("PV_DEBUG_FOLD"):
                import traceback; traceback.print_exc()
            continue
    done = []
    if not twins:
        return done
    for G in raw["bodies"]:
        if G["path"] in helpers or any(G["path"] == fp for fp, _ in twins.values()):
            continue
        sites = [(bi, bb["term"]) for bi, bb in enumerate(G["blocks"]) if bb["term"].get("k") == "call" and not bb.get("cleanup") and (bb["term"].get("res") or bb["term"].get("callee")) in twins]
        if not sites:
            continue
        try:
            gb = Body(G, stub)
            hb, res_ = gb, (lambda t_: peel(t_))
            if G.get("kind") == "Closure" and "::{closure#" in G["path"]:
                # the values reach the closure as captures: what they are is written where the closure is made
                parent = by_path.get(G["path"].rsplit("::{closure#", 1)[0])
                if parent is None:
                    continue
                pb = Body(parent, stub)
                caps = None
                for bb_ in parent["blocks"]:
                    for st_ in bb_["stmts"]:
                        if st_["k"] == "assign" and st_["rv"].get("k") == "agg" and st_["rv"].get("agg") == "closure" and st_["rv"].get("def") == G["path"]:
                            caps = [pb.term_operand(o) for o in st_["rv"]["ops"]]
                if caps is None:
                    continue
                hb = pb

                def res_(t_, caps=caps):
                    t_ = peel(t_)
                    if isinstance(t_, tuple) and len(t_) == 3 and t_[0] == "field" and str(t_[2]).isdigit() and peel(t_[1]) == ("param", 1) and int(t_[2]) < len(caps):
                        return peel(caps[int(t_[2])])
                    return ("not-a-capture", t_)          # (never equal to a term of the parent body)
            for bi, t in sites:
                fpath, gname = twins[t.get("res") or t.get("callee")]
                c = [x for x in gb.calls() if x.bb == bi][0]
                x_ = res_(c.args[1])
                if hb is not gb and isinstance(x_, tuple) and x_ and x_[0] == "not-a-capture":
                    continue        # in a closure the hash must be a captured value (a term of the closure body says nothing about the parent's blocks)
                h = peel(seqeval._unwrap_payload(peel(x_, transparent=["Result::unwrap", "Result::expect"]), None, hb), transparent=["Result::unwrap", "Result::expect"])
                if not (isinstance(h, tuple) and h and h[0] == "call"):
                    continue
                hcall = [x for x in hb.calls() if x.bb == h[3]]
                if len(hcall) != 1 or (hcall[0].res or hcall[0].callee) != gname:
                    continue
                same = len(hcall[0].args) == len(c.args) - 1 and peel(hcall[0].args[0]) == res_(c.args[0]) and \
                    all(peel(a) == res_(b_) for a, b_ in zip(hcall[0].args[1:], c.args[2:]))
                if not same:
                    continue
                t["args"] = [t["args"][0]] + t["args"][2:]
                for k_ in ("callee", "callee_args", "res", "res_args"):
                    t[k_] = fpath
                t["res_kind"] = "item"
                t["inl"] = "folded"
                done.append((G["path"], "folded:" + fpath))
        except Exception:
            if os.environ.get("PV_DEBUG_FOLD"):
                import traceback; traceback.print_exc()
            continue
    return done


def inline_new_helpers(raw, baseline=None, keep=None):
    """Returns the list of (caller path, helper path) pairs that were inlined (raw is modified in place)."""
    if baseline is None:
        baseline = load_baseline()
    if baseline is None or raw.get("crate") != "prometheus":
        return []
    by_path = {}
    for b in raw["bodies"]:
        by_path.setdefault(b["path"], b)
    done = []
    for b in raw["bodies"]:
        if _defunctionalise(b):
            done.append((b["path"], "defunctionalised"))
    pristine_all = None
    for b in raw["bodies"]:
        for _ in range(MAX_DEPTH):
            sites = [bi for bi, bb in enumerate(b["blocks"]) if bb["term"].get("k") == "call" and not bb.get("cleanup")
                     and re.search(r"iter::Iterator::(for_each|try_for_each|fold|try_fold)$", bb["term"].get("callee") or "")]
            if not sites or len(b["blocks"]) > MAX_BLOCKS:
                break
            if pristine_all is None:
                pristine_all = {p: copy.deepcopy(x) for p, x in by_path.items() if "{closure" in p}
            n = 0
            for bi in sites:
                if (b["blocks"][bi]["term"].get("callee") or "").endswith("Iterator::collect"):
                    if _desugar_map_collect(b, bi, pristine_all):
                        done.append((b["path"], "map_collect"))
                        n += 1
                elif _desugar_for_each(b, bi, pristine_all, try_mode=bool(re.search(r"::try_(for_each|fold)$", b["blocks"][bi]["term"].get("callee") or "")),
                                       fold=bool(re.search(r"::(try_)?fold$", b["blocks"][bi]["term"].get("callee") or ""))):
                    done.append((b["path"], "for_each"))
                    n += 1
            if not n:
                break
    helpers = {p for p, b in by_path.items() if p not in baseline and "{closure" not in p and "{constant" not in p and "{impl" not in p.split("::")[-1]
               and b.get("kind") in ("Fn", "AssocFn")}
    # a function of the pinned tree that merely moved to another module (its old path is gone, its item name is the same) is not a new helper
    def tail(p_):
        segs = re.sub(r"<[^<>]*>", "", re.sub(r"<[^<>]*>", "", p_)).split("::")
        return tuple(segs[-2:]) if (len(segs) >= 3 and segs[-2][:1].isupper()) else tuple(segs[-1:])
    gone = {tail(p_) for p_ in baseline if p_ not in by_path and not p_.startswith("<")}
    helpers = {p_ for p_ in helpers if tail(p_) not in gone}
    if keep is not None:
        helpers = {p_ for p_ in helpers if not keep(p_)}
    if not helpers:
        return done
    done += _fold_prehashed_twins(raw, helpers, by_path)
    pristine = {p: copy.deepcopy(by_path[p]) for p in helpers}
    for b in raw["bodies"]:
        for _ in range(MAX_DEPTH):
            sites = []
            for bi, bb in enumerate(b["blocks"]):
                t = bb["term"]
                if t.get("k") != "call" or bb.get("cleanup"):
                    continue
                tgt = t.get("res") if t.get("res_kind", "item") == "item" and t.get("res") in helpers else (t.get("callee") if t.get("callee") in helpers else None)
                if tgt and tgt != b["path"]:
                    sites.append((bi, tgt))
            if not sites or len(b["blocks"]) > MAX_BLOCKS:
                break
            for bi, tgt in sites:
                _inline_one(b, bi, pristine[tgt], by_path)
                done.append((b["path"], tgt))
    # closures defined in a body and called there directly (`let step = |x| ..; step(v)`), typically after a helper taking `impl Fn` was inlined
    closures = None
    for b in raw["bodies"]:
        if not any(c == b["path"] for c, _ in done):
            continue            # only bodies that were rewritten above: the pinned tree's own direct closure calls stay as they are
        for _ in range(MAX_DEPTH):
            sites = [bi for bi, bb in enumerate(b["blocks"]) if bb["term"].get("k") == "call" and not bb.get("cleanup")
                     and re.search(r"ops::(function::)?Fn(Mut|Once)?::call(_mut|_once)?$", bb["term"].get("callee") or "")]
            if closures is None:
                closures = {p_: x_ for p_, x_ in by_path.items() if "{closure" in p_}
            n_ = 0
            for bi in sites:
                if len(b["blocks"]) <= MAX_BLOCKS and _inline_closure_call(b, bi, closures):
                    n_ += 1
                    done.append((b["path"], "closure-call"))
            if not n_:
                break
    # closures OF an expanded helper that invoke a function value the helper was given (`fn with_local(&self, f: impl FnOnce(..)) { KEY.with(|m| f(m, ..)) }`):
    # the helper's closure is shared by all callers, so each caller gets its own copy in which that call is replaced by the body of the closure it passed
    n_spec = 0
    for b in list(raw["bodies"]):
        if not any(c == b["path"] and h_ in helpers for c, h_ in done):
            continue
        for bb in b["blocks"]:
            for st in bb["stmts"]:
                rv = st.get("rv") or {}
                if st.get("k") != "assign" or rv.get("k") != "agg" or rv.get("agg") != "closure":
                    continue
                hdef = rv.get("def") or ""
                if not any(hdef.startswith(h_ + "::{closure") for h_ in helpers) or hdef not in by_path:
                    continue
                spec = _specialise_closure(b, rv, by_path, n_spec)
                if spec is not None:
                    raw["bodies"].append(spec)
                    by_path[spec["path"]] = spec
                    rv["def"] = spec["path"]
                    rv["spec_of"] = hdef
                    n_spec += 1
                    done.append((b["path"], "closure-specialised"))
    # helpers whose every call was replaced: their own bodies no longer need to be scanned (the code lives in the callers now)
    still_called = set()
    for b in raw["bodies"]:
        if b["path"] in helpers:
            continue
        for bb in b["blocks"]:
            t = bb["term"]
            if t.get("k") == "call":
                for cand in (t.get("res"), t.get("callee")):
                    if cand in helpers:
                        still_called.add(cand)
    used = {h for _, h in done if h in helpers}
    raw["_absorbed_helpers"] = sorted(h for h in helpers if h in used and h not in still_called)
    return done


def expand_body(facts, body, want, depth=3):
    """A copy of `body` in which every call whose resolved callee path satisfies `want(path)` (and has a body in the fact base) is replaced by
    that body, repeatedly up to `depth` levels.  Used by rules that are about what a chain of thin wrappers finally does, not about how the
    chain is cut into functions."""
    from .mir import Body
    raw = copy.deepcopy(body.raw)
    by_path = {}
    for b in facts.raw["bodies"]:
        by_path.setdefault(b["path"], b)
    for _ in range(depth):
        sites = []
        for bi, bb in enumerate(raw["blocks"]):
            t = bb["term"]
            if t.get("k") != "call" or bb.get("cleanup"):
                continue
            for cand in (t.get("res") if t.get("res_kind", "item") == "item" else None, t.get("callee")):
                if cand and cand in by_path and cand != raw["path"] and want(cand):
                    sites.append((bi, cand))
                    break
        if not sites or len(raw["blocks"]) > MAX_BLOCKS:
            break
        for bi, cand in sites:
            _inline_one(raw, bi, copy.deepcopy(by_path[cand]))
    nb = Body(raw, facts)
    nb.key = getattr(body, "key", raw["path"])
    return nb


def _desugar_extend_map(caller, bi, by_path):
    """`vec.extend(iter.map(f))` -> `for x in iter { vec.push(f(x)) }` (closure inlined)."""
    blocks = caller["blocks"]
    t = blocks[bi]["term"]
    if len(t.get("args", [])) != 2 or t.get("target") is None:
        return False
    vec_op, a = t["args"]
    if a.get("k") not in ("move", "copy") or a["pl"]["p"]:
        return False
    d = _single_def_call(caller, a["pl"]["l"])
    if d is None or not (d[1].get("callee") or "").endswith("iter::Iterator::map") or len(d[1].get("args", [])) != 2 or d[1].get("target") is None:
        return False
    mbi, mt = d
    it_op, f_op = copy.deepcopy(mt["args"][0]), copy.deepcopy(mt["args"][1])
    cd = _closure_def(caller, f_op)
    if cd is None or (cd[0] == "closure" and cd[1] not in by_path):
        return False
    blocks[mbi]["term"] = {"k": "goto", "target": mt["target"], "sp": mt.get("sp")}
    t["args"] = [it_op, f_op]
    return _desugar_for_each(caller, bi, by_path, collect_into_vec=copy.deepcopy(vec_op))


def _desugar_map_sum(caller, bi, by_path):
    """`iter.map(f).sum::<int>()` -> `let mut s = 0; for x in iter { s = s + f(x) }` (closure inlined)."""
    blocks = caller["blocks"]
    t = blocks[bi]["term"]
    if len(t.get("args", [])) != 1 or t.get("target") is None:
        return False
    a = t["args"][0]
    if a.get("k") not in ("move", "copy") or a["pl"]["p"]:
        return False
    d = _single_def_call(caller, a["pl"]["l"])
    if d is None or not (d[1].get("callee") or "").endswith("iter::Iterator::map") or len(d[1].get("args", [])) != 2 or d[1].get("target") is None:
        return False
    mbi, mt = d
    it_op, f_op = copy.deepcopy(mt["args"][0]), copy.deepcopy(mt["args"][1])
    cd = _closure_def(caller, f_op)
    if cd is None or (cd[0] == "closure" and cd[1] not in by_path):
        return False
    saved = (copy.deepcopy(blocks[mbi]["term"]), copy.deepcopy(t["args"]))
    blocks[mbi]["term"] = {"k": "goto", "target": mt["target"], "sp": mt.get("sp")}
    t["args"] = [it_op, f_op]
    if _desugar_for_each(caller, bi, by_path, summing=True):
        return True
    blocks[mbi]["term"], t["args"] = saved
    return False


def desugar_map_sum(facts, body):
    """On demand: a copy of `body` in which every `iter.map(f).sum::<integer>()` is an explicit accumulation loop; None when there is none."""
    from .mir import Body
    raw = copy.deepcopy(body.raw)
    closures = {b["path"]: b for b in facts.raw["bodies"] if "{closure" in b["path"]}
    n = 0
    for _ in range(MAX_DEPTH):
        sites = [bi for bi, bb in enumerate(raw["blocks"]) if bb["term"].get("k") == "call" and not bb.get("cleanup")
                 and (bb["term"].get("callee") or "").endswith("iter::Iterator::sum")]
        k = 0
        for bi in sites:
            if _desugar_map_sum(raw, bi, {p: copy.deepcopy(c) for p, c in closures.items()}):
                k += 1
        n += k
        if not k:
            break
    if not n:
        return None
    nb = Body(raw, facts)
    nb.key = getattr(body, "key", raw["path"])
    return nb


def desugar_map_collect(facts, body):
    """On demand: a copy of `body` in which every `iter.map(f).collect::<Vec<_>>()` is an explicit push loop (see _desugar_map_collect).
    Not applied globally: the pinned tree itself uses this form and some rules are written against it."""
    from .mir import Body
    raw = copy.deepcopy(body.raw)
    closures = {b["path"]: b for b in facts.raw["bodies"] if "{closure" in b["path"]}
    n = 0
    for _ in range(MAX_DEPTH):
        sites = [bi for bi, bb in enumerate(raw["blocks"]) if bb["term"].get("k") == "call" and not bb.get("cleanup")
                 and ((bb["term"].get("callee") or "").endswith("iter::Iterator::collect") or (bb["term"].get("callee") or "").endswith("::extend"))]
        k = 0
        for bi in sites:
            cp = {p: copy.deepcopy(c) for p, c in closures.items()}
            if (raw["blocks"][bi]["term"].get("callee") or "").endswith("::extend"):
                if _desugar_extend_map(raw, bi, cp):
                    k += 1
            elif _desugar_map_collect(raw, bi, cp):
                k += 1
        n += k
        if not k:
            break
    if not n:
        return None
    nb = Body(raw, facts)
    nb.key = getattr(body, "key", raw["path"])
    return nb
