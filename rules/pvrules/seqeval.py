"""Symbolic evaluation of the SEQUENCE of values a piece of code feeds into an order-sensitive sink (a hasher, a Vec), independent of whether
it is written as a `for` loop, an iterator chain, a helper taking `impl Iterator`, `extend`, or `push` calls.

A sequence is a list of segments:
  ("elem", term)                         one value
  ("each", container, proj, iter_bb)     for every element e of `container`, in its iteration order: proj(e); iter_bb = block of the call that
                                         starts the iteration (None when unknown)
proj is a tuple of steps applied to the element: () = the element itself; ("lookup", map_term) = map[e] / map.get(e).unwrap();
("fmt", literal) = format!(literal, e); ("field", name) ...
None means "not understood" (callers fail closed)."""
import re

from .mir import is_call, peel, strip_generics, subterms
from .rules import elem_of

ID_CALLS = ["String::as_str", "str::as_bytes", "String::as_bytes", "AsRef::as_ref", "Deref::deref", "Clone::clone", "ToOwned::to_owned", "ToString::to_string", "Borrow::borrow",
            "Into::into", "From::from", "str::to_owned", "String::clone", "Option::unwrap", "Option::expect", "Option::cloned", "Option::copied", "String::as_ref"]
ITER_OF = ["slice::iter", "Vec::iter", "BTreeSet::iter", "IntoIterator::into_iter", "BTreeSet::into_iter", "HashMap::keys", "HashMap::values", "HashSet::iter", "BTreeMap::keys",
           "BTreeMap::values", "slice::iter_mut", "Iterator::by_ref", "Iterator::cloned", "Iterator::copied", "Iterator::peekable"]


def _strip(t):
    return peel(t, transparent=["Deref::deref", "DerefMut::deref_mut"])


def proj_of(facts, fn_term, outer_caps=None):
    """Projection applied by the function value `fn_term` (fn item or closure) to its single argument, or None."""
    if isinstance(fn_term, tuple) and fn_term and fn_term[0] == "fn":
        name = fn_term[1]
        if any(name.endswith(x.split("::")[-1]) for x in ID_CALLS):
            return ()
        return None
    if isinstance(fn_term, tuple) and fn_term and fn_term[0] == "agg" and fn_term[1] == "closure":
        cl = facts.closure(fn_term[2])
        if cl is None:
            return None
        r = cl.term_local(0)
        caps = fn_term[3]
        if isinstance(r, tuple) and len(r) == 2 and r[0] == "var":
            # a closure with several returns, e.g. `match map.get(k) { Some(v) => Ok(v), None => Err(..) }`: the value is the Ok payload
            alts = cl.var_alts(r[1])
            oks = [a for a in alts if isinstance(a, tuple) and a and a[0] == "agg" and a[2].endswith("Result::Ok")]
            errs = [a for a in alts if isinstance(a, tuple) and a and a[0] == "agg" and a[2].endswith("Result::Err")]
            if len(oks) == 1 and len(oks) + len(errs) == len(alts):
                r = oks[0][3][0]
        elif isinstance(r, tuple) and r and r[0] == "agg" and r[2].endswith("Result::Ok"):
            r = r[3][0]
        return _proj_from(peel(r, transparent=ID_CALLS), ("param", 2), caps, facts)
    return None


FALLIBLE = ["Option::ok_or_else", "Option::ok_or", "Try::branch", "Option::map", "Result::map", "Option::copied", "Option::cloned", "Result::ok", "Option::as_ref", "Option::as_deref"]


def _unwrap_payload(r, stop=None, body=None):
    """Strip what only carries a looked-up value to where it is used: `x?`, `.ok_or_else(..)`, `.map(as_ref)`, the payload of Some/Ok/Continue
    (never past `stop`, the loop element / closure argument itself).  With `body`, a local that joins `Ok(x)` with error returns (the result of an
    inlined fallible helper: `match map.get(k) { Some(v) => Ok(v), None => Err(..) }`) stands for x."""
    for _ in range(12):
        r = peel(r, transparent=ID_CALLS)
        if stop is not None and (r == stop or peel(r) == stop):
            return r
        if body is not None and isinstance(r, tuple) and len(r) == 2 and r[0] == "var":
            alts = body.var_alts(r[1])
            oks = [a for a in alts if isinstance(a, tuple) and a and a[0] == "agg" and (a[2].endswith("Result::Ok") or a[2].endswith("Option::Some")) and a[3]]
            rest = [a for a in alts if a not in oks]
            if len(oks) == 1 and rest and all((isinstance(a, tuple) and a and a[0] == "agg" and (a[2].endswith("Result::Err") or a[2].endswith("Option::None")))
                                              or is_call(peel(a, transparent=[]), "FromResidual::from_residual") for a in rest):
                r = oks[0][3][0]
                continue
        if isinstance(r, tuple) and len(r) == 3 and r[0] == "field" and str(r[2]) == "0" and isinstance(r[1], tuple) and r[1][0] == "downcast" and r[1][2] in ("Some", "Ok", "Continue"):
            r = r[1][1]
            continue
        if is_call(r, FALLIBLE) and r[2]:
            r = r[2][0]
            continue
        break
    return r


def _resolve_join(t, b):
    """A local that joins `Ok(x)` of an expanded fallible helper with its error returns (seen through `?`) stands for x; anything else is left as it is."""
    p = peel(t, transparent=ID_CALLS)
    q = p
    # x? : (Try::branch(v) as Continue).0
    if isinstance(q, tuple) and len(q) == 3 and q[0] == "field" and isinstance(q[1], tuple) and q[1][0] == "downcast" and q[1][2] == "Continue":
        inner = peel(q[1][1], transparent=[])
        if is_call(inner, "Try::branch"):
            q = peel(inner[2][0], transparent=ID_CALLS)
    if isinstance(q, tuple) and len(q) == 2 and q[0] == "var":
        r = _unwrap_payload(q, None, b)
        if r != q:
            return r
    return t


def _proj_from(r, arg, caps, facts, body=None):
    """r expressed as a projection of `arg` (closure parameter or loop element)."""
    r = _unwrap_payload(r, arg, body)
    if r == arg or peel(r) == arg:
        return ()
    # map[arg] / map.get(arg).unwrap()
    if is_call(r, ["Index::index", "HashMap::get", "BTreeMap::get"]) and len(r[2]) == 2 and peel(r[2][1], transparent=ID_CALLS) == arg:
        m = peel(r[2][0], transparent=ID_CALLS)
        if caps is not None and isinstance(m, tuple) and len(m) == 3 and m[0] == "field" and peel(m[1]) == ("param", 1) and str(m[2]).isdigit() and int(m[2]) < len(caps):
            m = peel(caps[int(m[2])], transparent=ID_CALLS)
        return (("lookup", m),)
    # a field of the element: arg.name
    if isinstance(r, tuple) and len(r) == 3 and r[0] == "field" and isinstance(r[2], str) and peel(r[1], transparent=ID_CALLS) in (arg, ("deref", arg)):
        return (("field", r[2]),)
    # a getter applied to the element: f(arg)
    if isinstance(r, tuple) and r and r[0] == "call" and len(r[2]) == 1 and peel(r[2][0], transparent=ID_CALLS) == arg:
        return (("get", strip_generics(r[1]).split("::")[-1]),)
    # format!("${}", arg): the pieces constant and one display argument
    consts = [s for s in subterms(r) if isinstance(s, tuple) and s and s[0] == "const" and isinstance(s[1], str) and s[1].startswith('b"')]
    disp = [s for s in subterms(r) if isinstance(s, tuple) and s and s[0] == "call" and is_call(s, "Argument::new_display")]
    if consts and len(disp) == 1 and peel(disp[0][2][0], transparent=ID_CALLS) == arg:
        return (("fmt", consts[0][1]),)
    return None


def iter_seq(b, t, depth=0):
    """Sequence yielded by the iterator expression t."""
    if depth > 12:
        return None
    t = _strip(t)
    if not (isinstance(t, tuple) and t):
        return None
    f = b.facts
    if is_call(t, "Iterator::chain") and len(t[2]) == 2:
        a, c = iter_seq(b, t[2][0], depth + 1), iter_seq(b, t[2][1], depth + 1)
        return None if a is None or c is None else a + c
    if is_call(t, ["iter::once", "std::iter::once", "core::iter::once"]) and len(t[2]) == 1:
        return [("elem", peel(t[2][0], transparent=ID_CALLS))]
    if is_call(t, "Iterator::flat_map") and len(t[2]) == 2:
        # `opt.iter().flat_map(|m| m.keys())`: all keys of the map when there is one
        src = _strip(t[2][0])
        fn = t[2][1]
        if is_call(src, ["Option::iter", "IntoIterator::into_iter"]) and isinstance(fn, tuple) and fn and fn[0] == "fn" and \
                re.search(r"(HashMap|BTreeMap)(::<[^>]*>)?::(keys|values)$", strip_generics(fn[1]) if fn[1] else ""):
            # `opt.iter().flat_map(HashMap::keys)`: the function item itself
            opt = peel(src[2][0], transparent=ID_CALLS)
            return [("each", ("field", ("downcast", opt, "Some"), "0"), (), t[3])]
        if is_call(src, ["Option::iter", "IntoIterator::into_iter"]) and isinstance(fn, tuple) and fn and fn[0] == "agg" and fn[1] == "closure":
            cl = f.closure(fn[2])
            if cl is not None:
                r = _strip(cl.term_local(0))
                if is_call(r, ["HashMap::keys", "HashMap::values", "BTreeMap::keys", "slice::iter", "Vec::iter", "IntoIterator::into_iter"]) and peel(r[2][0], transparent=ID_CALLS) == ("param", 2):
                    opt = peel(src[2][0], transparent=ID_CALLS)
                    return [("each", ("field", ("downcast", opt, "Some"), "0"), (), t[3])]
        return None
    if is_call(t, ["Iterator::map", "Iterator::filter_map"]) and len(t[2]) == 2:
        sub = iter_seq(b, t[2][0], depth + 1)
        p = proj_of(f, t[2][1])
        if sub is None or p is None:
            return None
        if is_call(t, "Iterator::filter_map") and not (p and p[-1][0] == "lookup" and len(p) == 1):
            # `keys.filter_map(|k| map.get(k))`: the values of the keys that are present -- the only filter_map read as a projection
            return None
        out = []
        for seg in sub:
            if seg[0] == "each":
                out.append(("each", seg[1], seg[2] + p, seg[3]))
            elif seg[0] == "elem" and p == ():
                out.append(seg)
            else:
                return None
        return out
    if is_call(t, ITER_OF) and t[2]:
        inner = _strip(t[2][0])
        if is_call(inner, ITER_OF + ["Iterator::map", "Iterator::filter_map", "Iterator::chain", "iter::once", "std::iter::once", "core::iter::once"]):
            return iter_seq(b, inner, depth + 1)
        return [("each", peel(_resolve_join(inner, b), transparent=ID_CALLS), (), t[3])]
    if t[0] in ("param", "field", "var"):
        # a collection used directly as `for x in &coll` (a local joining the Ok of an expanded fallible helper with its error returns stands for that Ok value)
        return [("each", peel(_resolve_join(t, b), transparent=ID_CALLS), (), None)]
    return None


def _loop_of(b, site, extra=()):
    """(next call, iterator term) of the innermost loop whose element reaches an operand of `site` (or one of the `extra` terms), else None."""
    ops = [u for a in list(site.args) + list(extra) for u in subterms(a)]
    best = None
    for c in b.calls_to("Iterator::next"):
        if c.result_term() not in ops:
            continue
        si = b.switch_info(c.target)
        some = [tt for v, tt in si[1] if v == 1] if si else []
        if not some:
            continue
        body = b.reach(some[0], avoid_blocks=[c.bb])
        if site.bb in body and (best is None or b.dominates(best[1].bb, c.bb)):
            best = (len(body), c)
    return best[1] if best else None


def sink_seq(b, sites, value_of, resolve_vec=True):
    """Sequence fed into a sink by the call sites `sites` (all on one sink object), in dominance order.  value_of(site) -> the value operand."""
    # order of the sites in time: a site inside a loop is placed by the header of that loop (the body of a loop that may run zero times dominates nothing after it)
    def anchor(c):
        nx_ = _loop_of(b, c, extra=[_unwrap_payload(value_of(c), None, b)])
        return nx_.bb if nx_ is not None else c.bb
    anch = {id(c): anchor(c) for c in sites}

    def before(d, c):
        if anch[id(d)] == anch[id(c)]:
            return b.dominates(d.bb, c.bb)
        return b.dominates(anch[id(d)], anch[id(c)])
    sites = sorted(sites, key=lambda c: len([d for d in sites if d is not c and before(d, c)]))
    for i in range(len(sites) - 1):
        if not before(sites[i], sites[i + 1]) and not (sites[i].bb == sites[i + 1].bb):
            return None
    out = []
    for c in sites:
        v = value_of(c)
        v_res = _unwrap_payload(v, None, b)
        nx = _loop_of(b, c, extra=[v_res])
        if nx is None:
            out.append(("elem", peel(v, transparent=ID_CALLS)))
            continue
        elem = ("field", ("downcast", nx.result_term(), "Some"), "0")
        p = _proj_from(v, elem, None, b.facts, body=b)
        if p is None:
            # element reached through a pattern (tuple fields) is not a plain projection
            return None
        src = iter_seq(b, nx.args[0])
        if src is None:
            return None
        # every element reaches the sink: no path through the loop body comes back to the header without passing the site
        si_ = b.switch_info(nx.target)
        some_ = [tt for v_, tt in si_[1] if v_ == 1] if si_ else []
        if not some_:
            return None
        if not b.all_paths_pass(some_[0], [c.bb], dst_set={nx.bb}):
            # `if let Some(v) = map.get(elem) { sink(v) }`: the element is skipped only where the lookup whose payload is written finds nothing -- the sequence of
            # the values of the keys that are present, like `filter_map(|k| map.get(k))`
            skip = []
            if len(p) == 1 and p[0][0] == "lookup":
                pay = peel(v_res, transparent=ID_CALLS)
                for bi_ in b.reach(some_[0], avoid_blocks=[nx.bb]):
                    si2 = b.switch_info(bi_)
                    if si2 and si2[0][0] == "discr" and is_call(peel(si2[0][1], transparent=[]), ["HashMap::get", "BTreeMap::get"]) and peel(si2[0][1], transparent=[]) == peel(pay, transparent=[]):
                        skip += [(bi_, t_) for v_, t_ in si2[1] if v_ == 0]
            if not skip or nx.bb in b.reach(some_[0], avoid_blocks=[c.bb], avoid_edges=skip):
                return None
        for seg in src:
            if seg[0] == "each":
                out.append(("each", seg[1], seg[2] + p, seg[3]))
            elif p == ():
                out.append(seg)
            else:
                return None
    if resolve_vec:
        res = []
        for seg in out:
            if seg[0] == "each" and seg[2] == () and is_vec_local(b, seg[1]):
                inner = vec_seq(b, seg[1])
                if inner is None:
                    return None
                res.extend(inner)
            else:
                res.append(seg)
        out = res
    return out


def is_vec_local(b, t):
    t = peel(t)
    ty = None
    if isinstance(t, tuple) and t and t[0] == "call":
        for c in b.calls():
            if c.bb == t[3] and not c.dest["p"]:
                ty = b.local_ty(c.dest["l"])
    elif isinstance(t, tuple) and t and t[0] == "var":
        ty = b.local_ty(t[1])
    return bool(ty) and "Vec<" in ty and is_call(t, ["Vec::with_capacity", "Vec::new"])


def vec_seq(b, vec):
    """Contents of a Vec created in this body, as the sequence of what is pushed / extended into it."""
    vec = peel(vec)
    sites = [c for c in b.calls_to(["Vec::push", "Vec::extend", "Extend::extend", "Vec::extend_from_slice"]) if peel(c.args[0]) == vec]
    others = [c for c in b.calls_to(["Vec::insert", "Vec::remove", "Vec::pop", "Vec::truncate", "Vec::clear", "Vec::sort", "slice::sort", "Vec::dedup", "Vec::retain", "Vec::swap_remove",
                                     "slice::reverse", "Vec::append", "Vec::drain"]) if peel(c.args[0], transparent=["DerefMut::deref_mut", "Deref::deref"]) == vec]
    if others:
        return None
    pushes = [c for c in sites if c.matches("Vec::push")]
    exts = [c for c in sites if not c.matches("Vec::push")]
    seq_sites = sorted(sites, key=lambda c: len([d for d in sites if b.dominates(d.bb, c.bb)]))
    out = []
    for c in seq_sites:
        if c in pushes:
            part = sink_seq(b, [c], lambda s: s.args[1], resolve_vec=False)
        else:
            part = iter_seq(b, c.args[1])
        if part is None:
            return None
        out.extend(part)
    return out


def show_seq(seq):
    from .mir import show
    if seq is None:
        return "?"
    parts = []
    for s in seq:
        if s[0] == "elem":
            parts.append(show(s[1])[:60])
        else:
            p = "".join((".lookup(%s)" % show(x[1])[:40]) if x[0] == "lookup" else (".fmt(%s)" % x[1]) for x in s[2])
            parts.append("each(%s)%s" % (show(s[1])[:60], p))
    return "[" + ", ".join(parts) + "]"
