"""Reusable rule building blocks (effect calls, exactly-once-on-every-path, argument matchers, atomics)."""
import math
import re

from .mir import (is_call, name_matches, names_of, origins, peel, show, strip_generics, subterms, term_calls,
                  term_has)

# calls that have no effect on library state and may appear anywhere in a wrapper
PURE = [
    "Deref::deref", "DerefMut::deref_mut", "Number::from_i64", "Number::into_f64", "PartialOrd::ge", "PartialOrd::le",
    "PartialOrd::lt", "PartialOrd::gt", "PartialEq::eq", "PartialEq::ne", "Neg::neg", "AsRef::as_ref",
    re.compile(r"^core::panicking::"), re.compile(r"^std::rt::"), re.compile(r"^core::fmt::"), re.compile(r"^std::fmt::"),
    "Clone::clone", "Default::default", "Into::into", "From::from", "hint::must_use", "Try::branch", "FromResidual::from_residual",
    re.compile(r"^core::ub_checks"), re.compile(r"^std::intrinsics::"), re.compile(r"^core::intrinsics::"),
]

ATOMIC_PRIMS = ["load", "store", "swap", "fetch_add", "fetch_sub", "compare_exchange", "compare_exchange_weak",
                "fetch_and", "fetch_or", "fetch_xor", "fetch_max", "fetch_min", "fetch_nand", "fetch_update"]
ATOMIC_RE = re.compile(r"^(std|core)::sync::atomic::Atomic[A-Za-z0-9]*::(%s)$" % "|".join(ATOMIC_PRIMS))

SELF_FIELD = lambda name: ("field", ("deref", ("param", 1)), name)  # noqa: E731


def atomic_prim(c):
    """'load' / 'store' / ... if the call site is a std atomic primitive, else None."""
    for n in c.names:
        m = ATOMIC_RE.match(n)
        if m:
            return m.group(2)
    return None


def atomic_prim_term(t):
    if not (isinstance(t, tuple) and t and t[0] == "call"):
        return None
    for n in names_of(t[1]):
        m = ATOMIC_RE.match(n)
        if m:
            return m.group(2)
    return None


_DROP_OF_BORROW = re.compile(r"^std::mem::drop::<(std|core)::cell::(Ref|RefMut)<")


def effect_calls(body, pure=PURE):
    """Calls that may have an effect.  `drop(borrow)` of a RefCell borrow only ends the borrow (what an implicit drop at the end of the scope does anyway)."""
    return [c for c in body.calls() if not c.matches(pure) and not _DROP_OF_BORROW.match(c.callee_args or "")]


def ordering_of(term):
    """Memory ordering constant of a term: 'Relaxed'... or ('param', i) when forwarded, else None."""
    t = term
    if isinstance(t, tuple) and t and t[0] == "agg" and t[1] == "adt" and "atomic::Ordering::" in t[2]:
        return t[2].rsplit("::", 1)[1]
    if isinstance(t, tuple) and t and t[0] == "param":
        return t
    return None


ORD_RANK = {"Relaxed": 0, "Acquire": 1, "Release": 1, "AcqRel": 2, "SeqCst": 3}


def ord_ge(o, floor):
    """o is at least as strong as floor in the lattice Relaxed < {Acquire, Release} < AcqRel < SeqCst."""
    if o not in ORD_RANK:
        return False
    if floor == "Relaxed":
        return True
    if floor == "Acquire":
        return o in ("Acquire", "AcqRel", "SeqCst")
    if floor == "Release":
        return o in ("Release", "AcqRel", "SeqCst")
    if floor == "AcqRel":
        return o in ("AcqRel", "SeqCst")
    return o == "SeqCst"


def count_range(body, blocks, start=0):
    """(min, max) number of visits of blocks in `blocks` over all normal paths from start to a return.
    max = inf if one of them is inside a loop reachable on such a path.  Paths that diverge are ignored."""
    blocks = set(blocks)
    body.postdominators()
    can = body._can_exit
    if start not in can:
        return (0, 0)
    loops = body.loops()
    inf = False
    for h, l in loops.items():
        if l & blocks and (l & can):
            inf = True
    # condensation-free DP on DAG obtained by dropping back edges
    back = set(body.back_edges())
    memo = {}

    def go(b):
        if b in memo:
            return memo[b]
        memo[b] = None
        w = 1 if b in blocks else 0
        if body.blocks[b]["term"]["k"] == "return":
            memo[b] = (w, w)
            return memo[b]
        mn, mx = math.inf, -math.inf
        for s in body.succs(b):
            if (b, s) in back or s not in can:
                continue
            r = go(s)
            if r is None:
                continue
            mn = min(mn, r[0])
            mx = max(mx, r[1])
        if mn is math.inf:
            memo[b] = None
            return None
        memo[b] = (mn + w, mx + w)
        return memo[b]

    r = go(start)
    if r is None:
        return (0, 0)
    return (r[0], math.inf if inf else r[1])


class FieldSet:
    """A field of a model value set by construction (`LabelPair { name: Some(n), .. }`): looks like the call site of the setter (args = [the value built, what the field
    receives]) to rules that ask which value a field gets."""
    def __init__(self, body, bi, rv, recv, value, span):
        self.body, self.bb, self.rv = body, bi, rv
        self.args = [recv, value]
        self.span = span
        self.callee = self.callee_args = "<aggregate>"
        self.dest = None

    def matches(self, pat):
        return False

    def result_term(self):
        return ("agg-set", self.bb)

    def __repr__(self):
        return "FieldSet(bb%d)" % self.bb


def field_sets(body, adt_name, field, setters):
    """Sites at which field `field` of a model type (`adt_name`: last path segment) gets its value: calls of its setter, and aggregates that build the value with the
    field filled in (`Some(v)` in the protobuf model, `v` in the plain one)."""
    out = list(body.calls_to(setters))
    for bi in sorted(body.reachable_blocks()):
        for st in body.blocks[bi]["stmts"]:
            rv = st.get("rv") or {}
            if st.get("k") != "assign" or rv.get("k") != "agg" or rv.get("agg") != "adt" or (rv.get("adt") or "").split("::")[-1] != adt_name or field not in (rv.get("fields") or []):
                continue
            v = body.term_operand(rv["ops"][list(rv["fields"]).index(field)])
            pv = peel(v, transparent=[])
            if isinstance(pv, tuple) and pv and pv[0] == "agg" and pv[2].endswith("Option::Some") and pv[3]:
                v = pv[3][0]
            elif isinstance(pv, tuple) and pv and pv[0] == "agg" and pv[2].endswith("Option::None"):
                continue
            recv = body.term_rvalue(rv, (bi, 0))
            out.append(FieldSet(body, bi, rv, recv, v, (st.get("sp") or {}).get("at") or body.raw["span"]["at"]))
    return out


def resolve_capture(t, caps):
    """What a closure-body term that reads a captured variable denotes where the closure was made: `(*_1).k` is caps[k]; when caps[k] is itself a closure value
    (a closure handed on to a helper and expanded into this body) `((*_1).k).j` is that closure's j-th capture, and so on.  None when t is not such a read."""
    t = peel(t)
    if not (isinstance(t, tuple) and len(t) == 3 and t[0] == "field" and str(t[2]).isdigit()):
        return None
    j = int(t[2])
    base = peel(t[1])
    if base == ("param", 1):
        return peel(caps[j]) if j < len(caps) else None
    outer = resolve_capture(base, caps)
    if outer is None:
        return None
    o = peel(outer, transparent=[])
    if isinstance(o, tuple) and len(o) >= 4 and o[0] == "agg" and o[1] == "closure" and j < len(o[3]):
        return peel(o[3][j])
    return None


def subst_captures(t, caps):
    """A closure-body term with every read of a captured variable (`(*_1).k`) replaced by what was captured where the closure was made (`*&x` folded to x)."""
    if not isinstance(t, tuple):
        return t
    if len(t) == 3 and t[0] == "field" and str(t[2]).isdigit() and isinstance(t[1], tuple) and peel(t[1]) == ("param", 1) and int(t[2]) < len(caps):
        return caps[int(t[2])]
    r = tuple(subst_captures(u, caps) if isinstance(u, tuple) else u for u in t)
    if len(r) == 2 and r[0] == "deref" and isinstance(r[1], tuple) and len(r[1]) == 2 and r[1][0] == "ref":
        return r[1][1]
    return r


def once_per_region(body, site_bb, start, stop):
    """`site_bb` is executed exactly once on every path from `start` that reaches a `stop` block (the next loop iteration): every such path passes it (infeasible
    Ok/Err combinations pruned, see Body.reach_ps) and it does not lie on a cycle that avoids the stop blocks."""
    stop = set(stop)
    if not body.all_paths_pass(start, [site_bb], dst_set=stop):
        return False
    again = set()
    for s_ in body.succs(site_bb):
        again |= body.reach(s_, avoid_blocks=stop)
    return site_bb not in again


def count_range_region(body, blocks, start, stop, returns_count=False):
    """(min, max) visits of `blocks` over all paths from start to a block in `stop` (or a return), never passing through a stop block.
    Used for "once per loop iteration": stop = the loop header."""
    blocks = set(blocks)
    stop = set(stop)
    region = body.reach(start, avoid_blocks=stop)
    exits = set(body.exits())
    # back edges inside the region
    back = {(a, b) for (a, b) in body.back_edges() if a in region and b in region}
    inf = False
    for (a, h) in back:
        loop = {h}
        st = [a]
        while st:
            x = st.pop()
            if x in loop or x not in region:
                continue
            loop.add(x)
            st.extend(body.preds(x))
        if loop & blocks:
            inf = True
    memo = {}

    def go(b):
        if b in memo:
            return memo[b]
        memo[b] = None
        w = 1 if b in blocks else 0
        best = None
        if b in exits and returns_count:
            best = (0, 0)
        for s_ in body.succs(b):
            if (b, s_) in back:
                continue
            if s_ in stop:
                r = (0, 0)
            elif s_ in region:
                r = go(s_)
            else:
                r = None
            if r is None:
                continue
            best = r if best is None else (min(best[0], r[0]), max(best[1], r[1]))
        if best is None:
            memo[b] = None
            return None
        memo[b] = (best[0] + w, best[1] + w)
        return memo[b]
    r = go(start)
    if r is None:
        return (0, 0)
    return (r[0], math.inf if inf else r[1])


def exactly_once(body, block):
    return count_range(body, [block]) == (1, 1)


def is_self_field(t, name, transparent=None):
    return peel(t) == SELF_FIELD(name)


def const_int(t):
    """Integer value of a constant term (through from_i64 and casts), else None."""
    t = peel(t, transparent=["Number::from_i64", "Into::into", "From::from"], refs=True)
    if isinstance(t, tuple) and t and t[0] == "cast":
        return const_int(t[2])
    if isinstance(t, tuple) and t and t[0] in ("const", "constdef"):
        bits = t[3] if t[0] == "const" else t[2]
        val = t[1] if t[0] == "const" else t[3]
        if val is not None:
            m = re.match(r"^(-?\d+)_[iu](8|16|32|64|128|size)$", str(val))
            if m:
                return int(m.group(1))
            m = re.match(r"^(-?\d+(\.\d+)?(e[+-]?\d+)?)_?f64$", str(val))
            if m:
                try:
                    f = float(m.group(1))
                    if f == int(f):
                        return int(f)
                except ValueError:
                    pass
        if bits is not None:
            try:
                return int(bits)
            except ValueError:
                return None
    return None


def is_pos_inf_const(z):
    """A constant operand that is +infinity (f64::INFINITY, std::f64::INFINITY, a literal evaluated to +inf) -- and not NEG_INFINITY."""
    if not (isinstance(z, tuple) and z and z[0] in ("const", "constdef")):
        return False
    bits = z[2] if z[0] == "constdef" else z[3]
    try:
        if bits is not None and int(bits) == 0x7FF0000000000000:
            return True
    except (TypeError, ValueError):
        pass
    if z[0] == "constdef":
        return str(z[1]).split("::")[-1] == "INFINITY"
    return bool(re.match(r"^\+?inf", str(z[1])))


def site(body, bb):
    return body.span_of_block(bb)


def returns_term(body):
    """Term of the returned value `_0`."""
    return body.term_local(0)


# --------------------------------------------------------------------------------------------
# iteration / result helpers

ADAPTERS = ["Iterator::enumerate", "Iterator::cloned", "Iterator::copied", "Iterator::map", "Iterator::zip",
            "Iterator::inspect", "Iterator::by_ref", "Iterator::peekable"]
ITER_SOURCES = ["IntoIterator::into_iter", "slice::iter", "Vec::iter", "HashMap::iter", "HashMap::keys", "HashMap::values",
                "HashMap::values_mut", "BTreeMap::iter", "BTreeSet::iter", "HashSet::iter", "slice::iter_mut", "BTreeMap::values_mut",
                "BTreeMap::values", "HashMap::into_values", "BTreeMap::into_values", "BTreeMap::keys", "HashMap::iter_mut", "HashMap::drain",
                "Vec::drain", "HashMap::into_keys"]


def _iterator_method(t):
    """t is a call of some other std Iterator / DoubleEndedIterator adapter (filter, take, skip, rev, take_while, step_by, chain, ...) on an iterator.
    (Not used by elem_of: an unknown adapter stays part of the collection term, so rules that compare the collection fail closed.)"""
    if not (isinstance(t, tuple) and t and t[0] == "call" and t[2]):
        return False
    m = re.search(r"(?:^|[ <:])(?:Iterator|DoubleEndedIterator)>?::(\w+)$", strip_generics(t[1]))
    return bool(m) and m.group(1) not in ("next", "next_back", "collect", "count", "sum", "fold", "all", "any", "find", "position", "last", "nth", "max", "min")


def is_zero_skip_filter(facts, filt):
    """`iter.filter(|x| <x or a field of x> > 0)` / `!= 0`: a filter that only drops elements whose (unsigned) value is zero."""
    if not (is_call(filt, "Iterator::filter") and len(filt[2]) == 2):
        return False
    c = filt[2][1]
    if not (isinstance(c, tuple) and c and c[0] == "agg" and c[1] == "closure"):
        return False
    cl = facts.closure(c[2])
    if cl is None:
        return False
    r = cl.term_local(0)
    if not (isinstance(r, tuple) and r and r[0] == "binop"):
        return False
    op, a, b_ = r[1], r[2], r[3]
    if const_int(a) == 0 and op in ("Lt", "Ne"):
        a, b_, op = b_, a, {"Lt": "Gt"}.get(op, op)
    return op in ("Gt", "Ne") and const_int(b_) == 0 and ("param", 2) in list(subterms(a)) and not [x for x in subterms(a) if isinstance(x, tuple) and x and x[0] == "call"]


def elem_of(t, filter_ok=None):
    """If t is (part of) the element yielded by `Iterator::next` in a for loop, return
    (collection term, [adapter names], element projection path) else None.
    filter_ok: predicate on an `Iterator::filter(..)` term; when it holds the filter is stepped through and recorded as adapter 'filter'."""
    path = []
    cur = t
    # strip projections down to the `(next(..) as Some).0`
    while isinstance(cur, tuple) and cur:
        if cur[0] == "field" and isinstance(cur[1], tuple) and cur[1][0] == "downcast" and cur[1][2] == "Some":
            nxt = cur[1][1]
            if nxt[0] in ("ref", "deref"):
                nxt = nxt[1]
            if is_call(nxt, "Iterator::next"):
                it = nxt[2][0]
                adapters = []
                while True:
                    it = peel(it, transparent=["Deref::deref", "DerefMut::deref_mut"])
                    if is_call(it, ADAPTERS) or (filter_ok is not None and is_call(it, "Iterator::filter") and filter_ok(it)):
                        adapters.append(strip_generics(it[1]).split("::")[-1])
                        it = it[2][0]
                        continue
                    if is_call(it, ITER_SOURCES):
                        adapters.append(strip_generics(it[1]).split("::")[-1])
                        it = it[2][0]
                        continue
                    return (it, adapters, list(reversed(path)))
            return None
        if cur[0] in ("field",):
            path.append(cur[2])
            cur = cur[1]
            continue
        if cur[0] in ("deref", "ref"):
            cur = cur[1]
            continue
        return None
    return None


def result_assign_blocks(body):
    """(err_blocks, ok_blocks): blocks assigning an Err(..) resp. anything else to the return place _0."""
    err, ok = set(), set()
    reach = body.reachable_blocks()
    for bi in reach:
        bb = body.blocks[bi]
        for st in bb["stmts"]:
            if st["k"] == "assign" and st["pl"]["l"] == 0 and not st["pl"]["p"]:
                rv = st["rv"]
                if rv["k"] == "agg" and rv.get("agg") == "adt" and rv["adt"].endswith("result::Result") and rv["variant"] == "Err":
                    err.add(bi)
                else:
                    ok.add(bi)
            elif st["k"] == "assign" and not st["pl"]["p"] and st["pl"]["l"] in body.err_places():
                rv = st["rv"]
                if rv["k"] == "agg" and rv.get("variant") == "Err":
                    err.add(bi)
        t = bb["term"]
        if t["k"] == "call" and t["dest"]["l"] == 0 and not t["dest"]["p"]:
            names = names_of(t.get("callee_args", "")) | names_of(t.get("callee", ""))
            if name_matches(names, "FromResidual::from_residual"):
                err.add(bi)
            else:
                ok.add(bi)
    return err, ok


def rejecting(body, block):
    """Every normal path from `block` returns an Err (no block assigning a non-Err value to _0 is reachable)."""
    err, ok = result_assign_blocks(body)
    r = body.reach_ps(block)
    if not (r & ok) and bool(r & err):
        return True
    # the Err may be built in another local first (the result of an inlined fallible helper) and moved to the return place: what counts is the variant returned
    rets = body.return_variants_ps(block)
    return bool(rets) and all(v == "Err" for v in rets)


def try_continue_block(body, call_site):
    """For `x = call(..)?` : the block entered on the Ok (Continue) edge of the `?`, else None."""
    for c in body.calls_to("Try::branch"):
        a = peel(c.args[0])
        if isinstance(a, tuple) and len(a) == 2 and a[0] == "var":
            # the result place of an expanded closure / helper: this call's result on one path, error returns on the others
            alts = [peel(x) for x in body.var_alts(a[1])]
            mine = [x for x in alts if isinstance(x, tuple) and x and x[0] == "call" and
                    (x[3] == call_site.bb or (lambda y: isinstance(y, tuple) and y and y[0] == "call" and y[3] == call_site.bb)(peel(x, transparent=["Result::map_err"])))]
            rest = [x for x in alts if x not in mine]
            if len(mine) == 1 and all(is_call(peel(x, transparent=[]), "FromResidual::from_residual") or (x[0] == "agg" and x[2].endswith("Result::Err")) for x in rest):
                a = mine[0]
        if isinstance(a, tuple) and a[0] == "call" and a[3] != call_site.bb:
            # `call(..).map_err(f)?`: the error is converted, not dropped
            a2 = peel(a, transparent=["Result::map_err"])
            if isinstance(a2, tuple) and a2 and a2[0] == "call" and a2[3] == call_site.bb:
                a = a2
        if isinstance(a, tuple) and a[0] == "call" and a[3] == call_site.bb:
            si = body.switch_info(c.target) if c.target is not None else None
            if si:
                for v, tgt in si[1]:
                    if v == 0:
                        return tgt
    # the same written out: `match call(..) { Ok(v) => .., Err(e) => return Err(..) }` / `if let Err(e) = call(..) { return Err(e) }`
    for bi in body.reach(call_site.bb):
        si = body.switch_info(bi)
        if si and si[0][0] == "discr" and peel(si[0][1], transparent=[]) == call_site.result_term():
            oks = [tgt for v, tgt in si[1] if v == 0]
            errs = [tgt for v, tgt in si[1] if v == 1] or ([si[2]] if body.blocks[si[2]]["term"]["k"] != "unreachable" else [])
            if not oks and len(si[1]) == 1 and si[1][0][0] == 1:
                oks = [si[2]]
            if len(oks) == 1 and len(errs) == 1 and rejecting(body, errs[0]):
                return oks[0]
    return None


def callsite_of(body, t):
    """CallSite object for a ('call', ...) term of this body."""
    if isinstance(t, tuple) and t and t[0] == "call":
        for c in body.calls():
            if c.bb == t[3]:
                return c
    return None


def ok_payloads(body):
    """Terms of the payloads of `_0 = Ok(payload)` assignments (for functions returning Result)."""
    res = []
    for bi in sorted(body.reachable_blocks()):
        for st in body.blocks[bi]["stmts"]:
            if st["k"] == "assign" and st["pl"]["l"] == 0 and not st["pl"]["p"]:
                rv = st["rv"]
                if rv["k"] == "agg" and rv.get("agg") == "adt" and rv["adt"].endswith("result::Result") and rv["variant"] == "Ok":
                    res.append(body.term_operand(rv["ops"][0]))
    return res


def find_aggs(t, suffix):
    """All aggregate subterms whose ADT::variant path ends with suffix."""
    return [s for s in subterms(t) if isinstance(s, tuple) and s and s[0] == "agg" and s[1] == "adt" and s[2].endswith(suffix)]


def agg_field(agg, name):
    if name in agg[4]:
        return agg[3][agg[4].index(name)]
    return None


def bypass_guards(body, bb):
    """Branching blocks on which the execution of bb is (transitively) control-dependent, over normal paths: g is one if bb post-dominates
    a successor of g but not g itself.  These are exactly the conditions under which bb runs."""
    pd = body.postdominators()
    can = body._can_exit

    def direct(x):
        res = []
        for g in body.reachable_blocks():
            if g not in can or not body.switch_info(g):
                continue
            ss = [s_ for s_ in body.succs(g) if s_ in can]
            if len(ss) < 2:
                continue
            if any(s_ == x or x in pd[s_] for s_ in ss) and not (g != x and x in pd[g]):
                res.append(g)
        return res
    seen, todo = [], [bb]
    while todo:
        x = todo.pop()
        for g in direct(x):
            if g not in seen and g != bb:
                seen.append(g)
                todo.append(g)
    return sorted(seen)


def skips_only_zero(body, guard_bb, bb, delta, unsigned):
    """The branch at guard_bb lets control bypass bb only when `delta` is zero (so that skipping `x += delta` changes nothing):
    `delta != 0` / `delta > 0` (unsigned) / `0 < delta` (unsigned) with bb on the true edge, or `delta == 0` with bb on the false edge.
    For floats only != / == are accepted (`> 0.0` also skips negative values and NaN)."""
    be = body.bool_edges(guard_bb)
    if not be:
        return False
    cond, t_edge, f_edge = be
    if not (isinstance(cond, tuple) and cond and cond[0] == "binop"):
        return False
    op, a, b_ = cond[1], peel(cond[2]), peel(cond[3])
    d = peel(delta)
    if a == d and const_int(b_) == 0:
        pass
    elif b_ == d and const_int(a) == 0 and op in ("Lt", "Ne", "Eq"):
        op = {"Lt": "Gt"}.get(op, op)
    else:
        return False
    if op == "Ne" or (op == "Gt" and unsigned):
        skip_edge = f_edge
    elif op == "Eq":
        skip_edge = t_edge
    else:
        return False
    other = t_edge if skip_edge == f_edge else f_edge
    # bb is reached only over the non-zero edge
    return bb not in body.reach(skip_edge, avoid_blocks=[guard_bb]) and (bb == other or bb in body.reach(other, avoid_blocks=[guard_bb]))


def const_eval(t, facts=None, bits=64):
    """Value of a constant integer expression term (literals, crate constants with an evaluated value, shifts, +, -, &, |, ^, !, casts), modulo 2^bits; None if not constant."""
    mask = (1 << bits) - 1
    t = peel(t, transparent=["Into::into", "From::from"], refs=True) if isinstance(t, tuple) else t
    if not (isinstance(t, tuple) and t):
        return None
    if t[0] in ("const", "constdef"):
        v = const_int(t)
        if v is None and t[0] == "constdef" and facts is not None:
            c = facts.consts.get(t[1])
            if c and "bits" in c:
                v = int(c["bits"])
        return None if v is None else v & mask
    if t[0] == "cast":
        return const_eval(t[2], facts, bits)
    if t[0] == "field" and isinstance(t[1], tuple) and t[1] and t[1][0] == "binop" and t[1][1].endswith("WithOverflow") and str(t[2]) == "0":
        return const_eval(("binop", t[1][1][:-len("WithOverflow")], t[1][2], t[1][3]), facts, bits)
    if t[0] == "unop" and t[1] == "Not":
        v = const_eval(t[2], facts, bits)
        return None if v is None else (~v) & mask
    if t[0] == "binop":
        a, b_ = const_eval(t[2], facts, bits), const_eval(t[3], facts, bits)
        if a is None or b_ is None:
            return None
        op = t[1]
        if op in ("Shl", "ShlUnchecked"):
            return (a << b_) & mask
        if op in ("Shr", "ShrUnchecked"):
            return a >> b_
        if op in ("Add", "AddUnchecked"):
            return (a + b_) & mask
        if op in ("Sub", "SubUnchecked"):
            return (a - b_) & mask
        if op == "BitAnd":
            return a & b_
        if op == "BitOr":
            return a | b_
        if op == "BitXor":
            return a ^ b_
        if op == "Mul":
            return (a * b_) & mask
    return None


def elem_src(t):
    """Like elem_of, but follows `zip` by the projection path: for the element of `a.iter().zip(b.iter().zip(c.iter()))` the term `elem.1.0`
    resolves to collection b.  Returns (collection, adapters, remaining path, next call term) or None."""
    path = []
    cur = t
    while isinstance(cur, tuple) and cur:
        if cur[0] == "field" and isinstance(cur[1], tuple) and cur[1][0] == "downcast" and cur[1][2] == "Some":
            nxt = cur[1][1]
            if nxt[0] in ("ref", "deref"):
                nxt = nxt[1]
            if not is_call(nxt, "Iterator::next"):
                return None
            rest = list(reversed(path))
            it = nxt[2][0]
            adapters = []
            for _ in range(20):
                it = peel(it, transparent=["Deref::deref", "DerefMut::deref_mut"])
                if is_call(it, "Iterator::zip") and len(it[2]) == 2 and rest and str(rest[0]) in ("0", "1"):
                    adapters.append("zip")
                    it = it[2][int(rest.pop(0))]
                    continue
                if is_call(it, "Iterator::enumerate") and rest and str(rest[0]) == "1":
                    adapters.append("enumerate")
                    rest.pop(0)
                    it = it[2][0]
                    continue
                if is_call(it, ["Iterator::cloned", "Iterator::copied", "Iterator::by_ref", "Iterator::peekable"]) or is_call(it, ITER_SOURCES):
                    adapters.append(strip_generics(it[1]).split("::")[-1])
                    it = it[2][0]
                    continue
                break
            return (it, adapters, rest, nxt)
        if cur[0] == "field":
            path.append(cur[2])
            cur = cur[1]
            continue
        if cur[0] in ("deref", "ref"):
            cur = cur[1]
            continue
        return None
    return None
