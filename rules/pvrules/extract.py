"""Fact extraction: run the mirfacts driver over /repo (or a harness crate) and load the JSON."""
import glob
import hashlib
import json
import os
import shutil
import subprocess
import sys
import time

VERIF = os.path.dirname(os.path.dirname(os.path.dirname(os.path.abspath(__file__))))
REPO = os.environ.get("PV_REPO", "/repo")
BUILD = os.environ.get("PV_BUILD", os.path.join(VERIF, "build"))
DRIVER = os.path.join(VERIF, "driver", "target", "debug", "mirfacts")

CONFIGS = {
    # name: (cargo args, crates analysed)
    "default": (["-p", "prometheus", "--lib"], ["prometheus"]),
    "plain": (["-p", "prometheus", "--lib", "--no-default-features"], ["prometheus"]),
    "nightlyproc": (["-p", "prometheus", "--lib", "--features", "nightly,process"], ["prometheus"]),
    "push": (["-p", "prometheus", "--lib", "--features", "push"], ["prometheus"]),
}

_sysroot = None


def sysroot():
    global _sysroot
    if _sysroot is None:
        _sysroot = subprocess.check_output(["rustc", "+nightly", "--print", "sysroot"], text=True).strip()
    return _sysroot


def base_env():
    env = dict(os.environ)
    env["CARGO_NET_OFFLINE"] = "true"
    env["RUSTC_ICE"] = "0"
    env["LD_LIBRARY_PATH"] = sysroot() + "/lib" + (":" + env["LD_LIBRARY_PATH"] if env.get("LD_LIBRARY_PATH") else "")
    env.pop("RUSTC_WORKSPACE_WRAPPER", None)
    env.pop("RUSTUP_TOOLCHAIN", None)
    return env


def ensure_driver():
    src = os.path.join(VERIF, "driver", "src", "main.rs")
    if not os.path.exists(DRIVER) or (os.path.exists(src) and os.path.getmtime(src) > os.path.getmtime(DRIVER)):
        build_driver()


def build_driver():
    env = base_env()
    r = subprocess.run(["cargo", "build", "--offline"], cwd=os.path.join(VERIF, "driver"), env=env,
                       stdout=subprocess.PIPE, stderr=subprocess.STDOUT, text=True)
    if r.returncode != 0:
        sys.stderr.write(r.stdout)
        raise SystemExit("mirfacts driver failed to build")


def repo_hash(repo=None):
    repo = repo or REPO
    h = hashlib.sha256()
    for root, dirs, files in os.walk(repo):
        dirs[:] = sorted(d for d in dirs if d not in ("target", ".git"))
        for f in sorted(files):
            p = os.path.join(root, f)
            if not (f.endswith(".rs") or f.endswith(".toml") or f.endswith(".proto") or f == "Cargo.lock"):
                continue
            h.update(p.encode())
            try:
                with open(p, "rb") as fh:
                    h.update(fh.read())
            except OSError:
                pass
    return h.hexdigest()[:16]


class ExtractError(Exception):
    pass


def run_cargo(manifest, cargo_args, crates, target_dir, out_dir, nonce, tag="", extra_env=None, subcmd="check"):
    ensure_driver()
    env = base_env()
    env["RUSTFLAGS"] = "-Zmir-opt-level=0 -Awarnings"
    env["RUSTC_WRAPPER"] = DRIVER
    env["CARGO_TARGET_DIR"] = target_dir
    env["MIRFACTS_OUT"] = out_dir
    env["MIRFACTS_CRATES"] = ",".join(crates)
    env["MIRFACTS_NONCE"] = nonce
    env["MIRFACTS_TAG"] = tag
    if extra_env:
        env.update(extra_env)
    # one extraction at a time per target directory (concurrent checks share the dependency cache)
    import fcntl
    os.makedirs(BUILD, exist_ok=True)
    lockf = open(target_dir.rstrip("/") + ".lock", "w")
    fcntl.flock(lockf, fcntl.LOCK_EX)
    try:
        return _run_cargo_locked(manifest, cargo_args, crates, target_dir, env, subcmd)
    finally:
        fcntl.flock(lockf, fcntl.LOCK_UN)
        lockf.close()


def _run_cargo_locked(manifest, cargo_args, crates, target_dir, env, subcmd):
    # force the wrapper to run for the analysed crates
    for c in crates:
        for d in glob.glob(os.path.join(target_dir, "debug", ".fingerprint", c.replace("_", "-") + "-*")) + \
                glob.glob(os.path.join(target_dir, "debug", ".fingerprint", c + "-*")):
            shutil.rmtree(d, ignore_errors=True)
    cmd = ["cargo", "+nightly", subcmd, "--offline", "--manifest-path", manifest] + cargo_args
    r = subprocess.run(cmd, env=env, stdout=subprocess.PIPE, stderr=subprocess.STDOUT, text=True)
    return r


def extract_repo(config="default", repo=None, keep=False):
    """Returns (facts dict for crate prometheus, info dict). Raises ExtractError if the tree does not build."""
    repo = repo or REPO
    cargo_args, crates = CONFIGS[config]
    t0 = time.time()
    nonce = "%d-%d" % (os.getpid(), int(t0 * 1000))
    target_dir = os.path.join(BUILD, "target-" + config)
    out_dir = os.path.join(BUILD, "facts", "%s-%s" % (config, nonce))
    os.makedirs(out_dir, exist_ok=True)
    try:
        r = run_cargo(os.path.join(repo, "Cargo.toml"), cargo_args, crates, target_dir, out_dir, nonce)
        if r.returncode != 0:
            raise ExtractError("cargo check failed for config %s:\n%s" % (config, r.stdout[-4000:]))
        f = os.path.join(out_dir, "prometheus-lib.json")
        if not os.path.exists(f):
            raise ExtractError("fact file missing for config %s (driver did not run)\n%s" % (config, r.stdout[-2000:]))
        with open(f) as fh:
            facts = json.load(fh)
        if facts.get("nonce") != nonce:
            raise ExtractError("stale fact file (nonce mismatch)")
        facts["_config"] = config
        facts["_repo"] = repo
        return facts, {"config": config, "wall_s": round(time.time() - t0, 2), "bodies": len(facts["bodies"])}
    finally:
        if not keep:
            shutil.rmtree(out_dir, ignore_errors=True)


def extract_harness(name, crates=None, cargo_args=None, repo=None, subcmd="check", tag="", kinds=("lib",), hdir=None, target_suffix=""):
    """Analyse a harness crate under /verif/harness/<name> that path-depends on /repo."""
    repo = repo or REPO
    crates = crates or [name]
    hdir = hdir or os.path.join(VERIF, "harness", name)
    # the harness uses the repository's lock file
    lock = os.path.join(repo, "Cargo.lock")
    t0 = time.time()
    nonce = "%d-%d" % (os.getpid(), int(t0 * 1000))
    target_dir = os.path.join(BUILD, "target-h-" + name + target_suffix)
    out_dir = os.path.join(BUILD, "facts", "h-%s-%s" % (name, nonce))
    os.makedirs(out_dir, exist_ok=True)
    extra_env = {}
    if repo != "/repo":
        # harness manifests say path = "/repo"; a scratch copy is substituted through a patched copy
        hdir = _harness_copy(hdir, repo, out_dir)
    if os.path.exists(lock) and not os.path.exists(os.path.join(hdir, "Cargo.lock")):
        shutil.copy(lock, os.path.join(hdir, "Cargo.lock"))
    try:
        r = run_cargo(os.path.join(hdir, "Cargo.toml"), cargo_args or [], crates, target_dir, out_dir, nonce,
                      tag=tag, extra_env=extra_env, subcmd=subcmd)
        if r.returncode != 0:
            raise ExtractError("cargo %s failed for harness %s:\n%s" % (subcmd, name, r.stdout[-6000:]))
        res = {}
        for c in crates:
            for k in kinds:
                f = os.path.join(out_dir, "%s-%s%s.json" % (c, k, tag))
                if not os.path.exists(f):
                    raise ExtractError("fact file %s missing for harness %s\n%s" % (f, name, r.stdout[-2000:]))
                with open(f) as fh:
                    facts = json.load(fh)
                if facts.get("nonce") != nonce:
                    raise ExtractError("stale fact file (nonce mismatch)")
                res[(c, k)] = facts
        return res, {"harness": name, "wall_s": round(time.time() - t0, 2)}
    finally:
        shutil.rmtree(out_dir, ignore_errors=True)
        if repo != "/repo":
            # under the same lock as the cargo run: another check may be building in this target directory
            import fcntl
            lockf = open(target_dir.rstrip("/") + ".lock", "w")
            fcntl.flock(lockf, fcntl.LOCK_EX)
            try:
                _prune_target(target_dir, crates)
            finally:
                fcntl.flock(lockf, fcntl.LOCK_UN)
                lockf.close()


def _prune_target(target_dir, crates):
    """A scratch tree is a new path dependency: cargo keeps one set of artifacts of the repository's crates (and of everything built on them) per path, which
    are never used again.  Drop them after the run; the registry dependencies stay cached."""
    import glob
    pats = ["prometheus", "prometheus_static_metric", "prometheus-static-metric"] + [c for c in crates] + [c.replace("-", "_") for c in crates]
    for prof in ("debug", "release"):
        base = os.path.join(target_dir, prof)
        if not os.path.isdir(base):
            continue
        shutil.rmtree(os.path.join(base, "incremental"), ignore_errors=True)
        for sub in ("deps", ".fingerprint", "build"):
            for pat in pats:
                for f in glob.glob(os.path.join(base, sub, "*%s-*" % pat)) + glob.glob(os.path.join(base, sub, "lib%s-*" % pat)):
                    if os.path.isdir(f):
                        shutil.rmtree(f, ignore_errors=True)
                    else:
                        try:
                            os.remove(f)
                        except OSError:
                            pass
        # compiled doctests of scratch trees
        for f in glob.glob(os.path.join(base, "deps", "rust_out*")) + glob.glob(os.path.join(target_dir, "doctest*")):
            if os.path.isdir(f):
                shutil.rmtree(f, ignore_errors=True)
            else:
                try:
                    os.remove(f)
                except OSError:
                    pass


def _harness_copy(hdir, repo, out_dir):
    dst = os.path.join(out_dir, "hcopy")
    shutil.copytree(hdir, dst, ignore=shutil.ignore_patterns("target", "Cargo.lock"))
    for root, _, files in os.walk(dst):
        for f in files:
            if f == "Cargo.toml":
                p = os.path.join(root, f)
                s = open(p).read().replace('"/repo', '"' + repo)
                open(p, "w").write(s)
    return dst
