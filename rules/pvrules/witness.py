"""Compile-fail witnesses (harness/witness): rustc must reject each `w_*` program with the stated error code and accept its twin `t_*`.
Nothing is executed (twins are no_run); the deciding step is rustc's type/borrow checker on /repo's current source."""
import fcntl
import os
import re
import shutil
import subprocess
import tempfile

from . import extract

LINE = re.compile(r"^test src/lib\.rs - (\w+) \(line \d+\)(?: - (compile fail|compile))? \.\.\. (\w+)")


def run_witnesses(repo=None):
    """{name: 'ok' | 'FAILED'} for every doc test of the witness crate, built against `repo`."""
    repo = repo or extract.REPO
    hdir = os.path.join(extract.VERIF, "harness", "witness")
    tmp = None
    if repo != "/repo":
        tmp = tempfile.mkdtemp(prefix="pv-witness-")
        hdir = extract._harness_copy(hdir, repo, tmp)
    lock = os.path.join(repo, "Cargo.lock")
    if os.path.exists(lock):
        shutil.copy(lock, os.path.join(hdir, "Cargo.lock"))
    env = extract.base_env()
    env.pop("RUSTC_WRAPPER", None)
    target_dir = os.path.join(extract.BUILD, "target-h-witness")
    env["CARGO_TARGET_DIR"] = target_dir
    env["RUSTFLAGS"] = "-Awarnings"
    env["RUSTDOCFLAGS"] = "-Awarnings"
    os.makedirs(extract.BUILD, exist_ok=True)
    lockf = open(target_dir + ".lock", "w")
    fcntl.flock(lockf, fcntl.LOCK_EX)
    try:
        r = subprocess.run(["cargo", "+nightly", "test", "--doc", "--offline", "--manifest-path", os.path.join(hdir, "Cargo.toml")],
                           env=env, stdout=subprocess.PIPE, stderr=subprocess.STDOUT, text=True)
    finally:
        if repo != "/repo":
            try:
                extract._prune_target(target_dir, ["pv_witness", "pv-witness", "witness"])     # (still under the lock)
            except Exception:  # noqa
                pass
        fcntl.flock(lockf, fcntl.LOCK_UN)
        lockf.close()
        if tmp:
            shutil.rmtree(tmp, ignore_errors=True)
    res = {}
    for l in r.stdout.splitlines():
        m = LINE.match(l.strip())
        if m:
            res[m.group(1)] = m.group(3)
    if not res:
        raise extract.ExtractError("the witness crate could not be built against %s:\n%s" % (repo, r.stdout[-3000:]))
    return res, r.stdout


def rule_witnesses(ctx, rid, prefix, expected):
    """One obligation per witness of this property: rejected by rustc with its error code, twin accepted."""
    ctx.rule(rid, "compile-fail witnesses (harness/witness, `cargo +nightly test --doc`): each violating program is rejected by rustc with the stated error code while its twin, "
                  "which differs only by the offending line, compiles")
    res, out = run_witnesses(ctx.repo)
    names = sorted(n[2:] for n in res if n.startswith("w_" + prefix))
    ctx.floor(rid, "compile-fail witnesses", len(names), expected)
    src = open(os.path.join(extract.VERIF, "harness", "witness", "src", "lib.rs")).read()
    for n in names:
        w, t = res.get("w_" + n), res.get("t_" + n)
        doc = re.search(r"/// (%s[^\n]*)\n/// ```compile_fail,(E\d+)\n((?:/// [^\n]*\n)+?)/// ```\npub mod w_%s " % (re.escape(n[:3].upper()), re.escape(n)), src)
        what = (doc.group(1) + " [" + doc.group(2) + "]") if doc else n
        if t != "ok":
            ctx.ob(rid, "witness|%s|twin" % n, False, "the compiling twin of witness %s no longer compiles: the witness no longer shows anything (%s)" % (n, what), kind="UNRECOGNISED")
        ctx.ob(rid, "witness|%s" % n, w == "ok", "must not compile: %s" % what, site="harness/witness/src/lib.rs:w_" + n)
