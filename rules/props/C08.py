"""C08 — Bucket counts follow 'value <= upper bound' for every input (DESIGN §4.C08)."""
import re

from pvrules.mir import is_call, peel, show, strip_generics, subterms
from pvrules.rules import (is_pos_inf_const, SELF_FIELD, agg_field, const_int, count_range, elem_of, find_aggs, ok_payloads, rejecting, result_assign_blocks,
                           try_continue_block)
from . import hist_common as hcm

LEVEL = "other"
EXPLANATION = ("Static MIR rules over src/histogram.rs: the acceptance gate check_and_adjust_buckets is NaN-safe (every element crosses a NaN-refining edge "
               "before the next iteration or the accepting exit) and rejects every adjacent pair that is not strictly increasing, over all pairs (R1, R2); an empty "
               "list selects DEFAULT_BUCKETS before validation and a trailing +Inf is popped only after validation, under is_sign_positive && is_infinite (R3); both "
               "observers select the FIRST bound with the positive comparison v <= bound over all bounds in order, increment that bucket only in the Some arm and "
               "update count and sum unconditionally exactly once (R4, sibling agreement); the snapshot's cumulative counts are running sums paired with the bound "
               "of the same index (R5); linear/exponential helpers guard their parameters (R6); every histogram passes the gate and is built nowhere else (R7). "
               "The floating-point value of the sum is not decided.")
ASSUMPTIONS = ["IEEE-754 comparisons are false on NaN", "the floating-point value of the sample sum is not decided"]
H = hcm.H
P = hcm.P
CMP = ("Lt", "Le", "Gt", "Ge", "Eq")


def gate_list(b):
    """The list the gate validates: the `Vec<f64>` parameter adjusted in place, or -- when the gate only borrows the configuration -- the one slice local that is
    DEFAULT_BUCKETS or the caller's list.  Returns (term, mode) with mode "inplace" / "value"."""
    if (b.local_ty(1) or "").startswith("std::vec::Vec<f64"):
        return P(1), "inplace"
    AS = ["AsRef::as_ref", "Deref::deref", "Vec::as_slice", "Borrow::borrow", "Vec::as_ref"]
    for l in range(len(b.locals)):
        if b.local_ty(l) not in ("&[f64]", "&'static [f64]"):
            continue
        alts = b.var_alts(l) if len(b.defs().get(l, [])) == 2 else []
        if len(alts) != 2:
            continue
        dflt = [a for a in alts if any(isinstance(s_, tuple) and s_ and s_[0] == "constdef" and s_[1].endswith("::DEFAULT_BUCKETS") for s_ in subterms(a))]
        conf = [a for a in alts if peel(a, transparent=AS) == P(1)]
        if len(dflt) == 1 and len(conf) == 1:
            return ("var", l), "value"
    return P(1), "inplace"


def bucket_loops(b, LIST=None):
    """Loops whose element comes from iterating the bucket vector (parameter 1): [(next call, elem term of the f64, index term or None, body entry, exit target)]"""
    res = []
    if LIST is None:
        LIST = gate_list(b)[0]
    for n in b.calls_to("Iterator::next"):
        base = ("field", ("downcast", n.result_term(), "Some"), "0")
        recv = peel(n.args[0], transparent=["IntoIterator::into_iter"])
        if is_call(recv, "slice::windows") and peel(recv[2][0], transparent=["Deref::deref", "Vec::as_slice", "Vec::as_ref"]) == LIST and const_int(recv[2][1]) == 2:
            # `for pair in buckets.windows(2)`: the element is pair[0], its successor pair[1]; the last bound is in no pair's first place
            si = b.switch_info(n.target)
            res.append((n, ("win", base, 0), None, [t for v, t in si[1] if v == 1][0], [t for v, t in si[1] if v == 0][0], (LIST, ["windows"], [])))
            continue
        e = elem_of(base)
        if not e or peel(e[0]) != LIST:
            continue
        si = b.switch_info(n.target)
        body_entry = [t for v, t in si[1] if v == 1][0]
        exit_t = [t for v, t in si[1] if v == 0][0]
        if "enumerate" in e[1]:
            res.append((n, ("field", base, "1"), ("field", base, "0"), body_entry, exit_t, e))
        else:
            res.append((n, base, None, body_entry, exit_t, e))
    return res


def is_elem_value(t, elem):
    """t is the f64 value of the loop element (through refs/derefs)."""
    if isinstance(elem, tuple) and elem and elem[0] == "win":
        t = peel(t)
        return isinstance(t, tuple) and len(t) == 3 and t[0] == "index" and peel(t[1]) == elem[1] and const_int(t[2]) == elem[2]
    return peel(t) == elem


def _opt_last_is_nan(f, cnd, LIST):
    """cnd is `LIST.last().is_some_and(|b| b.is_nan())` or `LIST.last().map_or(false, |b| b.is_nan())`."""
    args = cnd[2]
    recv = peel(args[0], transparent=[])
    if not (is_call(recv, ["slice::last", "Vec::last"]) and peel(recv[2][0], transparent=["Deref::deref", "Vec::as_slice"]) == LIST):
        return False
    if is_call(cnd, "Option::map_or"):
        if len(args) != 3:
            return False
        d = peel(args[1], transparent=[])
        if not (isinstance(d, tuple) and d and d[0] == "const" and str(d[1]) in ("false", "const false")):
            return False
        clo = args[2]
    else:
        if len(args) != 2:
            return False
        clo = args[1]
    a_ = peel(clo, transparent=[])
    cl_ = f.closure(a_[2]) if (isinstance(a_, tuple) and a_ and a_[0] == "agg" and a_[1] == "closure") else None
    r_ = peel(cl_.term_local(0), transparent=[]) if cl_ is not None else None
    return bool(is_call(r_, "f64::is_nan") and peel(r_[2][0]) in (("param", 2), ("deref", ("param", 2))))


def rule_R1_R2(ctx, f):
    b = ctx.anchor("R1", "check_and_adjust_buckets", f.body(H + "check_and_adjust_buckets"))
    if not b:
        return
    ctx.saw(b)
    ctx.rule("R1", "NaN-safe acceptance gate: every element of the bucket list crosses, on every path to the next iteration or to the accepting exit, an edge that excludes NaN "
                   "for that element (false edge of is_nan, true edge of is_finite, true edge of an ordered comparison / == having the element as operand)")
    ctx.rule("R2", "strict increase: for adjacent elements (i, i+1 from one enumeration) the pair is rejected unless a < b — Ge(a,b) true->Err, Lt(a,b) false->Err, or mirrored — "
                   "and the test runs for every i < len-1")
    LIST, _mode = gate_list(b)
    loops = bucket_loops(b, LIST)
    ctx.ob("R1", "gate|element-loop", len(loops) == 1 and (loops[0][5][1] == ["windows"] or not [a for a in loops[0][5][1] if a not in ("iter", "into_iter", "enumerate", "copied", "cloned", "peekable", "by_ref")]) if loops else False,
           "check_and_adjust_buckets must iterate all elements of the bucket list in one loop (found %d loops)" % len(loops), site=b.raw["span"]["at"])
    if len(loops) != 1:
        return
    n, elem, idx, body_entry, exit_t, e = loops[0]
    refining = []
    for bi in b.reach(body_entry, avoid_blocks=[n.bb]):
        be = b.bool_edges(bi)
        if not be:
            continue
        cnd, tt, tf = be
        if cnd[0] == "unop" and cnd[1] == "Not":
            cnd, tt, tf = cnd[2], tf, tt
        if is_call(cnd, ["f64::is_nan"]) and is_elem_value(cnd[2][0], elem):
            refining.append((bi, tf))
        elif is_call(cnd, ["f64::is_finite", "f64::is_normal"]) and is_elem_value(cnd[2][0], elem):
            refining.append((bi, tt))
        elif cnd[0] == "binop" and cnd[1] in CMP and (is_elem_value(cnd[2], elem) or is_elem_value(cnd[3], elem)):
            refining.append((bi, tt))
        elif cnd[0] == "binop" and cnd[1] == "Ne" and (is_elem_value(cnd[2], elem) or is_elem_value(cnd[3], elem)):
            refining.append((bi, tf))
    # a gate before the loop: buckets.iter().any(|b| b.is_nan()) -> Err
    pre_gate = False
    for c in b.calls_to(["Iterator::any", "Iterator::all"]):
        ee = peel(c.args[0], transparent=["slice::iter", "IntoIterator::into_iter", "Deref::deref", "Vec::iter"])
        a = c.args[1]
        if ee == LIST and a[0] == "agg" and a[1] == "closure":
            cl = f.closure(a[2])
            r = cl.term_local(0) if cl else None
            be = b.branch_on_call(c)
            if r is not None and be and be[0] == c.result_term():
                if c.matches("Iterator::any") and is_call(r, "f64::is_nan") and rejecting(b, be[1]) and b.edge_dominates(c.target, be[2], n.bb):
                    pre_gate = True
                if c.matches("Iterator::all") and is_call(r, "f64::is_finite") and rejecting(b, be[2]) and b.edge_dominates(c.target, be[1], n.bb):
                    pre_gate = True
    leak = b.reach(body_entry, avoid_edges=refining)
    ok = pre_gate or (n.bb not in leak and exit_t not in leak)
    if not ok and not pre_gate and e[1] == ["windows"]:
        # the other way to cover every bound with windows(2): each pair's SECOND bound is NaN-gated in the loop (bounds 1..n-1) and the FIRST bound of the list before the loop
        ref2 = []
        for bi in b.reach(body_entry, avoid_blocks=[n.bb]):
            be = b.bool_edges(bi)
            if not be:
                continue
            cnd, tt, tf = be
            second = ("win", elem[1], 1)
            if is_call(cnd, ["f64::is_nan"]) and is_elem_value(cnd[2][0], second):
                ref2.append((bi, tf))
            elif is_call(cnd, ["f64::is_finite", "f64::is_normal"]) and is_elem_value(cnd[2][0], second):
                ref2.append((bi, tt))
            elif cnd[0] == "binop" and cnd[1] in CMP and (is_elem_value(cnd[2], second) or is_elem_value(cnd[3], second)):
                ref2.append((bi, tt))
        leak2 = b.reach(body_entry, avoid_edges=ref2)
        first_ok = False
        for bi in b.reachable_blocks():
            be = b.bool_edges(bi)
            if not be or not b.dominates(bi, n.bb):
                continue
            cnd, tt, tf = be
            # buckets.first().is_some_and(|x| x.is_nan()) -> Err   /   buckets[0].is_nan() -> Err
            if is_call(cnd, "Option::is_some_and") and is_call(peel(cnd[2][0], transparent=[]), ["slice::first", "Vec::first"]) and peel(peel(cnd[2][0], transparent=[])[2][0]) == LIST:
                a_ = peel(cnd[2][1], transparent=[])
                cl_ = f.closure(a_[2]) if (isinstance(a_, tuple) and a_ and a_[0] == "agg" and a_[1] == "closure") else None
                r_ = peel(cl_.term_local(0), transparent=[]) if cl_ is not None else None
                if is_call(r_, "f64::is_nan") and peel(r_[2][0]) in (("param", 2), ("deref", ("param", 2))) and rejecting(b, tt) and b.edge_dominates(bi, tf, n.bb):
                    first_ok = True
            if is_call(cnd, "f64::is_nan"):
                x_ = peel(cnd[2][0], transparent=["Option::unwrap", "Option::expect"])
                is_first = (is_call(x_, ["slice::first", "Vec::first"]) and peel(x_[2][0]) == LIST) or \
                           (isinstance(x_, tuple) and len(x_) == 3 and x_[0] == "index" and peel(x_[1]) == LIST and const_int(x_[2]) == 0)
                if is_first and rejecting(b, tt) and b.edge_dominates(bi, tf, n.bb):
                    first_ok = True
        ok = first_ok and n.bb not in leak2 and exit_t not in leak2
    elif ok and not pre_gate and e[1] == ["windows"]:
        # the last bound is the first of no pair: it must be NaN-gated after the loop, on every path to the accepting exit (this is also the only test of a one-element list)
        def is_last(t):
            t = peel(t, transparent=["Option::unwrap", "Option::expect", "Option::unwrap_unchecked"])
            return is_call(t, ["slice::last", "Vec::last"]) and peel(t[2][0], transparent=["Deref::deref", "Vec::as_slice"]) == LIST
        tail_ref = []
        for bi in b.reach(exit_t):
            be = b.bool_edges(bi)
            if not be:
                continue
            cnd, tt, tf = be
            if is_call(cnd, ["f64::is_nan"]) and is_last(cnd[2][0]):
                tail_ref.append((bi, tf))
            elif is_call(cnd, ["Option::is_some_and", "Option::map_or"]) and _opt_last_is_nan(f, cnd, LIST):
                # buckets.last().is_some_and(|b| b.is_nan()) / .map_or(false, |b| b.is_nan()): false only when there is no last bound or it is not NaN
                tail_ref.append((bi, tf))
            elif is_call(cnd, ["f64::is_finite", "f64::is_normal"]) and is_last(cnd[2][0]):
                tail_ref.append((bi, tt))
            elif cnd[0] == "binop" and cnd[1] in CMP and (is_last(cnd[2]) or is_last(cnd[3])):
                tail_ref.append((bi, tt))
        _, okb_ = result_assign_blocks(b)
        tail_leak = b.reach(exit_t, avoid_edges=tail_ref)
        ok = bool(okb_) and not any(x in tail_leak for x in okb_)
    # the loop exit itself is only reachable from the header, so "every element" includes the last/only one
    ctx.ob("R1", "gate|nan-safe", ok,
           "a NaN bound can pass the acceptance gate: some path through the loop body reaches the next iteration without any comparison/is_nan test that is false on NaN "
           "(e.g. acceptance on the FALSE edge of `a >= b`, or the last/only element is never tested) — [1.0, NaN, 2.0] or [NaN] would be accepted", site=n.span)
    # the accepting exit is reachable only through the loop's exit edge
    _, okb = result_assign_blocks(b)
    ctx.ob("R1", "gate|ok-after-loop", all(b.dominates_ps(exit_t, x) for x in okb), "Ok must be reachable only after the validation loop has finished", site=n.span)
    # ---- R2
    pair = None
    via_get = []
    via_peek = []
    for bi in b.reach(body_entry, avoid_blocks=[n.bb]):
        be = b.bool_edges(bi)
        if not be or be[0][0] != "binop" or be[0][1] not in ("Lt", "Le", "Gt", "Ge"):
            continue
        op, x, y = be[0][1], be[0][2], be[0][3]

        def nxt(t):
            if isinstance(elem, tuple) and elem and elem[0] == "win":
                return is_elem_value(t, ("win", elem[1], 1))
            t = peel(t, transparent=["Index::index"]) if False else peel(t)
            # `it.peek()` on the peekable iterator that drives the loop: the element after the current one (None after the last: the Some arm is the `i + 1 < len` guard)
            if isinstance(t, tuple) and len(t) == 3 and t[0] == "field" and isinstance(t[1], tuple) and t[1][0] == "downcast" and t[1][2] == "Some":
                g_ = peel(t[1][1], transparent=[])
                if is_call(g_, "Peekable::peek") and peel(g_[2][0]) == peel(n.args[0]):
                    via_peek.append(g_)
                    return True
            # buckets.get(i + 1) -> Some(next): the Some arm is itself the `i + 1 < len` guard
            if isinstance(t, tuple) and len(t) == 3 and t[0] == "field" and isinstance(t[1], tuple) and t[1][0] == "downcast" and t[1][2] == "Some":
                g_ = peel(t[1][1], transparent=[])
                if is_call(g_, ["slice::get", "Vec::get"]) and peel(g_[2][0]) == LIST:
                    i = g_[2][1]
                    plus1 = (i[0] == "field" and i[1][0] == "binop" and i[1][1] in ("AddWithOverflow", "Add") and idx is not None and peel(i[1][2]) == idx and const_int(i[1][3]) == 1) or \
                            (i[0] == "binop" and i[1] == "Add" and idx is not None and peel(i[2]) == idx and const_int(i[3]) == 1)
                    if plus1:
                        via_get.append(g_)
                        return True
            if is_call(t, ["Index::index", "slice::get_unchecked"]) and peel(t[2][0]) == LIST:
                i = t[2][1]
                if i[0] == "field" and i[1][0] == "binop" and i[1][1] in ("AddWithOverflow", "Add") and idx is not None and peel(i[1][2]) == idx and const_int(i[1][3]) == 1:
                    return True
                if i[0] == "binop" and i[1] == "Add" and idx is not None and peel(i[2]) == idx and const_int(i[3]) == 1:
                    return True
            if t[0] == "index" and peel(t[1]) == LIST:
                i = t[2]
                if i[0] == "field" and i[1][0] == "binop" and idx is not None and peel(i[1][2]) == idx and const_int(i[1][3]) == 1:
                    return True
            return False
        if is_elem_value(x, elem) and nxt(y):
            a_first = True
        elif is_elem_value(y, elem) and nxt(x):
            a_first = False
        else:
            continue
        # normalise to a ? b with a = element i, b = element i+1
        opn = op if a_first else {"Lt": "Gt", "Le": "Ge", "Gt": "Lt", "Ge": "Le"}[op]
        # edges: which edge means "not strictly increasing"
        if opn == "Ge":
            bad, good = be[1], be[2]
        elif opn == "Lt":
            bad, good = be[2], be[1]
        else:
            bad = None
        pair = (bi, opn, bad, be)
        break
    ctx.ob("R2", "gate|adjacent-comparison", pair is not None, "adjacent bounds must be compared (bucket[i] with bucket[i+1])", site=n.span)
    if pair:
        bi, opn, bad, be = pair
        ctx.ob("R2", "gate|rejects-non-increasing", bad is not None and rejecting(b, bad),
               "the pair must be rejected unless bucket[i] < bucket[i+1] (found comparison `a %s b`; equal bounds must be rejected too)" % opn, site=b.span_of_block(bi))
        # guard i < len - 1 covers all pairs
        g_ok = False
        for bj in b.reach(body_entry, avoid_blocks=[n.bb]):
            g = b.bool_edges(bj)
            if g and g[0][0] == "binop" and b.dominates(bj, bi) and bj != bi:
                op, x, y = g[0][1], g[0][2], g[0][3]
                def len_minus_1(t):
                    return t[0] == "field" and t[1][0] == "binop" and t[1][1] in ("SubWithOverflow", "Sub") and is_call(t[1][2], ["Vec::len", "slice::len"]) and peel(t[1][2][2][0]) == LIST and const_int(t[1][3]) == 1
                def plain_len(t):
                    return is_call(t, ["Vec::len", "slice::len"]) and peel(t[2][0]) == LIST
                def i_plus_1(t):
                    return t[0] == "field" and t[1][0] == "binop" and t[1][1] in ("AddWithOverflow", "Add") and idx is not None and peel(t[1][2]) == idx and const_int(t[1][3]) == 1
                if op == "Lt" and idx is not None and peel(x) == idx and len_minus_1(y) and b.edge_dominates(bj, g[1], bi):
                    g_ok = True
                if op == "Lt" and i_plus_1(x) and plain_len(y) and b.edge_dominates(bj, g[1], bi):
                    g_ok = True
                if op == "Ne" and idx is not None and peel(x) == idx and len_minus_1(y) and b.edge_dominates(bj, g[1], bi):
                    g_ok = True
        if e[1] == ["windows"]:
            # every window is a pair (i, i+1), all of them are visited: the test must lie on every path through the body that reaches the next window
            g_ok = b.all_paths_pass(body_entry, [bi], dst_set={n.bb})
        if via_get and not g_ok:
            gc = [c for c in b.calls() if c.bb == via_get[0][3]]
            # the lookup of the successor happens for every element that passed the NaN test
            g_ok = len(gc) == 1 and b.all_paths_pass(body_entry, [gc[0].bb], dst_set={n.bb})
        if via_peek and not g_ok:
            pc = [c for c in b.calls() if c.bb == via_peek[0][3]]
            si_p = b.switch_info(pc[0].target) if len(pc) == 1 and pc[0].target is not None else None
            some_p = [t for v, t in si_p[1] if v == 1] if si_p and si_p[0] == ("discr", pc[0].result_term()) else []
            # every element is followed by a peek, and whenever there is a successor the comparison runs before the next element is taken
            g_ok = len(pc) == 1 and bool(some_p) and b.all_paths_pass(body_entry, [pc[0].bb], dst_set={n.bb}) and b.all_paths_pass(some_p[0], [bi], dst_set={n.bb}) \
                and len([c for c in b.calls_to(["Iterator::next", "Peekable::next_if", "Peekable::next_if_eq", "Iterator::nth", "Iterator::skip", "Iterator::step_by", "Iterator::advance_by"])
                         if peel(c.args[0]) == peel(n.args[0])]) == 1
        ctx.ob("R2", "gate|all-pairs", g_ok, "the adjacent-pair test must run for every i < len-1 (guard `i < len - 1` or `i + 1 < len`)", site=b.span_of_block(bi))


def rule_R3(ctx, f):
    rid = "R3"
    ctx.rule(rid, "default and +Inf handling: is_empty() true edge replaces the list by DEFAULT_BUCKETS before the validation loop; Vec::pop is control-dependent on "
                  "is_sign_positive && is_infinite of the LAST element and happens only after validation; the Ok value is the (adjusted) list")
    b = f.body(H + "check_and_adjust_buckets")
    if not b:
        return
    LIST, mode = gate_list(b)
    loops = bucket_loops(b, LIST)
    if len(loops) != 1:
        return
    n, elem, idx, body_entry, exit_t, e = loops[0]
    if mode == "value":
        return _rule_R3_value(ctx, rid, f, b, LIST, n, exit_t)
    # the emptiness test that selects the defaults is the one before the validation loop (a later `debug_assert!(!buckets.is_empty())` is not it)
    ie = [c for c in b.calls_to("Vec::is_empty") if peel(c.args[0]) == LIST and b.dominates(c.bb, n.bb)]
    ok = False
    if len(ie) == 1:
        be = b.branch_on_call(ie[0])
        if be and be[0] == ie[0].result_term():
            fills = [c for c in b.calls() if c.matches(["From::from", "slice::to_vec", "ToOwned::to_owned", "Vec::extend_from_slice"]) and
                     any(isinstance(s, tuple) and s and s[0] == "constdef" and s[1].endswith("::DEFAULT_BUCKETS") for s in subterms(c.args[-1]))]
            ok = len(fills) == 1 and b.edge_dominates(ie[0].target, be[1], fills[0].bb) and n.bb in b.reach(fills[0].bb) and b.dominates(ie[0].bb, n.bb)
            if ok:
                # the filled value becomes the list: assigned to _1
                ok = any(d[0] == "assign" and b.term_rvalue(d[3]) == fills[0].result_term() for d in b.defs().get(1, [])) or fills[0].matches("Vec::extend_from_slice")
    ctx.ob(rid, "default|empty-selects-default", ok, "an empty list must be replaced by DEFAULT_BUCKETS before validation", site=ie[0].span if ie else b.raw["span"]["at"])
    pops = [c for c in b.calls_to(["Vec::pop", "Vec::truncate", "Vec::remove"]) if peel(c.args[0]) == LIST]
    ok = len(pops) == 1 and b.dominates_ps(exit_t, pops[0].bb) and n.bb not in b.reach(pops[0].bb)
    ctx.ob(rid, "inf|pop-after-validation", ok, "the trailing +Inf may be dropped only after the whole list was validated (found %d pop sites)" % len(pops), site=pops[0].span if pops else b.raw["span"]["at"])
    if len(pops) == 1:
        guards = set()
        tail_ok = True
        for bi in b.reach(exit_t):
            be = b.bool_edges(bi)
            if be and is_call(be[0], ["f64::is_sign_positive", "f64::is_infinite"]) and b.edge_dominates(bi, be[1], pops[0].bb):
                guards.add(strip_generics(be[0][1]).split("::")[-1])
                t = peel(be[0][2][0], transparent=["Option::unwrap", "Option::expect"])
                tail_ok = tail_ok and is_call(t, ["slice::last", "Vec::last"]) and peel(t[2][0]) == LIST
        if not guards:
            for bi in b.reach(exit_t):
                be = b.bool_edges(bi)
                # (the test may feed a `matches!` flag that is branched on afterwards: the pop is reached from the true edge only, literal flags followed)
                if be and be[0][0] == "binop" and be[0][1] == "Eq" and (b.edge_dominates(bi, be[1], pops[0].bb) or
                                                                        (b.dominates_ps(bi, pops[0].bb) and pops[0].bb in b.reach_ps(be[1]) and pops[0].bb not in b.reach_ps(be[2]))):
                    x, y = be[0][2], be[0][3]
                    infs = [z for z in (x, y) if is_pos_inf_const(z)]

                    def _last_of(z):
                        """the call `LIST.last()` whose value z is: through unwrap()/expect(), or as the payload of its Some arm (`Some(&tail) if tail == ..`)"""
                        z = peel(z, transparent=["Option::unwrap", "Option::expect"])
                        if isinstance(z, tuple) and len(z) == 3 and z[0] == "field" and str(z[2]) == "0" and isinstance(z[1], tuple) and z[1][0] == "downcast" and z[1][2] == "Some":
                            z = peel(z[1][1], transparent=[])
                        return z if is_call(z, ["slice::last", "Vec::last"]) else None
                    lasts = [_last_of(z) for z in (x, y) if _last_of(z) is not None]
                    if len(infs) == 1 and len(lasts) == 1 and peel(lasts[0][2][0], transparent=["Deref::deref", "Vec::as_slice"]) == LIST:
                        guards = {"is_sign_positive", "is_infinite"}     # `last == +Inf` is the same test
        if not guards:
            for bi in b.reach(exit_t):
                be = b.bool_edges(bi)
                if be and is_call(be[0], "PartialEq::eq") and b.edge_dominates(bi, be[1], pops[0].bb):
                    # `buckets.last() == Some(&f64::INFINITY)`
                    x, y = peel(be[0][2][0]), peel(be[0][2][1])
                    somes = [z for z in (x, y) if isinstance(z, tuple) and z and z[0] == "agg" and z[2].endswith("Option::Some") and is_pos_inf_const(peel(z[3][0]))]
                    lasts = [z for z in (x, y) if is_call(z, ["slice::last", "Vec::last"]) and peel(z[2][0]) == LIST]
                    if len(somes) == 1 and len(lasts) == 1:
                        guards = {"is_sign_positive", "is_infinite"}
        ctx.ob(rid, "inf|pop-guard", guards == {"is_sign_positive", "is_infinite"} and tail_ok,
               "pop must be guarded by is_sign_positive && is_infinite of buckets.last() (found guards %s)" % sorted(guards), site=pops[0].span)
    oks = ok_payloads(b)
    ctx.ob(rid, "ok-value", len(oks) == 1 and peel(oks[0]) == LIST, "the accepted configuration returned must be the adjusted list itself", site=b.raw["span"]["at"])


def _rule_R3_value(ctx, rid, f, b, LIST, n, exit_t):
    """R3 for a gate that borrows the configuration: `let list: &[f64] = if configured is empty { DEFAULT_BUCKETS } else { configured }`, validation of `list`, and
    `Ok((list without a trailing +Inf).to_vec())`."""
    AS = ["AsRef::as_ref", "Deref::deref", "Vec::as_slice", "Borrow::borrow", "Vec::as_ref"]
    l = LIST[1]
    d_dflt = d_conf = None
    for d in b.defs().get(l, []):
        if d[0] != "assign":
            continue
        t_ = b.term_rvalue(d[3], (d[1], d[2]))
        if peel(t_, transparent=AS) == P(1):
            d_conf = d[1]
        elif any(isinstance(s_, tuple) and s_ and s_[0] == "constdef" and s_[1].endswith("::DEFAULT_BUCKETS") for s_ in subterms(t_)):
            d_dflt = d[1]

    def is_conf(t):
        return peel(t, transparent=AS) == P(1)
    ok = False
    site = b.raw["span"]["at"]
    for bi in b.reachable_blocks():
        be = b.bool_edges(bi)
        if not be:
            continue
        cnd, tt, tf = be
        if cnd[0] == "unop" and cnd[1] == "Not":
            cnd, tt, tf = cnd[2], tf, tt
        empty_t = None
        if is_call(cnd, ["slice::is_empty", "Vec::is_empty"]) and is_conf(cnd[2][0]):
            empty_t, full_t = tt, tf
        elif cnd[0] == "binop" and cnd[1] in ("Eq", "Ne") and const_int(cnd[3]) == 0:
            x = peel(cnd[2])
            if (x[0] == "unop" and x[1] == "PtrMetadata" and is_conf(x[2])) or (is_call(x, ["slice::len", "Vec::len"]) and is_conf(x[2][0])):
                empty_t, full_t = (tt, tf) if cnd[1] == "Eq" else (tf, tt)
        if empty_t is None or d_dflt is None or d_conf is None:
            continue
        site = b.span_of_block(bi)
        ok = b.edge_dominates(bi, empty_t, d_dflt) and b.edge_dominates(bi, full_t, d_conf) and b.dominates(bi, n.bb) and n.bb not in b.reach(bi, avoid_blocks=[d_dflt, d_conf])
    ctx.ob(rid, "default|empty-selects-default", ok, "an empty list must be replaced by DEFAULT_BUCKETS before validation", site=site)
    # the returned list: the validated one, without its last element exactly when that is +Inf
    oks = ok_payloads(b)
    okv = okpop = okguard = False
    psite = b.raw["span"]["at"]
    if len(oks) == 1:
        r = peel(oks[0], transparent=[])
        if is_call(r, ["slice::to_vec", "ToOwned::to_owned", "From::from", "Into::into", "Vec::from"]) and len(r[2]) == 1:
            x = peel(r[2][0])
            if isinstance(x, tuple) and len(x) == 2 and x[0] == "var":
                rest_d = whole_d = None
                sl = None
                ds = [d for d in b.defs().get(x[1], []) if d[0] == "assign"]
                for d in ds:
                    t_ = peel(b.term_rvalue(d[3], (d[1], d[2])))
                    if t_ == LIST:
                        whole_d = d[1]
                    elif isinstance(t_, tuple) and len(t_) == 3 and t_[0] == "field" and str(t_[2]) == "1" and isinstance(t_[1], tuple) and t_[1][0] == "field" and str(t_[1][2]) == "0" \
                            and isinstance(t_[1][1], tuple) and t_[1][1][0] == "downcast" and t_[1][1][2] == "Some" and is_call(peel(t_[1][1][1], transparent=[]), "slice::split_last") \
                            and peel(peel(t_[1][1][1], transparent=[])[2][0]) == LIST:
                        rest_d, sl = d[1], peel(t_[1][1][1], transparent=[])
                okv = len(ds) == 2 and rest_d is not None and whole_d is not None
                if okv:
                    psite = b.span_of_block(rest_d)
                    okpop = b.dominates(exit_t, rest_d) and b.dominates(exit_t, whole_d) and n.bb not in b.reach(rest_d)
                    tail = ("deref", ("field", ("field", ("downcast", sl, "Some"), "0"), "0"))
                    guards = set()
                    gl = []
                    for bi in b.reach(exit_t):
                        be = b.bool_edges(bi)
                        if not be:
                            continue
                        cnd, tt, tf = be
                        if cnd[0] == "binop" and cnd[1] == "Eq" and b.edge_dominates(bi, tt, rest_d):
                            if (peel(cnd[2]) == peel(tail) and is_pos_inf_const(cnd[3])) or (peel(cnd[3]) == peel(tail) and is_pos_inf_const(cnd[2])):
                                guards = {"is_sign_positive", "is_infinite"}
                                gl.append((bi, tt))
                        if is_call(cnd, ["f64::is_sign_positive", "f64::is_infinite"]) and peel(cnd[2][0]) == peel(tail) and b.edge_dominates(bi, tt, rest_d):
                            guards.add(strip_generics(cnd[1]).split("::")[-1])
                            gl.append((bi, tt))
                    # ... and the whole list is returned only when the guard failed: past the last test's true edge only the shortened list is reachable
                    inner = [tt for bi, tt in gl if not any(bj in b.reach(tt) for bj, _ in gl if bj != bi)]
                    okguard = guards == {"is_sign_positive", "is_infinite"} and len(inner) == 1 and whole_d not in b.reach(inner[0])
    ctx.ob(rid, "inf|pop-after-validation", okv and okpop, "the trailing +Inf may be dropped only after the whole list was validated (value form: the result is the list or the list without its last element)", site=psite)
    ctx.ob(rid, "inf|pop-guard", okv and okguard, "the last element must be dropped exactly when it is +Inf (is_sign_positive && is_infinite, or == f64::INFINITY)", site=psite)
    ctx.ob(rid, "ok-value", okv, "the accepted configuration returned must be the adjusted list itself", site=b.raw["span"]["at"])


def observer_summary(ctx, rid, f, path, key, value, kind):
    """R4 for one observer.  kind: 'shared' (atomics on a shard) or 'local' (plain fields). Returns a comparable summary."""
    b = ctx.anchor(rid, key, f.body(path))
    if not b:
        return None
    ctx.saw(b)
    scan = hcm.first_match_scan(f, b, value)
    ctx.ob(rid, key + "|first-bound-with-v<=b", scan["ok"],
           "%s must select the FIRST bound, in order over all bounds, for which the positive comparison `v <= bound` holds (so NaN and values above every bound select none): %s" % (key, scan["why"]),
           site=scan["call"].span if scan.get("call") else b.raw["span"]["at"])
    if not scan.get("call"):
        return None
    c = scan["call"]
    ub = peel(scan["bounds"])
    ctx.ob(rid, key + "|bounds", isinstance(ub, tuple) and ub[0] == "field" and ub[2] == "upper_bounds", "the scan must run over the histogram's upper_bounds (found %s)" % show(ub), site=c.span)
    # Some arm only: bucket increment
    # the branch on the scan's result (directly after the call, or — when the scan sits in a helper — wherever its value is finally tested)
    sw = [bi for bi in b.reachable_blocks() if (lambda si_: si_ and si_[0][0] == "discr" and peel(si_[0][1]) == c.result_term())(b.switch_info(bi))]
    mapped = None
    if not sw and scan.get("kind") in ("filter-next", "find"):
        # `iter.next().map(|(i, _)| i)`: the match projected to its index before it is tested
        for mc in b.calls_to("Option::map"):
            if peel(mc.args[0], transparent=[]) != c.result_term():
                continue
            a_ = peel(mc.args[1], transparent=[])
            mcl = f.closure(a_[2]) if (isinstance(a_, tuple) and a_ and a_[0] == "agg" and a_[1] == "closure") else None
            if mcl is not None and peel(mcl.term_local(0)) == ("field", ("param", 2), "0") and not mcl.calls():
                mapped = mc
                sw = [bi for bi in b.reachable_blocks() if (lambda si_: si_ and si_[0][0] == "discr" and peel(si_[0][1]) == mc.result_term())(b.switch_info(bi))]
    pp_false = None
    if scan.get("kind") == "partition_point":
        # the found index i is a bucket only when i < len(bounds) (or bounds.get(i) is Some): that test plays the role of the scan's Some arm
        for bi in b.reachable_blocks():
            be = b.bool_edges(bi)
            if be and be[0][0] == "binop" and be[0][1] in ("Lt", "Gt", "Ne"):
                x, y = (be[0][2], be[0][3]) if be[0][1] != "Gt" else (be[0][3], be[0][2])
                if peel(x) == c.result_term() and is_call(peel(y), ["slice::len", "Vec::len"]) and peel(peel(y)[2][0], transparent=["Deref::deref"]) == peel(scan["bounds"]):
                    sw, pp_false = [bi], be[2]
            si_ = b.switch_info(bi)
            if si_ and si_[0][0] == "discr" and is_call(peel(si_[0][1], transparent=[]), ["slice::get", "Vec::get", "slice::get_mut", "Vec::get_mut"]) and peel(peel(si_[0][1], transparent=[])[2][1]) == c.result_term() and not sw:
                sw, pp_false = [bi], ([t for v, t in si_[1] if v == 0] or [si_[2]])[0]
    then_some_var = None
    if scan.get("kind") == "partition_point" and not sw:
        # `(i < bounds.len()).then_some(i)` (joined with the `None` of a NaN guard): Some exactly when i is a bucket index, and then it carries i
        for bi in b.reachable_blocks():
            si_ = b.switch_info(bi)
            if not (si_ and si_[0][0] == "discr"):
                continue
            d_ = peel(si_[0][1], transparent=[])
            alts_ = b.var_alts(d_[1]) if (isinstance(d_, tuple) and len(d_) == 2 and d_[0] == "var") else [d_]
            ts = [a for a in alts_ if is_call(peel(a, transparent=[]), "bool::then_some")]
            rest_ = [a for a in alts_ if a not in ts]
            if len(ts) != 1 or not all(isinstance(a, tuple) and a and a[0] == "agg" and a[2].endswith("Option::None") for a in rest_):
                continue
            t_ = peel(ts[0], transparent=[])
            cnd_, pay_ = t_[2][0], t_[2][1]
            if cnd_[0] == "binop" and cnd_[1] == "Lt" and peel(cnd_[2]) == c.result_term() and is_call(peel(cnd_[3]), ["slice::len", "Vec::len"]) \
                    and peel(peel(cnd_[3])[2][0], transparent=["Deref::deref"]) == peel(scan["bounds"]) and peel(pay_) == c.result_term():
                # with a NaN guard: its edge must lead to the None, not to the search result
                if scan.get("nan_guard") is None or t_[3] not in b.reach(scan["nan_guard"][1]):
                    sw, then_some_var = [bi], d_
    if scan.get("nan_guard") is not None and then_some_var is None:
        ctx.ob(rid, key + "|bucket-inc-in-some-arm", False, "a NaN observation is diverted before the search, but what it selects instead could not be established", site=c.span)
        return None
    if len(sw) != 1:
        ctx.ob(rid, key + "|bucket-inc-in-some-arm", False, "the result of the scan must be tested exactly once (found %d tests)" % len(sw), site=c.span)
        return None
    swb = sw[0]
    si = b.switch_info(swb)
    some_t = [t for v, t in si[1] if v == 1]
    none_t = [t for v, t in si[1] if v == 0] or [si[2]]

    def only_when_matched(blk):
        """blk runs only when a bound matched."""
        if pp_false is not None:
            # path-sensitively: nothing reachable from the `no such bucket` edge (the Option built there is None)
            return blk not in b.reach_ps(pp_false)
        return bool(some_t) and b.edge_dominates(swb, some_t[0], blk)
    # the matched index: (i, &bound).0 for enumerate().filter().next() / find, the position itself for position()
    idx_terms = [("field", ("field", ("downcast", c.result_term(), "Some"), "0"), "0")] if scan.get("kind") != "position" else [("field", ("downcast", c.result_term(), "Some"), "0")]
    if scan.get("kind") == "partition_point":
        idx_terms = [c.result_term()]
    if mapped is not None:
        idx_terms = [("field", ("downcast", mapped.result_term(), "Some"), "0")]

    def is_idx(t):
        if then_some_var is not None:
            return peel(t) == ("field", ("downcast", then_some_var, "Some"), "0")
        if scan.get("kind") == "partition_point":
            from pvrules import seqeval as _sq
            return peel(_sq._unwrap_payload(t, c.result_term(), b)) == c.result_term()
        t = peel(t)
        # normalise the discriminated place to the scan's result
        if isinstance(t, tuple) and t and t[0] == "field":
            def norm(u):
                if isinstance(u, tuple) and u and u[0] == "field":
                    return ("field", norm(u[1]), u[2])
                if isinstance(u, tuple) and u and u[0] == "downcast":
                    return ("downcast", peel(u[1]), u[2])
                return peel(u)
            t = norm(t)
        return t in idx_terms
    if kind == "shared":
        incs = [x for x in b.calls_to(["Atomic::inc_by", "AtomicU64::inc_by_with_ordering"]) if is_call(peel(x.args[0], transparent=[]), ["Index::index"]) and
                peel(peel(x.args[0], transparent=[])[2][0])[0] == "field" and peel(peel(x.args[0], transparent=[])[2][0])[2] == "buckets"]
        got = None
        if not incs:
            # `if let Some(cell) = shard.buckets.get(i) { cell.inc_by(1) }`: the cell exists exactly when i is a bucket index (each shard gets upper_bounds.len() cells, C08.R7 `new|one-cell-per-bound`)
            for x in b.calls_to(["Atomic::inc_by", "AtomicU64::inc_by_with_ordering"]):
                r_ = peel(x.args[0], transparent=[])
                if isinstance(r_, tuple) and len(r_) == 3 and r_[0] == "field" and isinstance(r_[1], tuple) and r_[1][0] == "downcast" and r_[1][2] == "Some":
                    g_ = peel(r_[1][1], transparent=[])
                    if is_call(g_, ["slice::get", "Vec::get"]) and peel(g_[2][0], transparent=["Deref::deref"])[0] == "field" and peel(g_[2][0], transparent=["Deref::deref"])[2] == "buckets":
                        incs, got = [x], g_
        if got is not None:
            gs = [bi for bi in b.reachable_blocks() if (lambda si_: si_ and si_[0][0] == "discr" and peel(si_[0][1], transparent=[]) == got)(b.switch_info(bi))]
            okg = len(gs) == 1 and b.edge_dominates(gs[0], [t for v, t in b.switch_info(gs[0])[1] if v == 1][0], incs[0].bb)
            ok = len(incs) == 1 and okg and is_idx(got[2][1]) and const_int(incs[0].args[1]) == 1
        else:
            ok = len(incs) == 1 and only_when_matched(incs[0].bb) and is_idx(peel(incs[0].args[0], transparent=[])[2][1]) and const_int(incs[0].args[1]) == 1
        ctx.ob(rid, key + "|bucket-inc-in-some-arm", ok, "the selected bucket (index of the match) is incremented by 1, only when a bound matched", site=incs[0].span if incs else c.span)
        sums = [x for x in b.calls_to("Atomic::inc_by") if peel(x.args[0])[0] == "field" and peel(x.args[0])[2] == "sum"]
        cnts = [x for x in b.calls_to(["AtomicU64::inc_by_with_ordering", "Atomic::inc_by"]) if peel(x.args[0])[0] == "field" and peel(x.args[0])[2] == "count"]
        ok = len(sums) == 1 and len(cnts) == 1 and count_range(b, [sums[0].bb]) == (1, 1) and count_range(b, [cnts[0].bb]) == (1, 1) and peel(sums[0].args[1]) == value and const_int(cnts[0].args[1]) == 1
        ctx.ob(rid, key + "|count-sum-unconditional", ok, "sum += v and count += 1 exactly once on every path, whether or not a bound matched", site=b.raw["span"]["at"])
    else:
        # local: stores to counts[i], count, sum
        st = [(bi, b.term_place(pl), b.term_rvalue(rv)) for bi, si_, pl, rv in b.stores()]
        cnt = [(bi, t, v) for bi, t, v in st if t == SELF_FIELD("count")]
        sm = [(bi, t, v) for bi, t, v in st if t == SELF_FIELD("sum")]
        bk = [(bi, t, v) for bi, t, v in st if peel(t, transparent=["IndexMut::index_mut"])[0] == "call" or (t[0] == "deref" and is_call(t[1], "IndexMut::index_mut"))]
        okb = False
        if not bk:
            # `if let Some(cell) = self.counts.get_mut(i) { *cell += 1 }`: the cell exists exactly when i is a bucket index (counts has one cell per bound, C08.R7 `counts-len`)
            for bi_, t_, v_ in st:
                if not (t_[0] == "deref" and isinstance(t_[1], tuple) and len(t_[1]) == 3 and t_[1][0] == "field" and isinstance(t_[1][1], tuple) and t_[1][1][0] == "downcast" and t_[1][1][2] == "Some"):
                    continue
                g_ = peel(t_[1][1][1], transparent=[])
                if not (is_call(g_, ["slice::get_mut", "Vec::get_mut"]) and peel(g_[2][0], transparent=["Deref::deref", "DerefMut::deref_mut", "Vec::as_mut_slice"]) == SELF_FIELD("counts")):
                    continue
                gs = [bj for bj in b.reachable_blocks() if (lambda si_: si_ and si_[0][0] == "discr" and peel(si_[0][1], transparent=[]) == g_)(b.switch_info(bj))]
                okg = len(gs) == 1 and b.edge_dominates(gs[0], [tt for vv, tt in b.switch_info(gs[0])[1] if vv == 1][0], bi_)
                okv = v_[0] == "field" and v_[1][0] == "binop" and v_[1][1] in ("AddWithOverflow", "Add") and const_int(v_[1][3]) == 1 and peel(v_[1][2]) == peel(t_)
                okb = okg and okv and is_idx(g_[2][1]) and len([x for x in st if x[1] == t_]) == 1
                break
        if len(bk) == 1:
            tgt = bk[0][1]
            im = tgt[1] if tgt[0] == "deref" else tgt
            okb = is_call(im, "IndexMut::index_mut") and peel(im[2][0]) == SELF_FIELD("counts") and is_idx(im[2][1]) and only_when_matched(bk[0][0])
            v = bk[0][2]
            okb = okb and v[0] == "field" and v[1][0] == "binop" and v[1][1] in ("AddWithOverflow", "Add") and const_int(v[1][3]) == 1
        ctx.ob(rid, key + "|bucket-inc-in-some-arm", okb, "the selected local bucket counter is incremented by 1, only when a bound matched", site=c.span)
        okc = len(cnt) == 1 and len(sm) == 1 and count_range(b, [cnt[0][0]]) == (1, 1) and count_range(b, [sm[0][0]]) == (1, 1)
        if okc:
            v = cnt[0][2]
            okc = v[0] == "field" and v[1][0] == "binop" and v[1][1] in ("AddWithOverflow", "Add") and peel(v[1][2]) == SELF_FIELD("count") and const_int(v[1][3]) == 1
            s = sm[0][2]
            okc = okc and s[0] == "binop" and s[1] == "Add" and {peel(s[2]), peel(s[3])} == {SELF_FIELD("sum"), value}
        ctx.ob(rid, key + "|count-sum-unconditional", okc, "self.count += 1 and self.sum += v exactly once on every path", site=b.raw["span"]["at"])
    return (scan.get("pred"), scan.get("kind"), tuple(scan.get("adapters", [])))


def rule_R4(ctx, f):
    rid = "R4"
    ctx.rule(rid, "bucket predicate, both observers: first element (filter().next(), find, position) of upper_bounds in order whose positive comparison v <= bound (Le(v,b) / Ge(b,v)) "
                  "is true; bucket increment only in the Some arm; count and sum updated unconditionally, exactly once, with deltas 1 and v; HistogramCore::observe and "
                  "LocalHistogramCore::observe must classify identically")
    a = observer_summary(ctx, rid, f, H + "HistogramCore::observe", "HistogramCore::observe", P(2), "shared")
    l = observer_summary(ctx, rid, f, H + "LocalHistogramCore::observe", "LocalHistogramCore::observe", P(2), "local")
    ctx.ob(rid, "sibling-agreement", a is not None and l is not None and a[0] == l[0], "Histogram and LocalHistogram must bucket by the same rule (found %s vs %s)" % (a, l))
    # the public wrappers forward the value unchanged
    for path, callee in ((H + "Histogram::observe", "HistogramCore::observe"), (H + "LocalHistogram::observe", "LocalHistogramCore::observe")):
        b = ctx.anchor(rid, path.split("::", 2)[2], f.body(path))
        if b:
            ctx.saw(b)
            cs = b.calls_to(callee)
            ok = len(cs) == 1 and peel(cs[0].args[1]) == P(2) and count_range(b, [cs[0].bb]) == (1, 1)
            ctx.ob(rid, path.split("::", 2)[2] + "|forwards", ok, "%s must forward the observed value unchanged, once" % path, site=b.raw["span"]["at"])


def rule_R5(ctx, f):
    rid = "R5"
    ctx.rule(rid, "cumulative assembly in HistogramCore::proto: inside the loop over all upper_bounds the running sum is increased by the drained count of bucket i BEFORE it is "
                  "stored with set_cumulative_count; set_upper_bound receives the bound of the same iteration; set_bucket receives the vector holding one Bucket per iteration")
    b = ctx.anchor(rid, "HistogramCore::proto", f.body(H + "HistogramCore::proto"))
    if not b:
        return
    ctx.saw(b)
    from . import hist_conc as _hcc
    from pvrules.rules import elem_src
    b = _hcc.proto_body(f, b)      # `zip(..).map(|..| ..).collect()` written out as a loop
    from pvrules.rules import field_sets
    sc = field_sets(b, "Bucket", "cumulative_count", ["Bucket::set_cumulative_count", "set_cumulative_count"])
    su = field_sets(b, "Bucket", "upper_bound", ["Bucket::set_upper_bound", "set_upper_bound"])
    ok = len(sc) == 1 and len(su) == 1
    ctx.ob(rid, "proto|setters", ok, "one set_cumulative_count and one set_upper_bound site expected", site=b.raw["span"]["at"])
    if not ok:
        return
    ub = elem_of(peel(su[0].args[1]))
    okb = bool(ub) and peel(ub[0])[0] == "field" and peel(ub[0])[2] == "upper_bounds" and "enumerate" in ub[1] and ub[2] == ["1"] and not [a for a in ub[1] if a not in ("iter", "into_iter", "enumerate")]
    lockstep = None
    if not okb:
        # the bound as one component of a lock-step walk: upper_bounds.iter().zip(cold.buckets.iter().zip(hot.buckets.iter()))
        es = elem_src(peel(su[0].args[1]))
        if es and not es[2] and peel(es[0])[0] == "field" and peel(es[0])[2] == "upper_bounds" and not [a for a in es[1] if a not in ("zip", "iter", "into_iter")]:
            okb, lockstep = True, es[3]
            ub = (es[0], es[1], es[2])
    ctx.ob(rid, "proto|bound-of-iteration", okb, "set_upper_bound must receive the bound yielded by the enumeration of all upper_bounds (found %s)" % show(su[0].args[1]), site=su[0].span)
    cum = peel(sc[0].args[1])
    okc = cum[0] == "var"
    if okc:
        alts = b.var_alts(cum[1])
        adds = [a for a in alts if (a[0] == "binop" and a[1] == "Add") or (a[0] == "field" and a[1][0] == "binop" and a[1][1] in ("AddWithOverflow", "Add"))]
        zero = [a for a in alts if a[0] == "const" and const_int(a) == 0]
        okc = len(adds) == 1 and len(zero) == 1 and len(alts) == 2
        if okc:
            add = adds[0] if adds[0][0] == "binop" else adds[0][1]
            other = [x for x in (add[2], add[3]) if peel(x) != cum]
            okc = len(other) == 1 and is_call(peel(other[0], transparent=[]), ["AtomicU64::swap", "Atomic::get"])
            # the update happens before set_cumulative_count within the iteration
            upd = [d for d in b.defs()[cum[1]] if d[0] == "assign" and b.term_rvalue(d[3]) in (adds[0],)]
            okc = okc and len(upd) == 1 and b.dominates(upd[0][1], sc[0].bb) and (upd[0][1] != sc[0].bb or True)
            if okc:
                sw = peel(other[0], transparent=[])
                idx = peel(sw[2][0], transparent=[])
                # drained bucket index is the enumeration index of the same loop (or the cell of the same lock-step iteration step)
                if lockstep is not None:
                    es2 = elem_src(peel(sw[2][0]))
                    okc = bool(es2) and es2[3] == lockstep and peel(es2[0])[0] == "field" and peel(es2[0])[2] == "buckets"
                else:
                    okc = is_call(idx, "Index::index") and (lambda e2: bool(e2) and e2[2] == ["0"] and e2[0] == ub[0])(elem_of(peel(idx[2][1])))
    ctx.ob(rid, "proto|running-sum-before-store", okc, "the cumulative count must be the running sum updated with bucket i's drained count before it is stored for bound i (found %s)" % show(sc[0].args[1]), site=sc[0].span)
    same = peel(sc[0].args[0]) == peel(su[0].args[0])
    pushes = [c for c in b.calls_to("Vec::push") if peel(c.args[1]) == peel(sc[0].args[0])]
    sb = b.calls_to(["set_bucket"])
    okp = same and len(pushes) == 1 and len(sb) == 1 and peel(sb[0].args[1]) == peel(pushes[0].args[0]) and sb[0].bb not in b.reach(pushes[0].bb, avoid_blocks=[]) - b.reach(sb[0].bb) or (same and len(pushes) == 1 and len(sb) == 1 and peel(sb[0].args[1]) == peel(pushes[0].args[0]))
    if okp:
        # one Bucket per bound: no path through the loop body reaches the next bound without the push (an empty bucket is still reported)
        from . import hash_common as hcm_
        okp = hcm_.every_element(b, pushes[0], via=su[0]) is True and sb[0].bb not in b.reach(pushes[0].bb, avoid_blocks=[sb[0].bb]) - {sb[0].bb} and count_range(b, [sb[0].bb]) == (1, 1)
    ctx.ob(rid, "proto|one-bucket-per-bound", okp, "each iteration pushes the Bucket it filled; set_bucket receives that vector", site=sb[0].span if sb else b.raw["span"]["at"])


def rule_R6(ctx, f):
    rid = "R6"
    ctx.rule(rid, "helpers: linear_buckets rejects count < 1 and width <= 0; exponential_buckets rejects count < 1, start <= 0 and factor <= 1 (each guard's true edge returns Err)")
    table = {"linear_buckets": [("Lt", 3, 1), ("Le", 2, 0)], "exponential_buckets": [("Lt", 3, 1), ("Le", 1, 0), ("Le", 2, 1)]}
    for fn, guards in table.items():
        b = ctx.anchor(rid, fn, f.body(H + fn))
        if not b:
            continue
        ctx.saw(b)
        _, okb = result_assign_blocks(b)
        for op, param, k in guards:
            found = False
            for bi in b.reachable_blocks():
                be = b.bool_edges(bi)
                if not (be and be[0][0] == "binop"):
                    continue
                op2, x_, y_ = be[0][1], be[0][2], be[0][3]
                # the same set of rejected values written differently: `k > x` for `x < k`; for an unsigned x, `x == 0` / `x <= 0` for `x < 1`
                if peel(y_) == P(param) and const_int(x_) is not None and op2 in ("Gt", "Ge", "Lt", "Le"):
                    op2, x_, y_ = {"Gt": "Lt", "Ge": "Le", "Lt": "Gt", "Le": "Ge"}[op2], y_, x_
                unsigned = b.local_ty(param).startswith("u")
                same = (op2 == op and const_int(y_) == k)
                if op == "Lt" and unsigned and k == 1:
                    same = same or (op2 in ("Eq", "Le") and const_int(y_) == 0)
                if op == "Le" and not b.local_ty(param).startswith("f"):
                    same = same or (op2 == "Lt" and const_int(y_) == k + 1)
                if peel(x_) == P(param) and same:
                    found = rejecting(b, be[1]) and all(b.edge_dominates(bi, be[2], x) for x in okb)
            ctx.ob(rid, "%s|guard-arg%d-%s-%s" % (fn, param, op, k), found, "%s must return Err when argument %d %s %s" % (fn, param, {"Lt": "<", "Le": "<="}[op], k), site=b.raw["span"]["at"])


def rule_R7(ctx, f):
    rid = "R7"
    ctx.rule(rid, "every construction path passes the gate: HistogramCore::new calls check_and_adjust_buckets(opts.buckets)? and stores its result as upper_bounds; "
                  "the HistogramCore aggregate is built nowhere else; the shards get one bucket cell per accepted bound")
    b = ctx.anchor(rid, "HistogramCore::new", f.body(H + "HistogramCore::new"))
    if not b:
        return
    ctx.saw(b)
    cs = b.calls_to("check_and_adjust_buckets")
    ok = len(cs) == 1 and peel(cs[0].args[0]) == ("field", ("deref", P(1)), "buckets") and try_continue_block(b, cs[0]) is not None
    ctx.ob(rid, "new|passes-gate", ok, "HistogramCore::new must pass opts.buckets through check_and_adjust_buckets with `?`", site=cs[0].span if cs else b.raw["span"]["at"])
    aggs = [a for t in ok_payloads(b) for a in find_aggs(t, "HistogramCore::HistogramCore")]
    ok = len(aggs) == 1 and len(cs) == 1 and peel(agg_field(aggs[0], "upper_bounds")) == cs[0].result_term()
    ctx.ob(rid, "new|stores-accepted-bounds", ok, "upper_bounds must be exactly the accepted (adjusted) list", site=b.raw["span"]["at"])
    if len(cs) == 1:
        sh = b.calls_to("Shard::new")
        okn = len(sh) == 2 and all(is_call(peel(c.args[0]), "Vec::len") and peel(peel(c.args[0])[2][0]) == cs[0].result_term() for c in sh)
        ctx.ob(rid, "new|one-cell-per-bound", okn, "each shard must get upper_bounds.len() bucket cells", site=b.raw["span"]["at"])
    others = []
    for k in f.order:
        bb = f.bodies[k]
        if bb.path == b.path or bb.path.endswith("as std::clone::Clone>::clone"):
            continue
        for bi in bb.reachable_blocks():
            for st in bb.blocks[bi]["stmts"]:
                if st["k"] == "assign" and st["rv"]["k"] == "agg" and st["rv"].get("adt") == "prometheus::histogram::HistogramCore":
                    others.append(bb.path)
    ctx.ob(rid, "HistogramCore|built-only-in-new", not others, "HistogramCore must be built only in HistogramCore::new (also in %s)" % others)
    lc = ctx.anchor(rid, "LocalHistogramCore::new", f.body(H + "LocalHistogramCore::new"))
    if lc:
        ctx.saw(lc)
        r = lc.term_local(0)
        cnts = agg_field(r, "counts") if r[0] == "agg" else None
        ok = cnts is not None and any(is_call(s, ["Vec::len", "slice::len"]) and peel(s[2][0])[0] == "field" and peel(s[2][0])[2] == "upper_bounds" for s in subterms(cnts) if isinstance(s, tuple) and s and s[0] == "call")
        ctx.ob(rid, "LocalHistogramCore::new|counts-len", ok, "a local histogram must have one local counter per bound of its histogram", site=lc.raw["span"]["at"])


def run(ctx):
    f = ctx.facts("default")
    ctx.run_rule("R1", lambda c: rule_R1_R2(c, f))
    ctx.run_rule("R3", rule_R3, f)
    ctx.run_rule("R4", rule_R4, f)
    ctx.run_rule("R5", rule_R5, f)
    ctx.run_rule("R6", rule_R6, f)
    ctx.run_rule("R7", rule_R7, f)
    # the reported count/sum/buckets of a LATER collection, and of histograms fed by local flushes, rest on the conservation rules of C03
    from . import C06, hist_conc
    ctx.rule("R8", "what one collection drains is merged unchanged into the hot shard (shared with C03.R1-R3) and a local batch is handed over as claimed (C03.R2): later collections and "
                   "local histograms report the same counts and sum as direct observations")
    ctx.run_rule("R8", lambda c: C06._as(c, "R8", lambda s: hist_conc.rule_C03(s, f)))
    # "a sample count equal to the number of observations" also for histograms fed by local ones: a local batch is handed over once (clone starts cleared, flush clears)
    from . import C12
    ctx.rule("R9", "a local histogram hands each observation over exactly once (shared with C12.L5): flush clears, a clone starts cleared, Drop flushes")
    ctx.run_rule("R9", lambda c: C06._as(c, "R9", lambda s: C12.rule_local_histogram(s, f, "L5")))
    if ctx.tier == "thorough":
        g = ctx.facts("plain")
        ctx.run_rule("R1@plain", lambda c: rule_R1_R2(c, g))
        ctx.run_rule("R4@plain", lambda c: rule_R4(c, g))
