"""Rules about the children map of a metric vector (C10; R2 is also a necessary condition of C01 and C05)."""
import re
from pvrules.mir import is_call, peel, show, strip_generics, subterms
from pvrules.rules import SELF_FIELD, count_range, result_assign_blocks, try_continue_block

MV = "prometheus::vec::MetricVecCore::"
P1, P2, P3 = ("param", 1), ("param", 2), ("param", 3)
CHILDREN = SELF_FIELD("children")


def children_wrapper_field(f):
    """None when MetricVecCore.children is the RwLock itself; the field name when it is a crate-private struct whose only field is that RwLock
    (`struct Children<M> { map: RwLock<HashMap<u64, M, ..>> }`, its methods expanded in place); False when it is neither."""
    adt = f.adt("prometheus::vec::MetricVecCore")
    if not adt:
        return False
    ty = {x["name"]: x for x in adt["variants"][0]["fields"]}.get("children", {}).get("ty", "")
    if "RwLock<" in ty and "HashMap<u64" in ty:
        return None
    w = f.adt(re.sub(r"<.*$", "", ty))
    if w and len(w["variants"]) == 1 and len(w["variants"][0]["fields"]) == 1:
        fl = w["variants"][0]["fields"][0]
        if "RwLock<" in fl["ty"] and "HashMap<u64" in fl["ty"] and fl.get("vis") != "pub":
            return fl["name"]
    return False


def is_children_lock(f, t):
    """t (receiver of read()/write()) is the lock of self.children."""
    wf = children_wrapper_field(f)
    t = peel(t)
    if wf is None:
        return t == CHILDREN
    if wf is False:
        return False
    return isinstance(t, tuple) and len(t) == 3 and t[0] == "field" and t[2] == wf and peel(t[1]) == CHILDREN
GUARD_T = ["Deref::deref", "DerefMut::deref_mut"]


def lock_calls(b):
    return [c for c in b.calls() if c.matches(["RwLock::read", "RwLock::write", "RwLock::upgradable_read", "RwLock::try_read", "RwLock::try_write"])]


def guard_of(t):
    """The lock-acquisition call term a map receiver is derived from (through guard deref), else None."""
    t = peel(t, transparent=GUARD_T)
    if is_call(t, ["RwLock::read", "RwLock::write"]):
        return t
    return None


def guard_release_blocks(b, lock_call):
    """Blocks that release the guard produced by lock_call: Drop terminators on a local holding it, or a move of it into a call
    (mem::drop).  Moves of the guard between locals are followed transitively."""
    res = []
    dest = lock_call.dest
    if dest["p"]:
        return res
    holders = {dest["l"]}
    changed = True
    while changed:
        changed = False
        for ol, ds in b.defs().items():
            if ol in holders:
                continue
            for d in ds:
                if d[0] == "assign" and d[3]["k"] == "use":
                    op = d[3]["ops"][0]
                    if op["k"] == "move" and op["pl"]["l"] in holders and not op["pl"]["p"]:
                        holders.add(ol)
                        changed = True
    for bi in b.reachable_blocks():
        t = b.blocks[bi]["term"]
        if t["k"] == "drop" and t["pl"]["l"] in holders and not t["pl"]["p"]:
            res.append(bi)
        if t["k"] == "call":
            for a in t["args"]:
                if a["k"] == "move" and a["pl"]["l"] in holders and not a["pl"]["p"]:
                    res.append(bi)
    return res


def rule_double_checked_creation(ctx, f, rid):
    """C10.R2: creation of a child happens under ONE write guard that is acquired first, re-checks the key under that guard,
    returns the existing child on a hit without inserting, inserts under the same guard, and returns the inserted child."""
    ctx.rule(rid, "double-checked creation: get_or_create_metric acquires the children write lock before anything else, looks the hash up "
                  "under that guard, returns the existing child on a hit (no build, no insert), otherwise builds, inserts under the same guard "
                  "and returns the very child it inserted — so two racing first requests yield one child")
    b = ctx.anchor(rid, "get_or_create_metric", f.body(MV + "get_or_create_metric"))
    if not b:
        return
    ctx.saw(b)
    locks = lock_calls(b)
    ok = len(locks) == 1 and locks[0].matches("RwLock::write") and is_children_lock(f, locks[0].args[0])
    ctx.ob(rid, "get_or_create_metric|one-write-guard", ok, "exactly one acquisition, the write lock of self.children, is expected (found %s)" % locks, site=b.raw["span"]["at"])
    if not ok:
        return
    w = locks[0]
    gets = [c for c in b.calls_to(["HashMap::get", "HashMap::contains_key", "HashMap::entry", "HashMap::get_mut"]) if guard_of(c.args[0]) is not None]
    builds = b.calls_to("MetricVecBuilder::build")
    ins = b.calls_to(["HashMap::insert", "VacantEntry::insert", "Entry::or_insert", "Entry::or_insert_with"])
    ctx.ob(rid, "get_or_create_metric|shape", len(gets) >= 1 and len(builds) == 1 and len(ins) == 1,
           "a lookup under the guard, one build and one insert are expected (found %d/%d/%d)" % (len(gets), len(builds), len(ins)), site=w.span)
    if not (gets and len(builds) == 1 and len(ins) == 1):
        return
    g, bc, ic = gets[0], builds[0], ins[0]
    ctx.ob(rid, "get_or_create_metric|lock-first", all(b.dominates(w.bb, c.bb) for c in (g, bc, ic)) and w.bb != g.bb,
           "the write lock must be acquired before the lookup, the build and the insert", site=w.span)
    ctx.ob(rid, "get_or_create_metric|recheck-under-guard", guard_of(g.args[0]) == w.result_term() and peel(g.args[1]) == P2 and b.dominates(g.bb, bc.bb),
           "the key must be looked up again under the write guard before a child is built (found lookup of %s)" % show(g.args[1]), site=g.span)
    ctx.ob(rid, "get_or_create_metric|insert-under-guard", guard_of(ic.args[0]) == w.result_term() or any(s == w.result_term() for s in subterms(ic.args[0])),
           "the insert must go through the same write guard", site=ic.span)
    # the guard is held from the lookup to the insert: no release between them
    rel = guard_release_blocks(b, w)
    between = set()
    for s in b.succs(g.bb):
        between |= b.reach(s, avoid_blocks=[ic.bb])
    between &= {x for x in b.reachable_blocks() if ic.bb in b.reach(x)}
    ctx.ob(rid, "get_or_create_metric|guard-held", not (set(rel) & between), "the write guard must stay held from the re-check to the insert", site=w.span)
    # hit edge: Some(existing) -> return without build/insert
    hit_ok = False
    # g.result -> (cloned) -> switch on discriminant
    for bi in b.reach(g.bb):
        si = b.switch_info(bi)
        if si and si[0][0] == "discr" and not g.matches("HashMap::entry"):
            src = peel(si[0][1], transparent=["Option::cloned", "Option::copied", "Option::map"])
            if src[0] == "call" and src[3] == g.bb:
                some_t = [t for v, t in si[1] if v == 1]
                tgt_some = some_t[0] if some_t else None
                if tgt_some is None:
                    continue
                r = b.reach(tgt_some)
                hit_ok = bc.bb not in r and ic.bb not in r
                none_t = [t for v, t in si[1] if v == 0] or [si[2]]
                hit_ok = hit_ok and bc.bb in b.reach(none_t[0])
                break
        if si and si[0][0] == "discr" and g.matches("HashMap::entry") and peel(si[0][1], transparent=[]) == g.result_term():
            # match children.entry(hash) { Occupied(e) => existing, Vacant(e) => build + insert }
            arms = [t for v, t in si[1]] + ([si[2]] if b.blocks[si[2]]["term"]["k"] != "unreachable" else [])
            vac = [t for t in arms if bc.bb in b.reach(t) or t == bc.bb]
            occ = [t for t in arms if t not in vac]
            if len(vac) == 1 and len(occ) == 1:
                r = b.reach(occ[0])
                hit_ok = bc.bb not in r and ic.bb not in r and any(c.bb in r for c in b.calls_to(["OccupiedEntry::get", "OccupiedEntry::into_mut", "OccupiedEntry::get_mut"]))
            break
        be = b.bool_edges(bi)
        if be and is_call(be[0], ["HashMap::contains_key"]) and be[0][3] == g.bb:
            r = b.reach(be[1])
            hit_ok = bc.bb not in r and ic.bb not in r
            break
    ctx.ob(rid, "get_or_create_metric|hit-returns-existing", hit_ok, "on a hit under the write guard the existing child must be returned without building or inserting", site=g.span)
    # returned child == inserted child (both are the one build result)
    built = bc.result_term()
    _, okb = result_assign_blocks(b)
    ret_ok = False
    for bi in okb:
        if bi in b.reach(ic.bb):
            for st in b.blocks[bi]["stmts"]:
                if st["k"] == "assign" and st["pl"]["l"] == 0 and st["rv"]["k"] == "agg":
                    ret_ok = peel(b.term_operand(st["rv"]["ops"][0])) == built
    if not ret_ok:
        # the Ok may be built in another local first (the result place of an expanded helper) and moved to the return place: every Ok built after the insertion carries the built child
        from pvrules import seqeval as _sq
        oks = []
        for bi in b.reach(ic.bb):
            for st in b.blocks[bi]["stmts"]:
                if st["k"] == "assign" and not st["pl"]["p"] and st["rv"]["k"] == "agg" and st["rv"].get("agg") == "adt" and st["rv"]["adt"].endswith("result::Result") and st["rv"].get("variant") == "Ok":
                    oks.append(peel(_sq._unwrap_payload(b.term_operand(st["rv"]["ops"][0]), built, b)))
        # `Ok(vacant.insert(child).clone())`: VacantEntry::insert hands back the stored value, which is the built child
        stored = peel(ic.result_term()) if ic.matches("VacantEntry::insert") and peel(ic.args[1]) == built else None
        ret_ok = bool(oks) and all(x == built or (stored is not None and peel(x, transparent=["Clone::clone", "Deref::deref", "DerefMut::deref_mut"]) == stored) for x in oks) \
            and all(v in ("Ok", "Err") for v in b.return_variants_ps(ic.bb))
    ins_val = ic.args[2] if ic.matches("HashMap::insert") else ic.args[1]
    from pvrules import seqeval as _sq2
    ctx.ob(rid, "get_or_create_metric|returns-inserted", ret_ok and (peel(ins_val) == built or peel(_sq2._unwrap_payload(ins_val, built, b)) == built),
           "the child returned after creation must be the one inserted into the map (both clones of the single build result)", site=ic.span)


def rule_all_access_through_lock(ctx, f, rid):
    ctx.rule(rid, "all access through the lock: MetricVecCore.children is an RwLock<HashMap<..>>; every use of the field anywhere in the crate is the "
                  "receiver of read()/write(); every map operation's receiver is derived from such a guard")
    adt = ctx.anchor(rid, "MetricVecCore", f.adt("prometheus::vec::MetricVecCore"))
    if adt:
        fs = {x["name"]: x for x in adt["variants"][0]["fields"]}
        ty = fs.get("children", {}).get("ty", "")
        ctx.ob(rid, "children|type", children_wrapper_field(f) is not False,
               "children must be an RwLock around the map keyed by the 64-bit hash (found %s)" % ty, site=adt["span"]["at"])
        ctx.ob(rid, "children|not-public", fs.get("children", {}).get("vis") != "pub" or adt["vis"] != "pub",
               "the children map must not be reachable from outside the crate (MetricVecCore is crate-private)")
    n = 0
    bad = []

    def strip_refs(t):
        while isinstance(t, tuple) and t and t[0] in ("ref", "rawptr"):
            t = t[1]
        return t
    for k in f.order:
        b = f.bodies[k]
        if b.path.endswith("as std::fmt::Debug>::fmt"):
            continue   # derived Debug formats the RwLock itself (which locks internally)
        for c in b.calls():
            for i, a in enumerate(c.args):
                s = strip_refs(a)
                wf = children_wrapper_field(f)
                if wf and isinstance(s, tuple) and len(s) == 3 and s[0] == "field" and s[2] == wf and isinstance(peel(s[1]), tuple) and len(peel(s[1])) == 3 \
                        and peel(s[1])[0] == "field" and peel(s[1])[2] == "children":
                    s = peel(s[1])     # the lock inside the private wrapper struct
                    n += 1
                    if not (i == 0 and c.matches(["RwLock::read", "RwLock::write"])):
                        bad.append((b, c))
                    continue
                if isinstance(s, tuple) and len(s) == 3 and s[0] == "field" and s[2] == "children" and "MetricVecCore" in _base_ty(b, s):
                    n += 1
                    if not (i == 0 and c.matches(["RwLock::read", "RwLock::write"])) or wf:
                        bad.append((b, c))
        for bi, si, pl, rv in b.stores():
            t = b.term_place(pl)
            if isinstance(t, tuple) and len(t) == 3 and t[0] == "field" and t[2] == "children" and "MetricVecCore" in _base_ty(b, t):
                bad.append((b, None))
    for b, c in bad:
        ctx.ob(rid, "%s|%s" % (strip_generics(b.path), strip_generics(c.callee) if c else "store"), False,
               "self.children is used other than as receiver of read()/write()", site=c.span if c else b.raw["span"]["at"])
    ctx.floor(rid, "children lock acquisitions in the crate", n - len(bad), 6)
    if not bad:
        ctx.ob(rid, "crate-wide", True, "%d uses of the children field, all lock acquisitions" % n)


def _base_ty(b, s):
    # type of the struct whose field is accessed: s = ('field', base, name)
    base = s[1]
    t = base
    while isinstance(t, tuple) and t and t[0] in ("deref", "ref"):
        t = t[1]
    if t[0] == "param":
        return b.local_ty(t[1])
    if t[0] == "call":
        return strip_generics(t[1])
    if t[0] == "field":
        return "MetricVecCore" if t[2] in ("v",) else str(t[2])
    return ""


def rule_no_guard_across_acquisition(ctx, f, rid):
    ctx.rule(rid, "no guard live across an acquisition of the same lock: in get_metric_with_label_values / get_metric_with the read guard is "
                  "released on every path before get_or_create_metric (which takes the write lock) is called; no function acquires the lock twice "
                  "with the first guard still live")
    for m in ("get_metric_with_label_values", "get_metric_with"):
        b = ctx.anchor(rid, m, f.body(MV + m))
        if not b:
            continue
        ctx.saw(b)
        locks = lock_calls(b)
        goc = b.calls_to("MetricVecCore::get_or_create_metric")
        for i, l in enumerate(locks):
            rel = guard_release_blocks(b, l)
            for g in goc:
                if g.bb in b.reach(l.bb):
                    ok = all(g.bb not in b.reach(s, avoid_blocks=rel) for s in b.succs(l.bb))
                    ctx.ob(rid, "%s|guard#%d-released-before-create" % (m, i), ok,
                           "the guard acquired at %s must be dropped on every path before get_or_create_metric takes the write lock (self-deadlock otherwise)" % l.span, site=g.span)
        ctx.ob(rid, m + "|read-only-fast-path", all(l.matches("RwLock::read") for l in locks) and len(locks) <= 1, "the fast path takes at most one read lock", site=b.raw["span"]["at"])
    # crate-wide: two acquisitions of children in one body need the first released
    for k in f.order:
        b = f.bodies[k]
        if "MetricVecCore" not in b.path:
            continue
        locks = [l for l in lock_calls(b) if is_children_lock(f, l.args[0])]
        for i, l1 in enumerate(locks):
            for l2 in locks:
                if l1 is l2 or l2.bb not in b.strictly_after(l1.bb):
                    continue
                rel = guard_release_blocks(b, l1)
                ok = all(l2.bb not in b.reach(s, avoid_blocks=rel) for s in b.succs(l1.bb))
                ctx.ob(rid, "%s|reacquire#%d" % (strip_generics(b.path), i), ok, "a second acquisition of the children lock while the first guard is live", site=l2.span)


def rule_single_critical_section(ctx, f, rid):
    ctx.rule(rid, "single critical section per operation: delete_label_values, delete, reset and collect acquire exactly one guard and perform all "
                  "map work under it (collect iterates inside the guard's live range and emits one sample per child, no filter)")
    table = {
        "delete_label_values": ("RwLock::write", ["HashMap::remove"]),
        "delete": ("RwLock::write", ["HashMap::remove"]),
        "reset": ("RwLock::write", ["HashMap::clear"]),
        "collect": ("RwLock::read", ["HashMap::values", "HashMap::len"]),
    }
    for m, (lk, ops) in table.items():
        b = ctx.anchor(rid, m, f.body(MV + m))
        if not b:
            continue
        ctx.saw(b)
        locks = lock_calls(b)
        ok = len(locks) == 1 and locks[0].matches(lk) and is_children_lock(f, locks[0].args[0]) and count_range(b, [locks[0].bb])[1] == 1
        ctx.ob(rid, m + "|one-guard", ok, "%s must acquire the children lock exactly once with %s (found %s)" % (m, lk.split("::")[1], locks), site=b.raw["span"]["at"])
        if not ok:
            continue
        w = locks[0]
        mops = [c for c in b.calls() if c.matches(["HashMap::remove", "HashMap::clear", "HashMap::values", "HashMap::len", "HashMap::get", "HashMap::insert",
                                                    "HashMap::iter", "HashMap::retain", "HashMap::drain", "HashMap::keys", "HashMap::values_mut", "HashMap::iter_mut"])]
        under = [c for c in mops if guard_of(c.args[0]) == w.result_term()]
        # `mem::take(&mut *guard)` swaps an empty map in: the map is cleared at that point (the old children are merely dropped later)
        takes = [c for c in b.calls() if c.matches(["mem::take", "std::mem::take", "core::mem::take"]) and c.args and guard_of(c.args[0]) == w.result_term()]
        cleared_by_take = "HashMap::clear" in ops and len(takes) == 1 and count_range(b, [takes[0].bb]) == (1, 1)
        ctx.ob(rid, m + "|ops-under-guard", len(under) == len(mops) and (any(c.matches(ops) for c in under) or cleared_by_take),
               "every map operation of %s must go through the one guard (found %d of %d) and include %s" % (m, len(under), len(mops), ops), site=w.span)
        if m in ("delete_label_values", "delete"):
            rm = [c for c in under if c.matches("HashMap::remove")]
            hs = b.calls_to(["MetricVecCore::hash_label_values", "MetricVecCore::hash_labels"])
            ok = len(rm) == 1 and len(hs) == 1 and peel(rm[0].args[1]) == hs[0].result_term() and peel(hs[0].args[1]) == P2
            ctx.ob(rid, m + "|removes-hashed-key", ok, "%s must remove exactly the key hashed from the caller's labels" % m, site=rm[0].span if rm else w.span)
        if m == "collect":
            if not b.calls_to("Vec::push"):
                # `children.values().map(|c| c.metric()).collect()` is the same loop: look at it in its explicit form
                from pvrules import inline
                b2 = inline.desugar_map_collect(f, b)
                if b2 is not None:
                    b = b2
                    locks2 = [c for c in b.calls() if c.matches(["RwLock::read", "RwLock::write"])]
                    w = locks2[0] if len(locks2) == 1 else w
            rel = guard_release_blocks(b, w)
            pushes = b.calls_to("Vec::push")
            mets = b.calls_to(["Metric::metric"])
            ok = len(pushes) == 1 and len(mets) == 1
            if ok:
                from pvrules.rules import elem_of
                e = elem_of(peel(mets[0].args[0]))
                ok = bool(e) and guard_of(e[0]) == w.result_term() and e[1] and e[1][-1] in ("values",) and not [a for a in e[1] if a not in ("values", "into_iter")]
                ok = ok and peel(pushes[0].args[1]) == mets[0].result_term()
                # every child: no path through the loop body skips the push
                from . import hash_common as hc
                ok = ok and hc.every_element(b, pushes[0], via=mets[0]) is True
                # iteration happens before the guard is released
                ok = ok and all(pushes[0].bb not in b.reach(r) for r in rel)
            ctx.ob(rid, "collect|one-sample-per-child", ok, "collect must push child.metric() for every value of the map, under the read guard, without filtering", site=w.span)
