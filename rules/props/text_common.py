"""Rules about the text encoder (C04; the arm<->payload rule is shared with C14.R3, panic-freedom with C17)."""
import re

from pvrules.mir import is_call, peel, show, strip_generics, subterms
from pvrules.rules import const_int, count_range, elem_of, rejecting, try_continue_block

T = "prometheus::encoder::text::"
P = lambda i: ("param", i)  # noqa: E731
DEREFS = ["Deref::deref", "String::as_str", "AsRef::as_ref", "Borrow::borrow"]
PAYLOAD_GETTERS = {"COUNTER": "get_counter", "GAUGE": "get_gauge", "HISTOGRAM": "get_histogram", "SUMMARY": "get_summary", "UNTYPED": "get_untyped"}


def const_str(t):
    """String literal of a term ('"abc"' -> abc) or of a named crate constant (looked up by the caller)."""
    if isinstance(t, tuple) and t and t[0] == "const" and t[1] is not None and t[1].startswith('"'):
        return t[1]
    return None


def metric_type_table(f):
    adt = f.adt("prometheus::proto::MetricType")
    if not adt:
        return {}
    return {int(v["discr"]): v["name"] for v in adt["variants"]}


def arms_of_type_switch(b, f):
    """In encode_impl: (switch block, {variant name: target}, fam term, metric-loop next call)."""
    table = metric_type_table(f)
    for bi in b.reachable_blocks():
        si = b.switch_info(bi)
        if not si:
            continue
        d = si[0]
        if d[0] == "discr":
            d = d[1]
        d = peel(d)
        if is_call(d, ["get_field_type", "MetricFamily::get_field_type", "field_type", "type_"]):
            arms = {}
            for v, t in si[1]:
                arms[table.get(v, str(v))] = t
            return bi, arms, si[2], peel(d[2][0])
    return None, {}, None, None


def exclusive_region(b, tgt, others, stop):
    """Blocks reachable from tgt without passing through `stop` blocks, minus blocks reachable from other arms."""
    r = b.reach(tgt, avoid_blocks=stop)
    for o in others:
        if o != tgt:
            r = r - b.reach(o, avoid_blocks=stop)
    return r


def rule_arm_payload(ctx, f, rid):
    ctx.rule(rid, "arm <-> payload agreement: in TextEncoder::encode_impl the arm of the family-type switch for COUNTER reads only get_counter, GAUGE only "
                  "get_gauge, HISTOGRAM only get_histogram, SUMMARY only get_summary; all five MetricType variants have an arm")
    b = ctx.anchor(rid, "encode_impl", f.body(T + "TextEncoder::encode_impl"))
    if not b:
        return None
    ctx.saw(b)
    sw, arms, other, fam = arms_of_type_switch(b, f)
    ctx.ob(rid, "encode_impl|type-switch", sw is not None, "encode_impl must switch on the family's declared type", site=b.raw["span"]["at"])
    if sw is None:
        return None
    table = metric_type_table(f)
    missing = [n for n in table.values() if n not in arms]
    # one variant may be the `otherwise` target
    ctx.ob(rid, "encode_impl|all-variants", len(missing) <= 1, "every MetricType variant must have an arm (missing %s)" % missing, site=b.span_of_block(sw))
    # the metric loop header: next() over get_metric(fam)
    mnext = [c for c in b.calls_to("Iterator::next") if (lambda e: e and is_call(e[0], ["get_metric"]))(elem_of(("field", ("downcast", c.result_term(), "Some"), "0")))]
    stop = [mnext[0].bb] if mnext else []
    targets = list(arms.values()) + ([other] if other is not None else [])
    for name, tgt in sorted(arms.items()):
        reg = exclusive_region(b, tgt, targets, stop)
        got = sorted({strip_generics(c.callee).split("::")[-1] for c in b.calls() if c.bb in reg and c.matches(list(PAYLOAD_GETTERS.values()))})
        want = PAYLOAD_GETTERS.get(name)
        if name == "UNTYPED":
            ctx.ob(rid, "encode_impl|arm-UNTYPED", got in ([], ["get_untyped"]), "the UNTYPED arm must not read another type's payload (found %s)" % got, site=b.span_of_block(tgt))
        else:
            ctx.ob(rid, "encode_impl|arm-" + name, got == [want], "the %s arm must read exactly the %s payload (found %s)" % (name, want, got), site=b.span_of_block(tgt))
    return b


def impl_param(f, kind):
    """1-based position of the `metric_families` ("families") or the writer ("writer") parameter of TextEncoder::encode_impl, found by TYPE: the function may or
    may not take `&self`, and the writer may be `&mut dyn WriteUtf8` or a generic `&mut W`."""
    b = f.body(T + "TextEncoder::encode_impl")
    if b is None:
        return None
    for i in range(1, b.argc + 1):
        ty = b.local_ty(i)
        if kind == "families" and "MetricFamily]" in ty:
            return i
        if kind == "writer" and ty.startswith("&mut ") and "MetricFamily" not in ty and "TextEncoder" not in ty:
            return i
    return None
