"""Rules about the text encoder (C04; the arm<->payload rule is shared with C14.R3, panic-freedom with C17)."""
import re

from pvrules.mir import is_call, peel, show, strip_generics, subterms
from pvrules.rules import const_int, count_range, elem_of, rejecting, try_continue_block

T = "prometheus::encoder::text::"
P = lambda i: ("param", i)  # noqa: E731
DEREFS = ["Deref::deref", "String::as_str", "AsRef::as_ref", "Borrow::borrow"]
PAYLOAD_GETTERS = {"COUNTER": "get_counter", "GAUGE": "get_gauge", "HISTOGRAM": "get_histogram", "SUMMARY": "get_summary", "UNTYPED": "get_untyped"}


def const_str(t):
    """String literal of a term ('"abc"' -> abc) or of a named crate constant (looked up by the caller)."""
    if isinstance(t, tuple) and t and t[0] == "const" and t[1] is not None and t[1].startswith('"'):
        return t[1]
    return None


def metric_type_table(f):
    adt = f.adt("prometheus::proto::MetricType")
    if not adt:
        return {}
    return {int(v["discr"]): v["name"] for v in adt["variants"]}


def _type_discr(b, bi):
    """The family-type term a switch block decides on (None if it decides on something else)."""
    si = b.switch_info(bi)
    if not si:
        return None
    d = si[0]
    if d[0] == "discr":
        d = d[1]
    d = peel(d)
    return d if is_call(d, ["get_field_type", "MetricFamily::get_field_type", "field_type", "type_"]) else None


def arms_of_type_switch(b, f):
    """In encode_impl: (switch block, {variant name: target}, fam term, metric-loop next call).  The switch meant is the one inside the per-sample
    loop (a match over the type in the header, e.g. for the TYPE word, is not it)."""
    table = metric_type_table(f)
    mnext = [c for c in b.calls_to("Iterator::next") if (lambda e: e and is_call(e[0], ["get_metric"]))(elem_of(("field", ("downcast", c.result_term(), "Some"), "0")))]
    cands = []
    for bi in b.reachable_blocks():
        si = b.switch_info(bi)
        if not si:
            continue
        d = _type_discr(b, bi)
        if d is not None:
            cands.append((bi, si, d))
    inside = [c for c in cands if mnext and b.dominates(mnext[0].bb, c[0])]
    for bi, si, d in (inside or cands):
        arms = {}
        for v, t in si[1]:
            arms[table.get(v, str(v))] = t
        return bi, arms, si[2], peel(d[2][0])
    return None, {}, None, None


def exclusive_region(b, tgt, others, stop):
    """Blocks reachable from tgt without passing through `stop` blocks, minus blocks reachable from other arms."""
    r = b.reach(tgt, avoid_blocks=stop)
    for o in others:
        if o != tgt:
            r = r - b.reach(o, avoid_blocks=stop)
    return r


def variant_region(b, f, sw, name, stop):
    """Blocks executed for a family of type `name`: reachable from the type switch `sw` when every switch on the same family-type value (the first one and
    any later `matches!(metric_type, ..)` / nested match) takes the edge of that variant.  Stops at `stop` (the per-sample loop header)."""
    inv = {v: k for k, v in metric_type_table(f).items()}
    val = inv.get(name)
    d0 = _type_discr(b, sw)
    stop = set(stop)

    def taken(bi):
        si = b.switch_info(bi)
        for v, t in si[1]:
            if v == val:
                return [t]
        return [si[2]]
    def bool_taken(x, region):
        """Edges of a switch on a bool local whose every definition is a literal (`matches!(..)` leaves such a flag): those of the literals assigned inside the region."""
        si = b.switch_info(x)
        d = si[0]
        if not (isinstance(d, tuple) and d and d[0] == "var"):
            return None
        defs = b.defs().get(d[1], [])

        def lit(dd):
            if dd[0] != "assign" or dd[3].get("k") != "use" or dd[3]["ops"][0].get("k") != "const":
                return None
            v_ = dd[3]["ops"][0].get("val")
            if v_ in ("true", "false"):
                return 1 if v_ == "true" else 0
            m_ = re.match(r"^(\d+)_(u|i)(8|16|32|64|128|size)$", str(v_))
            return int(m_.group(1)) if m_ else None
        if not defs or any(lit(dd) is None for dd in defs):
            return None
        vals = {lit(dd) for dd in defs if dd[1] in region}
        out = []
        for v in vals:
            hit = [t for vv, t in si[1] if vv == v]
            out.append(hit[0] if hit else si[2])
        return out
    seen = set()
    while True:
        before = len(seen)
        region = set(seen)
        seen = set()
        work = taken(sw)
        while work:
            x = work.pop()
            if x in seen or x in stop:
                continue
            seen.add(x)
            if b.blocks[x]["term"]["k"] == "switch" and _type_discr(b, x) == d0 and val is not None:
                work.extend(taken(x))
            elif b.blocks[x]["term"]["k"] == "switch" and bool_taken(x, region | seen) is not None:
                work.extend(bool_taken(x, region | seen))
            else:
                work.extend(b.succs(x))
        seen |= region
        if len(seen) == before:
            return seen


def arm_regions(b, f, sw, arms, other, stop):
    """{variant name: blocks that run only for families of that type}: the variant's region minus the regions of the variants that go to a different arm."""
    names = list(metric_type_table(f).values())
    si = b.switch_info(sw)
    tgt = {n: arms.get(n, other) for n in names}
    full = {n: variant_region(b, f, sw, n, stop) for n in names}
    res = {}
    for n in names:
        r = set(full[n])
        for m in names:
            if m != n and tgt[m] != tgt[n]:
                r -= full[m]
        res[n] = r
    return res


def value_in_region(b, t, region):
    """A value term as seen inside `region`: a local assigned on several paths is resolved to the one definition that lies in the region."""
    t0 = peel(t, transparent=[])
    if isinstance(t0, tuple) and t0 and t0[0] == "var":
        alts = [b.term_rvalue(d[3], (d[1], d[2])) for d in b.defs().get(t0[1], []) if d[0] == "assign" and d[1] in region]
        alts += [b.term_call(d[1]) for d in b.defs().get(t0[1], []) if d[0] == "call" and d[1] in region]
        if len(alts) == 1:
            return alts[0]
    return t


def type_word_table(b, f, t):
    """t (a value written to the sink) is the lower-case name of the family's declared type chosen by a match over that type: a local assigned a string
    literal on each edge of a switch on the family type, the literal being the lower-cased variant name, all variants covered."""
    t0 = peel(t, transparent=DEREFS)
    if not (isinstance(t0, tuple) and t0 and t0[0] == "var"):
        return False
    table = metric_type_table(f)
    defs = b.defs().get(t0[1], [])
    if not defs or any(d[0] != "assign" for d in defs):
        return False
    sws = [x for x in b.reachable_blocks() if b.blocks[x]["term"]["k"] == "switch" and _type_discr(b, x) is not None]
    covered = set()
    for d in defs:
        lit = const_str(peel(b.term_rvalue(d[3], (d[1], d[2]))))
        if lit is None:
            return False
        names = set()
        for x in sws:
            si = b.switch_info(x)
            listed = {v for v, _ in si[1]}
            for v, tgt in si[1]:
                if b.edge_dominates(x, tgt, d[1]) and len([1 for vv, tt in si[1] if tt == tgt]) == 1:
                    names.add(table.get(v))
            rest = [n for v, n in table.items() if v not in listed]
            if len(rest) == 1 and si[2] not in [tt for _, tt in si[1]] and b.edge_dominates(x, si[2], d[1]):
                names.add(rest[0])
        if len(names) != 1 or None in names or lit != '"%s"' % list(names)[0].lower():
            return False
        covered |= names
    return covered == set(table.values())


def rule_arm_payload(ctx, f, rid):
    ctx.rule(rid, "arm <-> payload agreement: in TextEncoder::encode_impl the arm of the family-type switch for COUNTER reads only get_counter, GAUGE only "
                  "get_gauge, HISTOGRAM only get_histogram, SUMMARY only get_summary; all five MetricType variants have an arm")
    b = ctx.anchor(rid, "encode_impl", f.body(T + "TextEncoder::encode_impl"))
    if not b:
        return None
    ctx.saw(b)
    sw, arms, other, fam = arms_of_type_switch(b, f)
    ctx.ob(rid, "encode_impl|type-switch", sw is not None, "encode_impl must switch on the family's declared type", site=b.raw["span"]["at"])
    if sw is None:
        return None
    table = metric_type_table(f)
    missing = [n for n in table.values() if n not in arms]
    # one variant may be the `otherwise` target
    ctx.ob(rid, "encode_impl|all-variants", len(missing) <= 1, "every MetricType variant must have an arm (missing %s)" % missing, site=b.span_of_block(sw))
    # the metric loop header: next() over get_metric(fam)
    mnext = [c for c in b.calls_to("Iterator::next") if (lambda e: e and is_call(e[0], ["get_metric"]))(elem_of(("field", ("downcast", c.result_term(), "Some"), "0")))]
    stop = [mnext[0].bb] if mnext else []
    regions = arm_regions(b, f, sw, arms, other, stop)
    for name, tgt in sorted(arms.items()):
        reg = regions.get(name, set())
        got = sorted({strip_generics(c.callee).split("::")[-1] for c in b.calls() if c.bb in reg and c.matches(list(PAYLOAD_GETTERS.values()))})
        want = PAYLOAD_GETTERS.get(name)
        if name == "UNTYPED":
            ctx.ob(rid, "encode_impl|arm-UNTYPED", got in ([], ["get_untyped"]), "the UNTYPED arm must not read another type's payload (found %s)" % got, site=b.span_of_block(tgt))
        else:
            ctx.ob(rid, "encode_impl|arm-" + name, got == [want], "the %s arm must read exactly the %s payload (found %s)" % (name, want, got), site=b.span_of_block(tgt))
    return b


def impl_param(f, kind):
    """1-based position of the `metric_families` ("families") or the writer ("writer") parameter of TextEncoder::encode_impl, found by TYPE: the function may or
    may not take `&self`, and the writer may be `&mut dyn WriteUtf8` or a generic `&mut W`."""
    b = f.body(T + "TextEncoder::encode_impl")
    if b is None:
        return None
    for i in range(1, b.argc + 1):
        ty = b.local_ty(i)
        if kind == "families" and "MetricFamily]" in ty:
            return i
        if kind == "writer" and ty.startswith("&mut ") and "MetricFamily" not in ty and "TextEncoder" not in ty:
            return i
    return None
