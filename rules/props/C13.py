"""C13 — Protobuf exposition decodes to the gathered state (structural clause set, DESIGN §4.C13)."""
import os
import re

from pvrules.mir import is_call, peel, show, strip_generics, subterms
from pvrules.rules import const_int, count_range, elem_of, try_continue_block

LEVEL = "other"
EXPLANATION = ("Static rules: ProtobufEncoder::encode checks each family (check_metric_family?) and then writes it with exactly one Message::write_length_delimited_to_writer, for all "
               "families in order, with no other write (R1); the writer's, the size computation's and the reader's tables of the generated code agree with proto/proto_model.proto — "
               "for all 10 messages every field is written with the .proto's field number by the wire function of the .proto's type, sized by the matching size function and read "
               "back under the tag (number<<3 | wire type) by the matching read function; enum discriminants equal the .proto numbers (R2); the hand-written accessors of "
               "src/proto_ext.rs touch the field of the same name (R3). Value-level equality after an independent decoder is not decided (it depends on rust-protobuf).")
ASSUMPTIONS = ["rust-protobuf's CodedOutputStream/rt functions implement the protobuf wire format for the type in their name", "value-level equality after decoding is not decided"]
P = lambda i: ("param", i)  # noqa: E731

WRITE_FN = {"string": "write_string", "double": "write_double", "uint64": "write_uint64", "int64": "write_int64", "enum": "write_enum", "message": "write_message_field_with_cached_size",
            "float": "write_float", "uint32": "write_uint32", "int32": "write_int32", "bool": "write_bool", "sint64": "write_sint64", "bytes": "write_bytes"}
SIZE_FN = {"string": "string_size", "uint64": "uint64_size", "int64": "int64_size", "enum": "int32_size", "uint32": "uint32_size", "int32": "int32_size", "sint64": "sint64_size", "bytes": "bytes_size"}
READ_FN = {"string": "read_string", "double": "read_double", "uint64": "read_uint64", "int64": "read_int64", "enum": "read_enum_or_unknown", "message": "read_message|read_singular_message_into_field",
           "float": "read_float", "uint32": "read_uint32", "int32": "read_int32", "bool": "read_bool", "sint64": "read_sint64", "bytes": "read_bytes"}
WIRE = {"string": 2, "double": 1, "uint64": 0, "int64": 0, "enum": 0, "message": 2, "float": 5, "uint32": 0, "int32": 0, "bool": 0, "sint64": 0, "bytes": 2}
FIXED_SIZE = {"double": 8, "float": 4, "bool": 1}
SCALARS = set(WRITE_FN) - {"enum", "message"}


def parse_proto(path):
    """Tiny parser for the subset of proto2 used by proto_model.proto: messages with scalar / message / enum fields, and enums."""
    src = open(path).read()
    src = re.sub(r"//[^\n]*", "", src)
    msgs, enums = {}, {}
    for m in re.finditer(r"\benum\s+(\w+)\s*\{([^}]*)\}", src):
        enums[m.group(1)] = {n: int(v) for n, v in re.findall(r"(\w+)\s*=\s*(\d+)\s*;", m.group(2))}
    for m in re.finditer(r"\bmessage\s+(\w+)\s*\{([^}]*)\}", src):
        fields = []
        for lab, ty, name, num in re.findall(r"\b(optional|repeated|required)\s+([\w.]+)\s+(\w+)\s*=\s*(\d+)\s*;", m.group(2)):
            fields.append({"label": lab, "type": ty, "name": name, "number": int(num)})
        msgs[m.group(1)] = fields
    for fs in msgs.values():
        for fl in fs:
            fl["kind"] = fl["type"] if fl["type"] in SCALARS else ("enum" if fl["type"] in enums else "message")
    return msgs, enums


def rust_field(name):
    return name + "_" if name in ("type", "match", "ref", "self", "mod", "fn") else name


def self_field_of(t):
    """Name of the self field a value term is read from."""
    for s in subterms(t):
        if isinstance(s, tuple) and len(s) == 3 and s[0] == "field" and s[1] == ("deref", P(1)):
            return s[2]
    return None


def real_guards(b, bb):
    """Discriminant terms of the branching blocks that dominate bb and can bypass it (conditions under which bb runs).
    (Dominance-based on purpose: transitive control dependence would chain through the `?` of every earlier field's write.)"""
    res = []
    for bi in b.reachable_blocks():
        if bi == bb or not b.dominates(bi, bb):
            continue
        si = b.switch_info(bi)
        if not si:
            continue
        succs = [t for v, t in si[1]] + [si[2]]
        if any(bb not in b.reach(t, avoid_blocks=[bi]) for t in succs if b.blocks[t]["term"]["k"] != "unreachable"):
            res.append(si[0])
    return res


def presence_edges(b):
    """(field, branching block, successor taken when the field is present) for every branch of b that tests only the presence of one field of self."""
    out = []
    tr = ["MessageField::as_ref", "Option::as_ref", "Option::as_deref", "Deref::deref"]
    for bi in b.reachable_blocks():
        si = b.switch_info(bi)
        if si and si[0][0] == "discr":
            t = peel(si[0][1], transparent=tr)
            if _pure_path(t):
                some = [x for v, x in si[1] if v == 1]
                if some:
                    out.append((self_field_of(t), bi, some[0]))
                elif len(si[1]) == 1 and si[1][0][0] == 0:
                    out.append((self_field_of(t), bi, si[2]))
            continue
        be = b.bool_edges(bi)
        if be and is_call(be[0], ["Option::is_some", "MessageField::is_some", "Option::is_none", "MessageField::is_none"]) and be[0][2]:
            t = peel(be[0][2][0], transparent=tr)
            if _pure_path(t):
                out.append((self_field_of(t), bi, be[2] if strip_generics(be[0][1]).endswith("is_none") else be[1]))
    return out


def _pure_path(t):
    """self.<field> possibly behind references: no operator, constant, downcast or call."""
    while isinstance(t, tuple) and t and t[0] in ("ref", "deref"):
        t = t[1]
    return isinstance(t, tuple) and len(t) == 3 and t[0] == "field" and t[1] == ("deref", P(1))


def guard_ok(g, fld):
    """A guard that only tests presence of the same field, iterates it, or propagates an earlier write error."""
    t = g[1] if g[0] == "discr" else g
    t = peel(t, transparent=["MessageField::as_ref", "Option::as_ref", "Option::as_deref", "Deref::deref"])
    if is_call(t, "Try::branch"):
        return True
    if is_call(t, "Iterator::next"):
        e = elem_of(("field", ("downcast", t, "Some"), "0"))
        return bool(e) and self_field_of(e[0]) is not None and not [a for a in e[1] if a not in ("into_iter", "iter")]
    if is_call(t, ["Option::is_some", "MessageField::is_some"]):
        t = peel(t[2][0], transparent=["MessageField::as_ref", "Option::as_ref", "Option::as_deref", "Deref::deref"]) if t[2] else None
        return g[0] != "discr" and _pure_path(t) and self_field_of(t) == fld
    # `if let Some(v) = self.f` / `self.f.as_ref()`: the discriminant of the field itself, nothing computed from its value
    return g[0] == "discr" and _pure_path(t) and self_field_of(t) == fld


def _shared_stream_form(ctx, rid, b, nx, fam, ck, other):
    """One CodedOutputStream over the caller's writer for the whole exposition: created before the loop, every family written into it by one
    write_length_delimited_to (the same framing routine of rust-protobuf), flushed -- with the error propagated -- on every path to Ok.  Records the R1 obligations."""
    from pvrules.rules import result_assign_blocks
    news = [c for c in other if c.matches("CodedOutputStream::new")]
    wrs = [c for c in other if c.matches("Message::write_length_delimited_to")]
    fl = [c for c in other if c.matches("CodedOutputStream::flush")]
    rest = [c for c in other if c not in news + wrs + fl and not c.matches(["CodedOutputStream::total_bytes_written"])]     # (a read-only position query writes nothing)
    if len(news) != 1 or len(wrs) != 1 or not fl:
        return False
    os_ = news[0].result_term()
    on_os = lambda c: any(s_ == os_ for s_ in subterms(c.args[1] if c.matches("Message::write_length_delimited_to") else c.args[0]))
    ok = not rest and any(s_ == P(3) for s_ in subterms(news[0].args[0])) and b.dominates(news[0].bb, nx.bb) and news[0].bb not in b.reach(nx.target) \
        and on_os(wrs[0]) and all(on_os(c) for c in fl)
    ctx.ob(rid, "encode|one-delimited-write", ok,
           "each family must be written by exactly one write_length_delimited_to into the one stream created over the caller's writer before the loop, and by nothing else "
           "(found %d streams, %d delimited writes, other writes %s)" % (len(news), len(wrs), [strip_generics(c.callee) for c in rest]), site=b.raw["span"]["at"])
    if not ok:
        return True
    cont = try_continue_block(b, ck)
    if cont is None:
        # `if let Err(e) = check(mf) { ..; return Err(e) }`: the Ok arm of the switch on the check's result
        si_c = b.switch_info(ck.target) if ck.target is not None else None
        if si_c and si_c[0] == ("discr", ck.result_term()):
            okt = [t for v, t in si_c[1] if v == 0]
            errt = [t for v, t in si_c[1] if v == 1]
            from pvrules.rules import rejecting
            if okt and errt and rejecting(b, errt[0]):
                cont = okt[0]
    si = b.switch_info(nx.target)
    body_entry = [t for v, t in si[1] if v == 1][0]
    w = wrs[0]
    ok2 = peel(ck.args[0]) == fam and peel(w.args[0]) == fam and cont is not None and b.dominates(cont, w.bb) \
        and b.all_paths_pass(body_entry, [w.bb], dst_set={nx.bb}) and try_continue_block(b, w) is not None
    ctx.ob(rid, "encode|check-then-write", ok2, "the check must precede the write of the same family into the caller's writer, and write errors must propagate", site=w.span)
    _, okb = result_assign_blocks(b)
    after = b.reach(w.bb)
    oks = [x for x in okb if x in after]
    flushed = bool(oks) and all(try_continue_block(b, c) is not None for c in fl) and b.all_paths_pass(w.target, [c.bb for c in fl], dst_set=set(oks))
    ctx.ob(rid, "encode|stream-flushed", flushed, "what was written into the shared stream must be flushed to the caller's writer, with the error propagated, on every path that returns Ok", site=fl[0].span)
    return True


def _family_tests(c, fam):
    """The two fail-fast tests on the family `fam` in body c: {"metric": (rejecting?, test block, reject edge), "name": (..)}."""
    from pvrules.rules import rejecting
    tests = {}

    def of_fam(src, what):
        return is_call(src, what) and peel(src[2][0], transparent=["Deref::deref"]) == fam
    for bi in c.reachable_blocks():
        be = c.bool_edges(bi)
        if be and is_call(be[0], ["slice::is_empty", "str::is_empty", "Vec::is_empty", "String::is_empty"]):
            src = peel(be[0][2][0])
            if of_fam(src, ["get_metric"]):
                tests["metric"] = (rejecting(c, be[1]), bi, be[1])
            if of_fam(src, ["MetricFamily::name", "get_name"]):
                tests["name"] = (rejecting(c, be[1]), bi, be[1])
        if be and be[0][0] == "binop" and be[0][1] in ("Eq", "Ne"):
            # `x.len() == 0`
            lens = [z for z in (be[0][2], be[0][3]) if is_call(peel(z), ["slice::len", "Vec::len", "str::len", "String::len"])]
            zeros = [z for z in (be[0][2], be[0][3]) if const_int(z) == 0]
            if len(lens) == 1 and len(zeros) == 1:
                src = peel(peel(lens[0])[2][0])
                edge = be[1] if be[0][1] == "Eq" else be[2]
                if of_fam(src, ["get_metric"]):
                    tests["metric"] = (rejecting(c, edge), bi, edge)
                if of_fam(src, ["MetricFamily::name", "get_name"]):
                    tests["name"] = (rejecting(c, edge), bi, edge)
    return tests


def rule_R1(ctx, f):
    rid = "R1"
    ctx.rule(rid, "framing: in ProtobufEncoder::encode every family of the slice, in order, passes check_metric_family(mf)? and is then written by exactly one "
                  "Message::write_length_delimited_to_writer(mf, writer)?; nothing else is written; check_metric_family rejects a family without samples or without a name")
    b = ctx.anchor(rid, "ProtobufEncoder::encode", f.body("<prometheus::encoder::pb::ProtobufEncoder as prometheus::encoder::Encoder>::encode"))
    if b:
        ctx.saw(b)
        nx = [c for c in b.calls_to("Iterator::next") if (lambda e: e and e[0] == P(2))(elem_of(("field", ("downcast", c.result_term(), "Some"), "0")))]
        ok = len(nx) == 1 and not [a for a in elem_of(("field", ("downcast", nx[0].result_term(), "Some"), "0"))[1] if a not in ("into_iter", "iter")]
        ctx.ob(rid, "encode|all-families", ok, "encode must visit every family of the slice in order", site=b.raw["span"]["at"])
        if ok:
            fam = ("field", ("downcast", nx[0].result_term(), "Some"), "0")
            ck = b.calls_to("check_metric_family")
            wr = b.calls_to("Message::write_length_delimited_to_writer")
            other = [c for c in b.calls() if c.matches([re.compile(r"Write::write"), re.compile(r"CodedOutputStream::"), "Message::write_to_writer", "Message::write_to_bytes", "Message::write_to",
                                                        "Message::write_to_with_cached_sizes", "Message::write_length_delimited_to", "Message::write_to_vec", "Message::compute_size",
                                                        "Message::cached_size", "Message::write_length_delimited_to_vec", "Message::write_length_delimited_to_bytes"])]
            ok = len(ck) == 1 and len(wr) == 1 and not other
            inline_tests = None
            if not ck and len(wr) == 1 and not other:
                # the check written out (or expanded from a validating constructor): both fail-fast tests on this family, each rejecting
                ft = _family_tests(b, fam)
                if set(ft) == {"metric", "name"} and all(v_[0] for v_ in ft.values()):
                    inline_tests = ft
                    ok = True
            if not ok and len(ck) == 1 and not wr and _shared_stream_form(ctx, rid, b, nx[0], fam, ck[0], other):
                ok = None
            if ok is None:
                pass
            else:
              ctx.ob(rid, "encode|one-delimited-write", ok,
                   "each family must be written by exactly one write_length_delimited_to_writer (length prefix + message computed by rust-protobuf) and by nothing else "
                   "(found %d checks, %d delimited writes, other writes %s)" % (len(ck), len(wr), [strip_generics(c.callee) for c in other]), site=b.raw["span"]["at"])
            if ok is True and inline_tests is not None:
                si = b.switch_info(nx[0].target)
                body_entry = [t for v, t in si[1] if v == 1][0]
                rej_edges = {(v_[1], v_[2]) for v_ in inline_tests.values()}
                # the write runs only after both tests passed: it is not reachable (Ok/Err followed path-sensitively) once a test has failed, and both tests lie in front of it
                ok2 = peel(wr[0].args[0], transparent=["Deref::deref"]) == fam and any(s == P(3) for s in subterms(wr[0].args[1])) \
                    and all(b.dominates_ps(v_[1], wr[0].bb) for v_ in inline_tests.values()) and all(wr[0].bb not in b.reach_ps(e_[1]) for e_ in rej_edges) \
                    and wr[0].bb in b.reach_ps(body_entry, avoid_edges=rej_edges) and try_continue_block(b, wr[0]) is not None \
                    and nx[0].bb not in b.reach_ps(body_entry, avoid_blocks=[wr[0].bb], avoid_edges=rej_edges)
                ctx.ob(rid, "encode|check-then-write", ok2, "the check must precede the write of the same family into the caller's writer, and write errors must propagate", site=wr[0].span)
            elif ok is True:
                cont = try_continue_block(b, ck[0])
                si = b.switch_info(nx[0].target)
                body_entry = [t for v, t in si[1] if v == 1][0]
                ok2 = peel(ck[0].args[0]) == fam and peel(wr[0].args[0]) == fam and any(s == P(3) for s in subterms(wr[0].args[1])) and cont is not None and b.dominates(cont, wr[0].bb) \
                    and b.all_paths_pass(body_entry, [wr[0].bb], dst_set={nx[0].bb}) and try_continue_block(b, wr[0]) is not None
                ctx.ob(rid, "encode|check-then-write", ok2, "the check must precede the write of the same family into the caller's writer, and write errors must propagate", site=wr[0].span)
    c = ctx.anchor(rid, "check_metric_family", f.body("prometheus::encoder::check_metric_family"))
    if c:
        ctx.saw(c)
        tests = {k_: v_[0] for k_, v_ in _family_tests(c, P(1)).items()}
        ctx.ob(rid, "check_metric_family|rejects", tests == {"metric": True, "name": True}, "a family without samples or without a name must be refused (found %s)" % tests, site=c.raw["span"]["at"])
        # ... and nothing else: every Err the check can return lies behind one of the two emptiness tests (a family of any type, UNTYPED included, is encodable)
        from pvrules.rules import result_assign_blocks
        errb, _okb = result_assign_blocks(c)
        edges = []
        for bi in c.reachable_blocks():
            be = c.bool_edges(bi)
            if not be:
                continue
            cnd = be[0]
            if is_call(cnd, ["slice::is_empty", "str::is_empty", "Vec::is_empty", "String::is_empty"]):
                edges.append((bi, be[1]))
            elif cnd[0] == "binop" and cnd[1] in ("Eq", "Ne") and any(is_call(peel(z), ["slice::len", "Vec::len", "str::len", "String::len"]) for z in (cnd[2], cnd[3])):
                edges.append((bi, be[1] if cnd[1] == "Eq" else be[2]))
        # (path formulation: with both tests answering "not empty" no Err can be reached, however the error value is put together)
        region = c.reach_ps(0, avoid_edges=set(edges))
        stray = [x for x in errb if x in region]
        other_calls = [x for x in c.calls() if x.matches(["Try::branch", "FromResidual::from_residual"]) and x.bb in region]
        ctx.ob(rid, "check_metric_family|rejects-nothing-else", not stray and not other_calls,
               "check_metric_family may refuse a family only for having no samples or no name (it guards both encoders): found an Err outside these two tests", site=c.raw["span"]["at"])


def rule_R2(ctx, f):
    rid = "R2"
    ctx.rule(rid, "schema agreement: for every message of proto/proto_model.proto the generated write_to_with_cached_sizes writes self.<field> with the .proto field number through the "
                  "wire function of the .proto type; compute_size uses the same numbers and the matching size function (1 + 8 bytes for double); merge_from dispatches on "
                  "(number << 3 | wire type) to the matching read function; enum discriminants equal the .proto values")
    path = os.path.join(ctx.repo, "proto", "proto_model.proto")
    ok = os.path.exists(path)
    ctx.ob(rid, "proto-file", ok, "proto/proto_model.proto must exist")
    if not ok:
        return
    msgs, enums = parse_proto(path)
    ctx.floor(rid, ".proto messages", len(msgs), 10)
    ctx.floor(rid, ".proto fields", sum(len(v) for v in msgs.values()), 26)
    ctx.extra["proto_messages"] = {m: [(x["name"], x["number"], x["type"]) for x in fs] for m, fs in msgs.items()}
    for en, vals in enums.items():
        adt = ctx.anchor(rid, "enum " + en, f.adt("prometheus::proto::" + en))
        if adt:
            got = {v["name"]: int(v["discr"]) for v in adt["variants"]}
            ctx.ob(rid, "enum %s|values" % en, got == vals, "enum %s must have the .proto's names and numbers (found %s, .proto %s)" % (en, got, vals), site=adt["span"]["at"])
    for mn, fields in sorted(msgs.items()):
        base = "<prometheus::proto::%s as protobuf::Message>::" % mn
        w = ctx.anchor(rid, mn + "::write_to_with_cached_sizes", f.body(base + "write_to_with_cached_sizes"))
        s = ctx.anchor(rid, mn + "::compute_size", f.body(base + "compute_size"))
        r = ctx.anchor(rid, mn + "::merge_from", f.body(base + "merge_from"))
        by_name = {rust_field(x["name"]): x for x in fields}
        if w:
            ctx.saw(w)
            seen = {}
            for c in w.calls():
                fn = strip_generics(c.callee).split("::")[-1]
                if fn in WRITE_FN.values():
                    if fn == "write_message_field_with_cached_size":
                        tag, val = c.args[0], c.args[1]
                    else:
                        tag, val = c.args[1], c.args[2]
                    fld = self_field_of(val)
                    seen[fld] = (const_int(tag), fn)
            for c in w.calls():
                fn = strip_generics(c.callee).split("::")[-1]
                if fn in WRITE_FN.values():
                    val = c.args[1] if fn == "write_message_field_with_cached_size" else c.args[2]
                    fld = self_field_of(val)
                    bad = [show(g)[:100] for g in real_guards(w, c.bb) if not guard_ok(g, fld)]
                    # for repeated fields the element must come from an unfiltered iteration over self.<field>
                    e = elem_of(peel(val))
                    if e is not None and [a for a in e[1] if a not in ("into_iter", "iter")]:
                        bad.append("iteration adapters %s" % e[1])
                    ctx.ob(rid, "%s.%s|write-unconditional" % (mn, {"type_": "type"}.get(fld, fld)), not bad,
                           "%s.%s must be written whenever it is present (for repeated fields: every element); extra conditions found: %s" % (mn, fld, bad), site=c.span)
            for fname, spec in sorted(by_name.items()):
                got = seen.get(fname)
                ctx.ob(rid, "%s.%s|write" % (mn, spec["name"]), got == (spec["number"], WRITE_FN[spec["kind"]]),
                       "%s.%s (= %d, %s) must be written as field %d with %s (found %s)" % (mn, spec["name"], spec["number"], spec["type"], spec["number"], WRITE_FN[spec["kind"]], got), site=w.raw["span"]["at"])
            extra = set(seen) - set(by_name)
            ctx.ob(rid, "%s|no-extra-writes" % mn, not extra, "%s must not write fields that are not in the .proto (found %s)" % (mn, sorted(extra, key=str)), site=w.raw["span"]["at"])
            uf = w.calls_to("CodedOutputStream::write_unknown_fields")
            ctx.ob(rid, "%s|unknown-fields" % mn, len(uf) == 1 and self_field_of(uf[0].args[1]) == "special_fields", "unknown fields are written from special_fields only", site=w.raw["span"]["at"])
        if s:
            ctx.saw(s)
            from pvrules import inline
            s = inline.desugar_map_sum(f, s) or s      # `self.f.iter().map(|m| size of m).sum()` is the accumulation loop
            seen = {}
            for c in s.calls():
                fn = strip_generics(c.callee).split("::")[-1]
                if fn in SIZE_FN.values() and c.matches(re.compile(r"^protobuf::rt::")):
                    seen[self_field_of(c.args[1])] = (const_int(c.args[0]), fn)
                if c.matches("Message::compute_size"):
                    fld = self_field_of(c.args[0])
                    seen[fld] = (None, "message")
            # fixed-size fields: on the edge where self.f is present (if let Some / is_some()) the constant 1 + N is added
            for fld, bi, tgt in presence_edges(s):
                if not fld or fld in seen:
                    continue
                for x in s.reachable_blocks():
                    if not s.edge_dominates(bi, tgt, x):
                        continue
                    for st in s.blocks[x]["stmts"]:
                        if st["k"] != "assign":
                            continue
                        rv = st["rv"]
                        if rv["k"] == "binop" and rv["op"] in ("AddWithOverflow", "Add", "AddUnchecked"):
                            a, bb_ = s.term_operand(rv["ops"][0]), s.term_operand(rv["ops"][1])
                            if const_int(a) == 1 and const_int(bb_) in (4, 8, 1):
                                seen[fld] = (None, "fixed%d" % const_int(bb_))
                            elif a[0] != "const" and bb_[0] == "const" and const_int(bb_) in (5, 9, 2) and fld not in seen:
                                seen[fld] = (None, "fixed%d" % (const_int(bb_) - 1))
                        elif rv["k"] == "use" and rv["ops"][0].get("k") == "const" and const_int(s.term_operand(rv["ops"][0])) in (5, 9, 2) and fld not in seen:
                            seen[fld] = (None, "fixed%d" % (const_int(s.term_operand(rv["ops"][0])) - 1))
            for c in s.calls():
                fn = strip_generics(c.callee).split("::")[-1]
                if (fn in SIZE_FN.values() and c.matches(re.compile(r"^protobuf::rt::"))) or c.matches("Message::compute_size"):
                    val = c.args[0] if c.matches("Message::compute_size") else c.args[1]
                    fld = self_field_of(val)
                    bad = [show(g)[:100] for g in real_guards(s, c.bb) if not guard_ok(g, fld)]
                    e = elem_of(peel(val))
                    if e is not None and [a for a in e[1] if a not in ("into_iter", "iter")]:
                        bad.append("iteration adapters %s" % e[1])
                    ctx.ob(rid, "%s.%s|size-unconditional" % (mn, {"type_": "type"}.get(fld, fld)), not bad,
                           "%s.%s must be sized whenever it is present (for repeated fields: every element); extra conditions found: %s" % (mn, fld, bad), site=c.span)
            for fname, spec in sorted(by_name.items()):
                got = seen.get(fname)
                k = spec["kind"]
                if k == "message":
                    want_ok = got == (None, "message")
                elif k in FIXED_SIZE:
                    want_ok = got == (None, "fixed%d" % FIXED_SIZE[k])
                else:
                    want_ok = got == (spec["number"], SIZE_FN[k])
                ctx.ob(rid, "%s.%s|size" % (mn, spec["name"]), want_ok, "%s.%s must be sized as a %s field number %d (found %s)" % (mn, spec["name"], spec["type"], spec["number"], got), site=s.raw["span"]["at"])
        if r:
            ctx.saw(r)
            table = {}
            for bi in r.reachable_blocks():
                si = r.switch_info(bi)
                if si and si[3] == "u32":
                    for v, tgt in si[1]:
                        t = r.blocks[tgt]["term"]
                        table[v] = strip_generics(t.get("callee", "")).split("::")[-1] if t["k"] == "call" else None
            want = {(x["number"] << 3) | WIRE[x["kind"]]: READ_FN[x["kind"]] for x in fields}
            for x in fields:
                if x["kind"] == "message":
                    want[(x["number"] << 3) | 2] = "read_message" if x["label"] == "repeated" else "read_singular_message_into_field"
            # packed encodings of repeated scalars do not occur in this schema
            ctx.ob(rid, "%s|read-table" % mn, table == want, "%s::merge_from must dispatch tag -> reader as %s (found %s)" % (mn, want, table), site=r.raw["span"]["at"])
        adt = f.adt("prometheus::proto::" + mn)
        if adt:
            fs = [x["name"] for x in adt["variants"][0]["fields"] if x["name"] != "special_fields"]
            ctx.ob(rid, "%s|struct-fields" % mn, sorted(fs) == sorted(by_name), "struct %s must have exactly the .proto's fields (found %s)" % (mn, fs), site=adt["span"]["at"])


def accessor_kind(b, f=None, depth=0):
    """Fields of `self` a small accessor body reads or writes (delegation to a generated accessor on self is followed)."""
    fields = set()
    if f is not None and depth < 2:
        for c in b.calls():
            if c.args and peel(c.args[0]) == P(1) and c.callee.startswith("prometheus::proto::"):
                tgt = f.body(c.res or c.callee) or f.body(c.callee)
                if tgt is not None:
                    fields |= accessor_kind(tgt, f, depth + 1)
    for bi, si, pl, rv in b.stores():
        t = b.term_place(pl)
        n = self_field_of(t)
        if n:
            fields.add(("store", n))
    r = b.term_local(0)
    n = self_field_of(r)
    if n:
        fields.add(("ret", n))
    for c in b.calls():
        for a in c.args[:1]:
            n = self_field_of(a)
            if n:
                fields.add(("use", n))
    return fields


def rule_R3(ctx, f):
    rid = "R3"
    ctx.rule(rid, "hand-written accessors of src/proto_ext.rs: each get_X / set_X / take_X / mut_X / from_X / clear_X reads or writes only the message field named X "
                  "(type_ for field_type), so a value set through the helper API is the value serialised under X's field number")
    n = 0
    rename = {"field_type": "type_"}
    for k in f.order:
        b = f.bodies[k]
        if not b.path.startswith("prometheus::proto_ext::") or b.is_closure:
            continue
        name = b.raw.get("name", "")
        m = re.match(r"^(get|set|take|mut|clear|has)_(\w+)$", name)
        if not m or not b.argc:
            continue
        want = rename.get(m.group(2), m.group(2))
        self_ty = b.local_ty(1)
        if "prometheus::proto::" not in self_ty:
            continue
        touched = {x[1] for x in accessor_kind(b, f)}
        for c in f.closures_of(b):
            touched |= {x[1] for x in accessor_kind(c)}
        touched.discard("special_fields")
        n += 1
        ctx.saw(b)
        ctx.ob(rid, "%s|field" % strip_generics(b.path).replace("prometheus::proto_ext::", ""), touched == {want},
               "%s on %s must touch exactly the field `%s` (touches %s)" % (name, self_ty.split("::")[-1], want, sorted(touched)), site=b.raw["span"]["at"])
    ctx.floor(rid, "hand-written proto_ext accessors", n, 14)
    # from_label / from_gauge constructors
    for fn, fld in (("from_label", "label"), ("from_gauge", "gauge")):
        for b in f.find(re.compile(r"^prometheus::proto_ext::.*" + fn + "$")):
            ctx.saw(b)
            r = b.term_local(0)
            from pvrules.rules import find_aggs, agg_field
            aggs = find_aggs(r, "Metric::Metric")
            ok = bool(aggs) and any(s == P(1) for s in subterms(agg_field(aggs[0], fld)))
            ctx.ob(rid, "%s|field" % fn, ok, "Metric::%s must store its argument in `%s`" % (fn, fld), site=b.raw["span"]["at"])


def run(ctx):
    f = ctx.facts("default")
    ctx.run_rule("R1", rule_R1, f)
    ctx.run_rule("R2", rule_R2, f)
    ctx.run_rule("R3", rule_R3, f)
