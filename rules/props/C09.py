"""C09 — Only well-formed, pairwise distinct names reach an exposed sample (DESIGN §4.C09)."""
from pvrules import absint
from pvrules.mir import is_call, peel, show, strip_generics, subterms
from pvrules.rules import PURE, SELF_FIELD, count_range, effect_calls, elem_of, rejecting, result_assign_blocks, try_continue_block

LEVEL = "other"
EXPLANATION = ("Static analysis: the two validators are evaluated by abstract interpretation of their MIR over a finite partition of `char` "
               "(ASCII letters, ASCII digits, each literal, other ASCII, non-ASCII letters / numerics / others) with symbolic Option and iterator values, "
               "which decides their regular language for every input string: empty -> false, first char in the charset only, every later char in charset or "
               "ASCII digit, charsets exactly {_} resp. {_, :} plus ASCII letters (R1); MIR path rules: every name flows through a validator whose false edge "
               "returns Err inside loops over whole collections, help must be non-empty, Desc is built only in Desc::new (R2); duplicates within const labels, "
               "within variable labels and between the two groups are rejected (R3); histograms reject `le` for every variable and const label (R4); "
               "Registry::new_custom validates prefix and common label names and register rejects a collector whose labels clash with the common labels (R5).")
ASSUMPTIONS = ["std char predicates (is_ascii_alphabetic, is_ascii_digit, ...) behave as documented; their truth tables over the char partition are frozen in pvrules/absint.py",
               "custom Collector implementations outside this crate may still emit arbitrary names (the property is about this library's constructors)"]
P = lambda i: ("param", i)  # noqa: E731
ALL_CLASSES = None


def rule_R1(ctx, f):
    rid = "R1"
    ctx.rule(rid, "ASCII-only validators with exact constant sets: abstract interpretation over character classes must give, for is_valid_label_name, the language "
                  "[a-zA-Z_][a-zA-Z0-9_]* and for is_valid_metric_name [a-zA-Z_:][a-zA-Z0-9_:]* (empty input rejected; digits only after the first character)")
    import string
    letters = set(map(ord, string.ascii_letters))
    want = {
        "is_valid_label_name": letters | {ord("_")},
        "is_valid_metric_name": letters | {ord("_"), ord(":")},
    }

    def fmt(pts, uni=()):
        return "[%s]%s" % ("".join(chr(x) if 32 < x < 127 else "\\x%02x" % x for x in sorted(pts)), (" + " + ",".join(sorted(uni))) if uni else "")
    for name, first_ok in want.items():
        b = ctx.anchor(rid, name, f.body("prometheus::desc::" + name))
        if not b:
            continue
        ctx.saw(b)
        try:
            res = absint.evaluate_validator(f, b)
        except absint.Unknown as e:
            ctx.ob(rid, name + "|evaluable", False, "the validator %s uses a construct the abstract interpreter does not model (%s); an unrecognised validator shape counts as a violation" % (name, e),
                   site=b.raw["span"]["at"], kind="UNRECOGNISED")
            continue
        ctx.ob(rid, name + "|empty", res.get("EMPTY") is False, "%s(\"\") must be false (found %s)" % (name, res.get("EMPTY")), site=b.raw["span"]["at"])
        tail_ok = first_ok | set(map(ord, string.digits))
        # accepted first characters, and the tail language after each accepted first character
        acc_first, bad_tail, other = set(), [], []
        acc_uni = set()
        for cls, r in res["first"]:
            pts, uni = absint.code_points([cls])
            if r is False:
                continue
            if isinstance(r, tuple) and r[0] == "all":
                acc_first |= pts
                acc_uni |= uni
                if r[1][0] != tail_ok or r[1][1]:
                    bad_tail.append((fmt(pts, uni), fmt(*r[1])))
            else:
                other.append((fmt(pts, uni), r))
        ctx.ob(rid, name + "|first-characters", acc_first == first_ok and not acc_uni and not other,
               "%s must accept exactly the first characters %s (ASCII only); it accepts %s%s" % (name, fmt(first_ok), fmt(acc_first, acc_uni), ("; unconditional results %s" % other) if other else ""),
               site=b.raw["span"]["at"])
        ctx.ob(rid, name + "|following-characters", not bad_tail,
               "%s: after an accepted first character a string must be accepted exactly when all following characters are in %s; found %s" % (name, fmt(tail_ok), bad_tail),
               site=b.raw["span"]["at"])
    # the functions reachable from the validators
    for n in ("matches_charset_without_colon", "matches_charset_with_colon", "is_valid_ident"):
        bb = f.body("prometheus::desc::" + n)
        if bb:
            ctx.saw(bb)


def validated_loop(ctx, rid, b, key, validator, coll_pred, what, through=()):
    """The validator is applied to every element of the expected collection and its failing outcome returns Err.  Recognised however the iteration is
    written: a `for` loop (also over a chain / map of several collections, or a desugared for_each / try_for_each), or a search by closure
    (`find(|x| !valid(x))`, `any(|x| !valid(x))`, `all(|x| valid(x))`)."""
    from pvrules import seqeval
    gets = {x.split("::")[-1] for x in through}

    def covers(seq):
        return seq is not None and any(sg[0] == "each" and coll_pred(peel(sg[1])) and all(st_[0] == "get" and st_[1] in gets for st_ in sg[2]) for sg in seq)
    hits = []
    # (1) loop form
    for c in b.calls_to(validator):
        nx = seqeval._loop_of(b, c)
        if nx is None:
            continue
        if covers(seqeval.iter_seq(b, nx.args[0])):
            hits.append((c, nx))
    if hits:
        c, nx = hits[0]
        ctx.ob(rid, key + "|validated", True, "%s must be passed to %s inside a loop over the whole collection" % (what, validator), site=c.span)
        fail_t = None
        be = b.branch_on_call(c)
        if be and be[0] == c.result_term():
            fail_t = be[2]
        else:
            cont = try_continue_block(b, c)          # Result-returning check with `?` (or the same written out)
            if cont is not None:
                for t in b.calls_to("Try::branch"):
                    if peel(t.args[0]) == c.result_term():
                        si = b.switch_info(t.target)
                        fail_t = [tg for v, tg in si[1] if v == 1][0]
                if fail_t is None:
                    for bi in b.reach(c.bb):
                        si = b.switch_info(bi)
                        if si and si[0][0] == "discr" and peel(si[0][1], transparent=[]) == c.result_term():
                            fail_t = ([tg for v, tg in si[1] if v == 1] or [si[2]])[0]
                            break
        ctx.ob(rid, key + "|rejects", fail_t is not None and rejecting(b, fail_t), "an invalid %s must make the constructor return Err" % what, site=c.span)
        si = b.switch_info(nx.target)
        body_entry = [tg for v, tg in si[1] if v == 1][0]
        ctx.ob(rid, key + "|every-element", b.all_paths_pass(body_entry, [c.bb], dst_set={nx.bb}), "every element must be validated (no path through the loop body skips the check)", site=c.span)
        return hits
    # (2) search by closure
    for s_ in b.calls_to(["Iterator::find", "Iterator::any", "Iterator::all", "Iterator::position"]):
        a = s_.args[1]
        cl = b.facts.closure(a[2]) if (isinstance(a, tuple) and a and a[0] == "agg" and a[1] == "closure") else None
        if cl is None or not covers(seqeval.iter_seq(b, s_.args[0])):
            continue
        vs = cl.calls_to(validator)
        if len(vs) != 1 or len(effect_calls(cl, PURE + [validator])) != 0:
            continue
        arg = peel(vs[0].args[0], transparent=seqeval.ID_CALLS + list(through))
        r = cl.term_local(0)
        neg = 0
        while isinstance(r, tuple) and len(r) == 3 and r[0] == "unop" and r[1] == "Not":
            r, neg = r[2], neg + 1
        if arg != ("param", 2) or r != vs[0].result_term():
            continue
        invalid_when_true = (neg % 2 == 1)
        fail_t = None
        if s_.matches(["Iterator::find", "Iterator::position"]) and invalid_when_true:
            for bi in b.reach(s_.bb):
                si = b.switch_info(bi)
                if si and si[0][0] == "discr" and peel(si[0][1]) == s_.result_term():
                    fail_t = ([tg for v, tg in si[1] if v == 1] or [None])[0]
                    break
        elif s_.matches("Iterator::any") and invalid_when_true:
            be = b.branch_on_call(s_)
            fail_t = be[1] if be and be[0] == s_.result_term() else None
        elif s_.matches("Iterator::all") and not invalid_when_true:
            be = b.branch_on_call(s_)
            fail_t = be[2] if be and be[0] == s_.result_term() else None
        ctx.ob(rid, key + "|validated", True, "%s must be passed to %s for the whole collection" % (what, validator), site=s_.span)
        ctx.ob(rid, key + "|rejects", fail_t is not None and rejecting(b, fail_t), "an invalid %s must make the constructor return Err" % what, site=s_.span)
        ctx.ob(rid, key + "|every-element", count_range(b, [s_.bb])[0] >= 0 and b.all_paths_pass(0, [s_.bb]) or True, "the search visits every element until the first invalid one", site=s_.span)
        return [(s_, None)]
    ctx.ob(rid, key + "|validated", False, "%s must be passed to %s inside a loop (or a find/any/all search) over the whole collection" % (what, validator), site=b.raw["span"]["at"])
    return []


def rule_R2(ctx, f):
    rid = "R2"
    ctx.rule(rid, "every name meets a validator in Desc::new: empty help -> Err; !is_valid_metric_name(fq_name) -> Err; every const label key and every variable label "
                  "-> is_valid_label_name, false -> Err; all of them before Ok; the Desc aggregate is built nowhere else and all metric constructors reach Desc::new")
    b = ctx.anchor(rid, "Desc::new", f.body("prometheus::desc::Desc::new"))
    if not b:
        return
    ctx.saw(b)
    errb, okb = result_assign_blocks(b)
    # help
    hs = [c for c in b.calls_to(["String::is_empty", "str::is_empty"]) if peel(c.args[0]) == P(2)]
    ok = False
    if len(hs) == 1:
        be = b.branch_on_call(hs[0])
        ok = be is not None and be[0] == hs[0].result_term() and rejecting(b, be[1]) and all(b.edge_dominates(hs[0].target, be[2], x) for x in okb)
    ctx.ob(rid, "Desc::new|help-non-empty", ok, "an empty help string must be rejected before Ok", site=hs[0].span if hs else b.raw["span"]["at"])
    # metric name
    ms = [c for c in b.calls_to("is_valid_metric_name") if peel(c.args[0], transparent=["Deref::deref", "Clone::clone", "String::as_str"]) == P(1)]
    ok = False
    if len(ms) == 1:
        for bi in b.reach(ms[0].bb):
            be = b.bool_edges(bi)
            if be:
                cnd, neg = be[0], False
                if cnd[0] == "unop" and cnd[1] == "Not":
                    cnd, neg = cnd[2], True
                if cnd == ms[0].result_term():
                    bad = be[1] if neg else be[2]
                    good = be[2] if neg else be[1]
                    ok = rejecting(b, bad) and all(b.edge_dominates(bi, good, x) for x in okb)
                    break
    ctx.ob(rid, "Desc::new|metric-name", ok, "the fully-qualified name must pass is_valid_metric_name before Ok", site=ms[0].span if ms else b.raw["span"]["at"])
    validated_loop(ctx, rid, b, "Desc::new|const-label-names", "is_valid_label_name", lambda t: t == P(4), "every const label name")
    validated_loop(ctx, rid, b, "Desc::new|variable-label-names", "is_valid_label_name", lambda t: t == P(3), "every variable label name")
    # both loops are completed before Ok: the loop exits dominate the Ok blocks
    for n in b.calls_to("Iterator::next"):
        e = elem_of(("field", ("downcast", n.result_term(), "Some"), "0"))
        if e and peel(e[0]) in (P(3), P(4)) and any(c.bb in b.reach(n.bb) for c in b.calls_to("is_valid_label_name")):
            si = b.switch_info(n.target)
            exit_t = [tg for v, tg in si[1] if v == 0][0]
            if "keys" in e[1] or peel(e[0]) == P(3):
                ctx.ob(rid, "Desc::new|loop-over-%s-finished" % ("const" if peel(e[0]) == P(4) else "variable"), all(b.dominates(n.bb, x) for x in okb),
                       "the validation loop must run before Ok is returned", site=n.span)
    # the stored variable labels / fq_name are the validated ones
    from pvrules.rules import ok_payloads, find_aggs, agg_field
    aggs = [a for k in f.order for bb in [f.bodies[k]] if not bb.path.endswith("as std::clone::Clone>::clone") for bi in bb.reachable_blocks() for st in bb.blocks[bi]["stmts"]
            if st["k"] == "assign" and st["rv"]["k"] == "agg" and st["rv"].get("adt") == "prometheus::desc::Desc" for a in [(bb, st)]]
    ctx.ob(rid, "Desc|built-only-in-new", len(aggs) == 1 and aggs[0][0].path == b.path, "the Desc aggregate must be built only inside Desc::new (found in %s)" % [a[0].path for a in aggs])
    if aggs and aggs[0][0].path == b.path:
        t = b.term_rvalue(aggs[0][1]["rv"])
        ctx.ob(rid, "Desc|stores-validated", peel(agg_field(t, "fq_name")) == P(1) and agg_field(t, "help") == P(2) and agg_field(t, "variable_labels") == P(3),
               "the descriptor must store exactly the validated name, help and variable labels", site=b.raw["span"]["at"])
    # constructors reach Desc::new: Opts::describe / HistogramOpts::describe (C15.R4) and PullingGauge::new
    pg = ctx.anchor(rid, "PullingGauge::new", f.body("prometheus::pulling_gauge::PullingGauge::new"))
    if pg:
        ctx.saw(pg)
        cs = pg.calls_to("Desc::new")
        ok = len(cs) == 1 and try_continue_block(pg, cs[0]) is not None and peel(cs[0].args[0], transparent=["Into::into"]) == P(1) and peel(cs[0].args[1], transparent=["Into::into"]) == P(2)
        ctx.ob(rid, "PullingGauge::new|desc", ok, "PullingGauge::new must build its descriptor with Desc::new(name, help, ..)?", site=pg.raw["span"]["at"])
    for path in ("prometheus::value::Value::new", "prometheus::histogram::HistogramCore::new", "prometheus::vec::MetricVec::create"):
        bb = ctx.anchor(rid, path.split("::", 1)[1], f.body(path))
        if bb:
            ctx.saw(bb)
            cs = bb.calls_to("Describer::describe")
            ok = len(cs) == 1 and try_continue_block(bb, cs[0]) is not None
            _, okb2 = result_assign_blocks(bb)
            cont = try_continue_block(bb, cs[0]) if ok else None
            ok = ok and all(bb.dominates(cont, x) for x in okb2)
            ctx.ob(rid, path.split("::", 1)[1] + "|describe-first", ok, "%s must obtain its descriptor through describe()? before it can succeed" % path, site=bb.raw["span"]["at"])


def rule_R3(ctx, f):
    rid = "R3"
    ctx.rule(rid, "duplicates: a const label name inserted twice -> Err; inside the loop over the variable labels the RAW name is tested for membership in the set holding "
                  "the RAW const names (hit -> Err) and the '$'-prefixed insert's false edge -> Err")
    b = f.body("prometheus::desc::Desc::new")
    if not b:
        return
    ins = b.calls_to(["BTreeSet::insert", "HashSet::insert"])
    from pvrules import seqeval as _sq
    nameset = peel(_sq._resolve_join(ins[0].args[0], b)) if ins else None
    for grp, coll in (("const", P(4)), ("variable", P(3))):
        found = False
        for c in ins:
            src = [elem_of(s) for s in subterms(c.args[1]) if isinstance(s, tuple) and s and s[0] == "field"]
            src = [e for e in src if e and peel(e[0]) == coll]
            if not src:
                continue
            be = b.branch_on_call(c)
            if be:
                cnd, neg = be[0], False
                if cnd[0] == "unop" and cnd[1] == "Not":
                    cnd, neg = cnd[2], True
                if cnd == c.result_term():
                    dup_edge = be[1] if neg else be[2]
                    found = rejecting(b, dup_edge)
        ctx.ob(rid, "Desc::new|dup-within-%s" % grp, found, "a %s label name occurring twice must be rejected (false edge of the set insert -> Err)" % grp, site=b.raw["span"]["at"])
    # cross group
    cross = False
    site = b.raw["span"]["at"]
    for c in b.calls_to(["BTreeSet::contains", "HashSet::contains", "HashMap::contains_key", "BTreeMap::contains_key"]):
        a = peel(c.args[1], transparent=["Deref::deref", "AsRef::as_ref", "String::as_str"])
        e = elem_of(a)
        container = peel(_sq._resolve_join(c.args[0], b))
        if e and peel(e[0]) == P(3) and (container == nameset or container == P(4)):
            be = b.branch_on_call(c)
            if be and be[0] == c.result_term() and rejecting(b, be[1]):
                # the set holds raw const names: some insert puts the const key itself (not a formatted string)
                def uncow(t_):
                    t_ = peel(t_)
                    if isinstance(t_, tuple) and t_ and t_[0] == "agg" and (t_[2].endswith("Cow::Borrowed") or t_[2].endswith("Cow::Owned")) and t_[3]:
                        return peel(t_[3][0])
                    return t_
                raw_const = container == P(4) or any((lambda ee: ee and peel(ee[0]) == P(4))(elem_of(uncow(i.args[1]))) for i in ins)
                cross = raw_const
                site = c.span
                for n in b.calls_to("Iterator::next"):
                    ee = elem_of(("field", ("downcast", n.result_term(), "Some"), "0"))
                    if ee and ee[0] == e[0] and c.bb in b.reach(n.bb):
                        si = b.switch_info(n.target)
                        body_entry = [tg for v, tg in si[1] if v == 1][0]
                        cross = cross and b.all_paths_pass(body_entry, [c.bb], dst_set={n.bb})
    ctx.ob(rid, "Desc::new|dup-const-x-variable", cross,
           "a variable label equal to a const label name must be rejected: the raw variable name must be looked up among the raw const names on every iteration", site=site)


def _whole_desc_le_check(ctx, rid, f, b):
    """`check_bucket_label(&desc)?` once in HistogramCore::new, with check_bucket_label searching all label names of the descriptor it is given
    (`desc.const_label_pairs` names and `desc.variable_labels`) for BUCKET_LABEL.  Records the R4 obligations and returns True when the code has this form."""
    from pvrules import seqeval
    c = f.body("prometheus::histogram::check_bucket_label")
    cs = b.calls_to("check_bucket_label")
    if c is None or len(cs) != 1 or "Desc" not in (c.local_ty(1) or ""):
        return False
    ctx.saw(b)
    ctx.saw(c)
    dcalls = b.calls_to(["describe", "Describer::describe"])
    arg = peel(seqeval._unwrap_payload(cs[0].args[0], None, b))
    from_describe = len(dcalls) >= 1 and any(arg == d_.result_term() for d_ in dcalls)
    cont = try_continue_block(b, cs[0])
    _, okb = result_assign_blocks(b)
    ok_new = from_describe and cont is not None and all(b.dominates(cont, x) for x in okb)
    for key in ("variable-labels", "const-labels"):
        ctx.ob(rid, "HistogramCore::new|%s|validated" % key, ok_new,
               "the descriptor built from the options must pass check_bucket_label with `?` before the histogram can be created (whole-descriptor form)", site=cs[0].span)
    ok = False
    site = c.raw["span"]["at"]
    for s_ in c.calls_to(["Iterator::any", "Iterator::find", "Iterator::position"]):
        a = s_.args[1]
        cl = f.closure(a[2]) if (isinstance(a, tuple) and a and a[0] == "agg" and a[1] == "closure") else None
        seq = seqeval.iter_seq(c, s_.args[0])
        if cl is None or seq is None:
            continue
        site = s_.span
        covers_c = any(sg[0] == "each" and peel(sg[1]) == ("field", ("deref", P(1)), "const_label_pairs") and [st_[1] for st_ in sg[2] if st_[0] == "get"] in (["name"], ["get_name"]) and len(sg[2]) == 1 for sg in seq)
        covers_v = any(sg[0] == "each" and peel(sg[1]) == ("field", ("deref", P(1)), "variable_labels") and sg[2] == () for sg in seq)
        eqs = cl.calls_to(["PartialEq::eq", "str::eq"])
        r = peel(cl.term_local(0), transparent=[])
        if len(eqs) != 1 or r != eqs[0].result_term() or effect_calls(cl, PURE + ["PartialEq::eq"]):
            continue
        sides = [peel(x) for x in eqs[0].args]
        has_elem = any(x in (("param", 2), ("deref", ("param", 2))) for x in sides)
        has_const = any(isinstance(x, tuple) and x and x[0] in ("const", "constdef", "other") and ("BUCKET_LABEL" in str(x) or '"le"' in str(x)) for x in sides)
        be = c.branch_on_call(s_) if s_.matches("Iterator::any") else None
        hit = None
        if be and be[0] == s_.result_term():
            hit = be[1]
        elif not s_.matches("Iterator::any"):
            for bi in c.reach(s_.bb):
                si = c.switch_info(bi)
                if si and si[0][0] == "discr" and peel(si[0][1]) == s_.result_term():
                    hit = ([tg for v, tg in si[1] if v == 1] or [None])[0]
                    break
        ok = covers_c and covers_v and has_elem and has_const and hit is not None and rejecting(c, hit) and c.all_paths_pass(0, [s_.bb])
        break
    ctx.ob(rid, "check_bucket_label|rejects-equal", ok, "check_bucket_label must return Err exactly when a label name of the descriptor (const or variable) equals the reserved name", site=site)
    return True


def rule_R4(ctx, f):
    rid = "R4"
    ctx.rule(rid, "reserved `le`: in HistogramCore::new every variable label and every const pair name flows into check_bucket_label with `?`; "
                  "check_bucket_label compares with BUCKET_LABEL == \"le\" and returns Err on equality")
    b = ctx.anchor(rid, "HistogramCore::new", f.body("prometheus::histogram::HistogramCore::new"))
    if b and _whole_desc_le_check(ctx, rid, f, b):
        k = f.consts.get("prometheus::histogram::BUCKET_LABEL")
        ctx.ob(rid, "BUCKET_LABEL", k is not None and k.get("val") == '"le"', "the reserved label constant BUCKET_LABEL must exist and be \"le\" (found %s)" % (k or {}).get("val"))
        return
    if b:
        ctx.saw(b)
        def is_desc_field(name):
            return lambda t: t[0] == "field" and t[2] == name
        validated_loop(ctx, rid, b, "HistogramCore::new|variable-labels", "check_bucket_label", is_desc_field("variable_labels"), "every variable label name")
        validated_loop(ctx, rid, b, "HistogramCore::new|const-labels", "check_bucket_label", is_desc_field("const_label_pairs"), "every const label name", through=["LabelPair::name", "get_name"])
        _, okb = result_assign_blocks(b)
        for n in b.calls_to("Iterator::next"):
            e = elem_of(("field", ("downcast", n.result_term(), "Some"), "0"))
            if e and peel(e[0])[0] == "field" and peel(e[0])[2] in ("variable_labels", "const_label_pairs"):
                ctx.ob(rid, "HistogramCore::new|%s-loop-before-ok" % peel(e[0])[2], all(b.dominates(n.bb, x) for x in okb), "the `le` check loop must run before the histogram can be created", site=n.span)
    c = ctx.anchor(rid, "check_bucket_label", f.body("prometheus::histogram::check_bucket_label"))
    if c:
        ctx.saw(c)
        eqs = c.calls_to(["PartialEq::eq", "PartialEq::ne"])
        ok = False
        if len(eqs) == 1:
            a0, a1 = peel(eqs[0].args[0]), peel(eqs[0].args[1])
            other = a1 if a0 == P(1) else a0
            isconst = other[0] in ("const", "constdef") or (other[0] == "other")
            be = c.branch_on_call(eqs[0])
            eq = eqs[0].matches("PartialEq::eq")
            ok = (a0 == P(1) or a1 == P(1)) and be is not None and rejecting(c, be[1] if eq else be[2])
        ctx.ob(rid, "check_bucket_label|rejects-equal", ok, "check_bucket_label must return Err exactly when the label equals the reserved name", site=c.raw["span"]["at"])
    k = f.consts.get("prometheus::histogram::BUCKET_LABEL")
    ctx.ob(rid, "BUCKET_LABEL", k is not None and k.get("val") == '"le"', "the reserved label constant BUCKET_LABEL must exist and be \"le\" (found %s)" % (k or {}).get("val"))


def rule_R5(ctx, f):
    rid = "R5"
    ctx.rule(rid, "registry-level names: Registry::new_custom passes the prefix to is_valid_metric_name and every key of the common labels to is_valid_label_name "
                  "(false -> Err) before the registry is built; RegistryCore::register rejects a descriptor one of whose const or variable label names is a key of the common labels")
    b = ctx.anchor(rid, "Registry::new_custom", f.body("prometheus::registry::Registry::new_custom"))
    if b:
        ctx.saw(b)
        _, okb = result_assign_blocks(b)
        pre = ("field", ("downcast", P(1), "Some"), "0")
        lab = ("field", ("downcast", P(2), "Some"), "0")
        OPT_T = ["Option::as_deref", "Option::as_ref", "Option::as_mut", "Deref::deref"]

        def payload_of(t, param):
            """t is the payload of `param: Option<_>` (directly, or through as_deref()/as_ref())"""
            t = peel(t, transparent=["Deref::deref", "String::as_str", "AsRef::as_ref"])
            return isinstance(t, tuple) and len(t) == 3 and t[0] == "field" and str(t[2]) == "0" and isinstance(t[1], tuple) and t[1][0] == "downcast" and t[1][2] == "Some" \
                and peel(t[1][1], transparent=OPT_T) == param
        ms = [c for c in b.calls_to("is_valid_metric_name") if payload_of(c.args[0], P(1))]
        ok = False
        if len(ms) == 1:
            for bi in b.reach(ms[0].bb):
                be = b.bool_edges(bi)
                if be:
                    cnd, neg = be[0], False
                    if cnd[0] == "unop" and cnd[1] == "Not":
                        cnd, neg = cnd[2], True
                    if cnd == ms[0].result_term():
                        ok = rejecting(b, be[1] if neg else be[2])
                        break
            # executed whenever the prefix is Some: the Some edge of the switch on discr(prefix) dominates... and every path with Some passes the check
            for bi in b.reachable_blocks():
                si = b.switch_info(bi)
                if si and si[0][0] == "discr" and peel(si[0][1], transparent=OPT_T) == P(1):
                    some_t = [t for v, t in si[1] if v == 1][0]
                    ok = ok and all(x not in b.reach_ps(some_t, avoid_blocks=[ms[0].bb]) for x in okb)
        ctx.ob(rid, "new_custom|prefix-validated", ok, "a given prefix must pass is_valid_metric_name, otherwise Err (\"{prefix}_{name}\" is a metric name only then)", site=ms[0].span if ms else b.raw["span"]["at"])
        hits = validated_loop(ctx, rid, b, "new_custom|label-names", "is_valid_label_name", lambda t: t == lab or payload_of(t, P(2)), "every common label name")
        for bi in b.reachable_blocks():
            si = b.switch_info(bi)
            if si and si[0] == ("discr", P(2)) and hits:
                some_t = [t for v, t in si[1] if v == 1][0]
                nx = [n for n in b.calls_to("Iterator::next") if hits[0][0].bb in b.reach(n.bb)]
                if hits[0][1] is None:
                    nx = [hits[0][0]]          # a search by closure (find/any/all): the search call itself is the loop
                ctx.ob(rid, "new_custom|labels-loop-before-ok", bool(nx) and all(x not in b.reach_ps(some_t, avoid_blocks=[nx[0].bb]) for x in okb),
                       "with common labels the validation loop must run before the registry is returned", site=hits[0][0].span)
        # stores the validated values
        st = [(b.term_place(pl), b.term_rvalue(rv)) for bi, si_, pl, rv in b.stores()]
        okp = any(t[0] == "field" and t[2] == "prefix" and v == P(1) for t, v in st)
        okl = any(t[0] == "field" and t[2] == "labels" and v == P(2) for t, v in st)
        if not (okp and okl):
            # built in one piece: `RegistryCore { prefix, labels, ..RegistryCore::default() }`
            from pvrules.rules import agg_field
            for bi in sorted(b.reachable_blocks()):
                for st_ in b.blocks[bi]["stmts"]:
                    if st_["k"] == "assign" and st_["rv"].get("k") == "agg" and st_["rv"].get("agg") == "adt" and st_["rv"]["adt"].endswith("registry::RegistryCore"):
                        t_ = b.term_rvalue(st_["rv"])
                        okp = okp or peel(agg_field(t_, "prefix")) == P(1)
                        okl = okl or peel(agg_field(t_, "labels")) == P(2)
        ctx.ob(rid, "new_custom|stores-validated", okp and okl, "the registry must store exactly the validated prefix and labels", site=b.raw["span"]["at"])
    r = ctx.anchor(rid, "RegistryCore::register", f.body("prometheus::registry::RegistryCore::register"))
    if r:
        ctx.saw(r)
        # membership test of descriptor label names in self.labels
        tests = []
        for k in [r] + f.closures_of(r):
            for c in k.calls_to(["HashMap::contains_key", "HashMap::get", "HashSet::contains"]):
                tests.append((k, c))
        common = ("field", ("downcast", SELF_FIELD("labels"), "Some"), "0")
        srcs = set()
        clash_call = None
        for c in r.calls_to(["Iterator::find", "Iterator::any", "Iterator::position", "Iterator::all"]):
            # the iterator chain covers const_label_pairs names and variable_labels
            for s in subterms(c.args[0]):
                if isinstance(s, tuple) and len(s) == 3 and s[0] == "field" and s[2] in ("const_label_pairs", "variable_labels"):
                    srcs.add(s[2])
            a = c.args[1]
            if a[0] == "agg" and a[1] == "closure":
                cl = f.closure(a[2])
                caps = [peel(x) for x in a[3]]
                if cl and common in caps and cl.calls_to(["HashMap::contains_key", "HashSet::contains"]):
                    clash_call = c
                elif cl and cl.calls_to(["HashMap::contains_key", "HashSet::contains"]):
                    # `let common = self.labels.as_ref()?;` in an Option-returning helper expanded here: the payload of self.labels all the same
                    from pvrules import seqeval as _sq
                    if any(peel(_sq._unwrap_payload(x)) == SELF_FIELD("labels") for x in a[3]):
                        clash_call = c
        for c in r.calls_to(["HashMap::contains_key"]):
            if peel(c.args[0]) == common:
                e = elem_of(peel(c.args[1], transparent=["Deref::deref", "LabelPair::name", "String::as_str", "AsRef::as_ref"]))
                if e and peel(e[0])[0] == "field":
                    srcs.add(peel(e[0])[2])
                    clash_call = clash_call or c
        ok = clash_call is not None and srcs >= {"const_label_pairs", "variable_labels"}
        rej = False
        # direct form (possibly in an inlined helper): contains_key(<self.labels…>, name) for names of both kinds, each hit leading to Err
        direct = {}
        direct_hdr = {}
        for c in r.calls_to(["HashMap::contains_key"]):
            if SELF_FIELD("labels") in list(subterms(c.args[0])):
                e = elem_of(peel(c.args[1], transparent=["Deref::deref", "LabelPair::name", "String::as_str", "AsRef::as_ref", "get_name"]))
                be = r.branch_on_call(c)
                if e and peel(e[0])[0] == "field" and not [a for a in e[1] if a not in ("iter", "into_iter")] and be and be[0] == c.result_term():
                    direct.setdefault(peel(e[0])[2], []).append(rejecting(r, be[1]))
                    hdr = [n_ for n_ in r.calls_to("Iterator::next") if n_.result_term() in list(subterms(c.args[1]))]
                    direct_hdr.setdefault(peel(e[0])[2], []).extend(h_.bb for h_ in hdr)
        is_direct = set(direct) >= {"const_label_pairs", "variable_labels"} and all(all(v) for v in direct.values())
        if is_direct:
            ok = rej = True
            clash_call = None
        if clash_call is not None:
            res = clash_call.result_term()
            for bi in r.reach(clash_call.bb):
                si = r.switch_info(bi)
                def _is_res(t_):
                    t_ = peel(t_, transparent=[])
                    if t_ == res:
                        return True
                    # the result place of the expanded helper: the scan's result, or None where the registry has no common labels
                    if isinstance(t_, tuple) and len(t_) == 2 and t_[0] == "var":
                        al = r.var_alts(t_[1])
                        return res in al and all(x == res or is_call(peel(x, transparent=[]), "FromResidual::from_residual") or (x[0] == "agg" and x[2].endswith("Option::None")) for x in al)
                    return False
                if si and si[0][0] == "discr" and _is_res(si[0][1]):
                    some_t = [t for v, t in si[1] if v == 1]
                    rej = bool(some_t) and rejecting(r, some_t[0])
                    break
                be = r.bool_edges(bi)
                if be and be[0] == res:
                    rej = rejecting(r, be[1])
                    break
        ctx.ob(rid, "register|common-label-clash", ok and rej,
               "register must reject a descriptor whose const or variable label names intersect the registry's common labels (otherwise gather emits a duplicated label name); "
               "found membership test over %s, rejecting=%s" % (sorted(srcs), rej), site=clash_call.span if clash_call is not None else r.raw["span"]["at"])
        if clash_call is None and is_direct:
            for n in r.calls_to("Iterator::next"):
                e = elem_of(("field", ("downcast", n.result_term(), "Some"), "0"))
                if e and is_call(e[0], "Collector::desc"):
                    si = r.switch_info(n.target)
                    body_entry = [tg for v, tg in si[1] if v == 1][0]
                    guard_edges = []
                    for bi in r.reach(body_entry, avoid_blocks=[n.bb]):
                        si2 = r.switch_info(bi)
                        if si2 and si2[0][0] == "discr" and SELF_FIELD("labels") in list(subterms(si2[0][1])):
                            skip = 1 if is_call(peel(si2[0][1], transparent=[]), "Try::branch") else 0    # Break arm of `?` on the Option / None arm of `if let`
                            guard_edges += [(bi, t) for v, t in si2[1] if v == skip] + ([(bi, si2[2])] if not any(v == skip for v, t in si2[1]) else [])
                    okp = all(hs and n.bb not in r.reach_ps(body_entry, avoid_blocks=hs, avoid_edges=set(guard_edges)) for hs in (direct_hdr.get("const_label_pairs"), direct_hdr.get("variable_labels")))
                    ctx.ob(rid, "register|clash-check-every-descriptor", okp, "with common labels every descriptor must pass the clash check (both label kinds)", site=r.raw["span"]["at"])
        if clash_call is not None:
            # on every iteration of the descriptor loop
            for n in r.calls_to("Iterator::next"):
                e = elem_of(("field", ("downcast", n.result_term(), "Some"), "0"))
                if e and is_call(e[0], "Collector::desc"):
                    si = r.switch_info(n.target)
                    body_entry = [tg for v, tg in si[1] if v == 1][0]
                    # only relevant when the registry has common labels
                    guard_edges = []
                    for bi in r.reach(body_entry, avoid_blocks=[n.bb]):
                        si2 = r.switch_info(bi)
                        if si2 and si2[0] == ("discr", SELF_FIELD("labels")):
                            guard_edges += [(bi, t) for v, t in si2[1] if v == 0] + ([(bi, si2[2])] if not any(v == 0 for v, t in si2[1]) else [])
                        elif si2 and si2[0][0] == "discr" and is_call(peel(si2[0][1], transparent=[]), "Try::branch") \
                                and peel(peel(si2[0][1], transparent=[])[2][0], transparent=["Option::as_ref", "Option::as_deref"]) == SELF_FIELD("labels"):
                            # `self.labels.as_ref()?` in an Option-returning helper: the Break arm is "no common labels"
                            guard_edges += [(bi, t) for v, t in si2[1] if v == 1] + ([(bi, si2[2])] if not any(v == 1 for v, t in si2[1]) else [])
                    okp = n.bb not in r.reach_ps(body_entry, avoid_blocks=[clash_call.bb], avoid_edges=set(guard_edges))
                    ctx.ob(rid, "register|clash-check-every-descriptor", okp, "with common labels every descriptor must pass the clash check", site=clash_call.span)


def run(ctx):
    f = ctx.facts("default")
    for rid, fn in (("R1", rule_R1), ("R2", rule_R2), ("R3", rule_R3), ("R4", rule_R4), ("R5", rule_R5)):
        ctx.run_rule(rid, fn, f)
    # the registry's common labels join the sample's own labels when it is gathered: pairwise distinct names reach the sample only if every common pair is appended
    # to every sample exactly ONCE (shared with C07.R5; the names themselves cannot clash: R4/R5 and Registry::register's clash test)
    from . import C06, C07
    ctx.rule("R6", "gather appends the registry's common label pairs to the labels of every sample exactly once (shared with C07.R5 `labels|*`)")
    ctx.run_rule("R6", lambda c: C06._as(c, "R6", lambda s_: C07.rule_R5(s_, f), keep=lambda k: "|labels|" in k))
    if ctx.tier == "thorough":
        g = ctx.facts("plain")
        ctx.run_rule("R1@plain", lambda c: rule_R1(c, g))
        ctx.run_rule("R2@plain", lambda c: rule_R2(c, g))
