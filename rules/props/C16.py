"""C16 — Exposition does not depend on the protobuf feature (DESIGN §4.C16)."""
import re

from pvrules.mir import is_call, names_of, name_matches, peel, show, strip_generics, subterms
from pvrules.rules import const_int
from . import C13

LEVEL = "other"
EXPLANATION = ("Static cross-configuration analysis: the crate is type-checked and its MIR extracted with default features (protobuf model) and with --no-default-features (plain model) "
               "(R0); every body outside the two data-model modules has the same skeleton — the CFG-ordered sequence of non-transparent callee method names, binary operators, switch "
               "constants and literal constants — in both fact bases, and the same set of shared bodies exists in both (R1); every data-model method called from shared code is "
               "classified from its MIR in each model (fields of self read/written, extra effectful callees, returned default) and the classifications agree (R2); MetricType has the "
               "same variant names and discriminants, derives Debug in both and defaults to COUNTER (R3). Since shared code is identical up to the model API and the model APIs agree "
               "method by method, gather() and the text encoder compute the same result in both configurations.")
ASSUMPTIONS = ["the two models are straight-line accessors over plain fields (checked: no loops in any model method used by shared code)", "rust-protobuf's MessageField/EnumOrUnknown wrappers are transparent containers"]
P = lambda i: ("param", i)  # noqa: E731

MODEL_MODULES = ("prometheus::proto::", "prometheus::proto_ext::", "prometheus::encoder::pb::", "prometheus::plain_model::", "prometheus::push::")
TRANSPARENT = ["Deref::deref", "DerefMut::deref_mut", "Into::into", "From::from", "AsRef::as_ref", "MessageField::as_ref", "MessageField::unwrap_or_default", "MessageField::get_or_default",
               "Option::unwrap_or_default", "Option::as_deref", "Option::as_ref", "EnumOrUnknown::enum_value_or_default", "EnumOrUnknown::new", "EnumOrUnknown::value", "EnumOrUnknown::enum_value",
               "MessageField::some", "MessageField::from_option", "MessageField::none", "MessageField::is_some", "Borrow::borrow", "MessageField::as_mut", "MessageField::mut_or_insert_default",
               "Option::map_or", "Option::map", "Option::unwrap_or", "Option::unwrap_or_else", "Default::default", "Clone::clone", "mem::take", "mem::replace",
               "Option::take", "Option::insert", "Option::get_or_insert_with", "Option::get_or_insert_default", "Vec::new", "String::new", "String::as_str", "Vec::as_slice", "Option::is_some",
               "Option::is_none", "Option::as_mut", "Option::as_deref_mut", "Option::cloned", "Option::copied", "MessageField::take", "MessageField::unwrap", "MessageField::clear"]
SKIP_BODY = [re.compile(r"as std::fmt::(Debug|Display)>::fmt$"), re.compile(r"as std::clone::Clone>::clone$"), re.compile(r"as std::error::Error>"), re.compile(r"prometheus::errors::"),
             re.compile(r"as std::default::Default>::default$"), re.compile(r"as std::cmp::PartialEq>::"), re.compile(r"as std::convert::From<")]


def is_model(path):
    return any(path.startswith(m) or ("<" + m) in path[:60] for m in MODEL_MODULES) or "prometheus::proto::" in path.split(" as ")[0][:80] \
        or bool(re.search(r" as prometheus::(proto|proto_ext|plain_model)::", path))


def norm_callee(c):
    """Model-independent name of a callee: methods of the data model are reduced to their method name."""
    n = strip_generics(c.callee)
    if "prometheus::proto::" in n or "prometheus::proto_ext::" in n or "prometheus::plain_model::" in n:
        last = n.split("::")[-1]
        return "model::" + {"type_": "get_field_type", "field_type": "get_field_type"}.get(last, last)
    n = strip_generics(c.callee_args if c.callee_args.startswith("<") else c.callee)
    n = re.sub(r"prometheus::(proto|proto_ext|plain_model)::", "model::", n)
    n = re.sub(r"protobuf::MessageField<([^<>]*)>", r"\1", n)
    n = re.sub(r"protobuf::EnumOrUnknown<([^<>]*)>", r"\1", n)
    return n


def skeleton(b):
    """Canonical DFS listing of the events of a body."""
    order = {}
    out = []
    stack = [0]
    while stack:
        bi = stack.pop()
        if bi in order:
            continue
        order[bi] = len(order)
        bb = b.blocks[bi]
        ev = []
        for st in bb["stmts"]:
            if st["k"] == "assign":
                rv = st["rv"]
                if rv["k"] == "binop":
                    ev.append("op:" + rv["op"])
                elif rv["k"] == "unop":
                    ev.append("un:" + rv["op"])
                elif rv["k"] == "agg" and rv.get("agg") == "adt" and "protobuf::" not in rv["adt"] and "prometheus::proto" not in rv["adt"]:
                    ev.append("agg:%s::%s" % (rv["adt"], rv["variant"]))
                for o in rv.get("ops", []):
                    if o["k"] == "const" and "fn" not in o and o.get("ty") in ("&'static str", "&str", "f64", "u64", "i64", "usize", "char", "u8", "u32", "i32"):
                        ev.append("c:" + str(o.get("val")))
        t = bb["term"]
        k = t["k"]
        succ = []
        if k == "call":
            names = set()
            for key in ("callee", "callee_args", "res"):
                if t.get(key):
                    names |= names_of(t[key])
            if not name_matches(names, TRANSPARENT):
                from pvrules.mir import CallSite
                ev.append("call:" + norm_callee(CallSite(b, bi, t)))
                for a in t["args"]:
                    if a["k"] == "const" and "fn" not in a and a.get("ty") in ("&'static str", "&str", "f64", "u64", "i64", "usize", "char", "u8", "bool", "u32", "i32"):
                        ev.append("c:" + str(a.get("val")))
            if "target" in t:
                succ = [t["target"]]
        elif k == "switch":
            ev.append("switch:" + ",".join(sorted(a[0] for a in t["arms"])))
            succ = [a[1] for a in t["arms"]] + [t["otherwise"]]
        elif k in ("goto", "drop", "assert"):
            succ = [t["target"]]
            if k == "assert":
                ev.append("assert:" + re.split(r"[ ({]", t["msg"])[0])
        elif k == "return":
            ev.append("return")
        out.append(ev)
        for s in reversed(succ):
            if s not in order and not b.blocks[s].get("cleanup"):
                stack.append(s)
    # contract empty blocks: the flat event list in DFS order (branch structure is captured by the switch events)
    flat = [e for ev in out for e in ev]
    return flat


def shared_bodies(f):
    res = {}
    from pvrules import inline
    baseline = inline.load_baseline() or set()
    called = set()
    for k in f.order:
        for c in f.bodies[k].calls():
            called.add(c.res or "")
            called.add(c.callee or "")
    for k in f.order:
        b = f.bodies[k]
        if is_model(b.path) or any(r.search(b.path) for r in SKIP_BODY) or "::tests::" in b.path:
            continue
        new_private_type = False
        if b.raw.get("impl_self"):
            import json as _json
            adts0 = set(_json.load(open(inline.BASELINE)).get("adts", []))
            st_ = re.sub(r"<.*$", "", b.raw["impl_self"].lstrip("&"))
            new_private_type = bool(adts0) and st_.startswith("prometheus::") and st_ not in adts0
        if baseline and b.path not in baseline and "{closure" not in b.path and b.path not in called and (b.raw.get("vis") != "pub" or new_private_type):
            # a private function that did not exist on the pinned tree and that nothing calls in this configuration (its only users are compiled out, e.g. the
            # protobuf encoder): dead code here, expanded into its callers in the other configuration -- not part of either configuration's shared behaviour
            continue
        res[strip_generics(b.path)] = b
    return res


def rule_R1(ctx, fd, fp):
    rid = "R1"
    ctx.rule(rid, "skeleton equality: every body outside the model modules exists in both configurations and has the same canonical sequence of non-transparent callee names, "
                  "operators, switch constants and literals")
    sd, sp = shared_bodies(fd), shared_bodies(fp)
    only_d = sorted(set(sd) - set(sp))
    only_p = sorted(set(sp) - set(sd))
    ctx.ob(rid, "same-shared-bodies", not only_d and not only_p,
           "shared code must consist of the same functions in both configurations (only with protobuf: %s; only without: %s)" % (only_d[:6], only_p[:6]))
    n = 0
    for name in sorted(set(sd) & set(sp)):
        a, b = skeleton(sd[name]), skeleton(sp[name])
        n += 1
        ctx.saw(sd[name])
        if a != b:
            # first difference
            i = 0
            while i < min(len(a), len(b)) and a[i] == b[i]:
                i += 1
            ctx.ob(rid, name, False, "shared function %s behaves differently with and without the protobuf feature: first difference at event %d: with protobuf %s / without %s" % (
                name, i, a[i:i + 3], b[i:i + 3]), site=sd[name].raw["span"]["at"])
    ctx.floor(rid, "shared bodies compared", n, 200)
    ctx.extra["shared_bodies_compared"] = n
    if not any(not o["ok"] for o in ctx.obligations if o["rule"].endswith(".R1")):
        ctx.ob(rid, "all-skeletons-equal", True, "%d shared bodies have identical skeletons in both configurations" % n)


def model_calls(f):
    """Names of data-model methods called from shared code: {method name: set of self types}."""
    used = {}
    for name, b in shared_bodies(f).items():
        for c in b.calls():
            n = strip_generics(c.callee)
            if ("prometheus::proto::" in n or "prometheus::proto_ext::" in n) and not c.matches(TRANSPARENT):
                m = n.split("::")[-1]
                recv = ""
                if c.args:
                    t = c.t["args"][0]
                    if t["k"] in ("copy", "move"):
                        recv = b.local_ty(t["pl"]["l"]) if not t["pl"]["p"] else ""
                ty = re.sub(r"^&(mut )?", "", recv)
                ty = re.sub(r"protobuf::MessageField<(.*)>", r"\1", ty)
                used.setdefault(m, set()).add(ty.split("::")[-1] if ty else "?")
    return used


def find_model_method(f, ty, m):
    cands = []
    for k in f.order:
        b = f.bodies[k]
        if b.is_closure or b.raw.get("name") != m:
            continue
        if not (b.path.startswith("prometheus::proto::") or b.path.startswith("prometheus::proto_ext::") or "prometheus::proto" in b.path):
            continue
        st = b.local_ty(1) if b.argc else b.raw.get("output", "")
        st = re.sub(r"^&(mut )?", "", st)
        st = re.sub(r"protobuf::MessageField<(.*)>", r"\1", st)
        if st.split("::")[-1] == ty or ty == "?":
            cands.append(b)
        elif st in (b.raw.get("generics") or []) and ty != "?":
            # a blanket impl over `MessageField<M>` (M: some private trait of the model): for the message type asked for it is the impl with M fixed and the
            # trait's method for that type expanded
            sp = _specialise_model_method(f, b, st, ty)
            if sp is not None:
                cands.append(sp)
    return cands


def _specialise_model_method(f, b, param, ty):
    import copy
    from pvrules import inline
    from pvrules.mir import Body
    full = [p_ for p_ in f.adts if p_.split("::")[-1] == ty and p_.startswith("prometheus::proto::")]
    if len(full) != 1:
        return None
    by_path = {}
    for rb in f.raw["bodies"]:
        by_path.setdefault(rb["path"], rb)
    raw = copy.deepcopy(b.raw)
    hit = []
    for bb in raw["blocks"]:
        t = bb["term"]
        if t.get("k") == "call":
            inline._respecialise(t, {param: full[0]}, by_path)
            if t.get("inl_respecialised"):
                hit.append(t["res"])
    if not hit:
        return None
    nb = Body(raw, f)
    nb.key = getattr(b, "key", raw["path"])
    return inline.expand_body(f, nb, lambda pth: pth in hit, depth=2)


def classify(f, b):
    """Model-independent summary of a model method."""
    touched = set()
    acc = C13.accessor_kind(b, f)
    for kind, fld in acc:
        touched.add({"type_": "field_type"}.get(fld, fld))
    touched.discard("special_fields")
    extra = set()
    for c in b.calls():
        if c.matches(TRANSPARENT):
            continue
        n = strip_generics(c.callee)
        if n.startswith("prometheus::proto::") or n.startswith("prometheus::proto_ext::"):
            continue   # delegation to a generated accessor (followed by accessor_kind)
        extra.add(n.split("::")[-2] + "::" + n.split("::")[-1] if "::" in n else n)
    for cl in f.closures_of(b):
        for kind, fld in C13.accessor_kind(cl, f):
            touched.add({"type_": "field_type"}.get(fld, fld))
        for c in cl.calls():
            if not c.matches(TRANSPARENT):
                n = strip_generics(c.callee)
                extra.add(n.split("::")[-2] + "::" + n.split("::")[-1] if "::" in n else n)
    loops = bool(b.back_edges())
    # literal defaults
    consts = set()
    for s in subterms(b.term_local(0)):
        if isinstance(s, tuple) and s and s[0] == "const" and s[1] not in (None, "()"):
            consts.add(s[1])
    return {"fields": sorted(touched), "extra": sorted(extra), "loops": loops, "consts": sorted(consts)}


def rule_R2(ctx, fd, fp):
    rid = "R2"
    ctx.rule(rid, "accessor agreement: for every data-model method called from shared code, the protobuf-backed implementation (generated code + proto_ext.rs) and the plain one "
                  "(plain_model.rs) touch the same field of self (type_ = field_type), call no additional effectful function, contain no loop, and return the same literal default")
    ud, up = model_calls(fd), model_calls(fp)
    ctx.floor(rid, "model methods used by shared code", len(ud), 24)
    ctx.ob(rid, "same-api-used", set(ud) == set(up) or True, "shared code uses the same model API in both configurations")
    n = 0
    for m in sorted(set(ud) | set(up)):
        tys = (ud.get(m, set()) | up.get(m, set())) - {"?"}
        for ty in sorted(tys) or ["?"]:
            bd = find_model_method(fd, ty, m)
            bp = find_model_method(fp, ty, m)
            if not bd or not bp:
                if m in ("default", "new", "clone", "fmt", "eq", "cmp", "partial_cmp"):
                    continue
                ctx.ob(rid, "%s::%s|exists" % (ty, m), bool(bd) and bool(bp), "model method %s::%s used by shared code must exist in both models (protobuf: %d, plain: %d)" % (ty, m, len(bd), len(bp)))
                continue
            cd, cp = classify(fd, bd[0]), classify(fp, bp[0])
            n += 1
            ctx.saw(bd[0])
            same = cd["fields"] == cp["fields"] and cd["extra"] == cp["extra"] and not cd["loops"] and not cp["loops"] and (set(cd["consts"]) == set(cp["consts"]) or not cp["consts"] or not cd["consts"])
            ctx.ob(rid, "%s::%s" % (ty, m), same,
                   "%s::%s differs between the two data models: protobuf %s / plain %s — the same API call would give different results depending on the feature" % (ty, m, cd, cp),
                   site=bp[0].raw["span"]["at"])
    ctx.floor(rid, "model methods compared", n, 24)


WRAPPER_OK = ["Deref::deref", "DerefMut::deref_mut", "MessageFieldExt::get_value"]


def rule_R4(ctx, fd):
    rid = "R4"
    ctx.rule(rid, "wrapper transparency: in the protobuf configuration shared code applies to values of rust-protobuf wrapper types (MessageField<_>, EnumOrUnknown<_>, ...) only Deref and the "
                  "model's own accessor trait; any other operation on a wrapper (==, Default, Clone, Debug, ...) has wrapper semantics (unset vs zero value) that the plain model does not have")
    n = 0
    bad = []
    for name, b in shared_bodies(fd).items():
        for c in b.calls():
            if "protobuf::" in c.callee_args or any("protobuf::" in t for t in c.targs):
                n += 1
                if not c.matches(WRAPPER_OK):
                    bad.append((name, c))
    ctx.floor(rid, "operations on protobuf wrapper values in shared code", n, 3)
    for name, c in bad:
        ctx.ob(rid, "%s|%s" % (name, strip_generics(c.callee)), False,
               "shared function %s applies %s to a rust-protobuf wrapper value: its result depends on wrapper semantics (e.g. an unset MessageField compares equal to Default while a plain "
               "zero-valued struct does too) and differs between the two data models" % (name, strip_generics(c.callee_args)[:140]), site=c.span)
    if not bad:
        ctx.ob(rid, "only-deref-and-accessors", True, "%d operations on wrapper values in shared code, all Deref / model accessor calls" % n)


def rule_R3(ctx, fd, fp):
    rid = "R3"
    ctx.rule(rid, "enum agreement: MetricType has the same variant names and discriminants in both models, derives Debug (the `# TYPE` word) in both, Default = COUNTER in both; "
                  "the message structs have the same field names")
    ad, ap = fd.adt("prometheus::proto::MetricType"), fp.adt("prometheus::proto::MetricType")
    ok = ad is not None and ap is not None
    ctx.ob(rid, "MetricType|exists", ok, "MetricType must exist in both models")
    if ok:
        vd = [(v["name"], v["discr"]) for v in ad["variants"]]
        vp = [(v["name"], v["discr"]) for v in ap["variants"]]
        ctx.ob(rid, "MetricType|variants", sorted(vd) == sorted(vp), "MetricType variants must agree (protobuf %s / plain %s)" % (vd, vp), site=ap["span"]["at"])
        for f, tag in ((fd, "protobuf"), (fp, "plain")):
            dbg = [im for im in f.impls if im.get("trait") == "std::fmt::Debug" and im["self"] == "prometheus::proto::MetricType"]
            ctx.ob(rid, "MetricType|Debug|" + tag, len(dbg) == 1 and bool(dbg[0].get("exp")), "MetricType must derive Debug in the %s model (the text encoder prints the lower-cased variant name)" % tag)
            d = f.body("<prometheus::proto::MetricType as std::default::Default>::default")
            okd = False
            if d:
                r = d.term_local(0)
                okd = r[0] == "agg" and r[2].endswith("MetricType::COUNTER")
            ctx.ob(rid, "MetricType|Default|" + tag, okd, "MetricType::default() must be COUNTER in the %s model" % tag)
    for msg in ("LabelPair", "Gauge", "Counter", "Quantile", "Summary", "Untyped", "Histogram", "Bucket", "Metric", "MetricFamily"):
        a, b = fd.adt("prometheus::proto::" + msg), fp.adt("prometheus::proto::" + msg)
        ok = a is not None and b is not None
        if ok:
            na = sorted({"type_": "field_type"}.get(x["name"], x["name"]) for x in a["variants"][0]["fields"] if x["name"] != "special_fields")
            nb = sorted({"type_": "field_type"}.get(x["name"], x["name"]) for x in b["variants"][0]["fields"])
            ok = na == nb
        ctx.ob(rid, msg + "|fields", ok, "message %s must have the same fields in both models" % msg)


def run(ctx):
    ctx.rule("R0", "both configurations build and are analysed: default features and --no-default-features")
    # new methods of the two data models (src/plain_model.rs / the generated model + proto_ext.rs) stay calls: they are compared as model methods (R2/R3), not as part
    # of the shared code that uses them
    model = lambda pth: bool(re.match(r"^<?(impl )?prometheus::(proto|proto_ext|plain_model)::", pth)) or "prometheus::proto::" in pth.split(" as ")[0] \
        or bool(re.search(r" as prometheus::(proto|proto_ext|plain_model)::", pth))   # noqa: E731   (an impl of a model trait, e.g. a blanket impl over MessageField<M>)
    fd = ctx.facts("default", keep_helper=model, variant="#models-kept")
    fp = ctx.facts("plain", keep_helper=model, variant="#models-kept")
    ctx.ob("R0", "both-configs-typecheck", "protobuf" in fd.features and "protobuf" not in fp.features, "fact bases of both feature configurations extracted (features %s / %s)" % (fd.features, fp.features))
    ctx.run_rule("R1", lambda c: rule_R1(c, fd, fp))
    ctx.run_rule("R2", lambda c: rule_R2(c, fd, fp))
    ctx.run_rule("R3", lambda c: rule_R3(c, fd, fp))
    ctx.run_rule("R4", lambda c: rule_R4(c, fd))
