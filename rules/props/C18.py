"""C18 — A timer records its duration exactly once, or never when discarded (DESIGN §4.C18)."""
from pvrules.mir import is_call, peel, show, strip_generics, subterms
from pvrules.rules import PURE, SELF_FIELD, agg_field, const_int, count_range, effect_calls
from . import C12

LEVEL = "other"
EXPLANATION = ("Static MIR typestate/effect rules for HistogramTimer and LocalHistogramTimer: every construction sets observed=false (T1); the only writes of `observed` are "
               "`= true` inside <Timer>::observe on every path (T2); observe records exactly once on the `record` edge and never otherwise, with the value elapsed_sec(self.start) (T3); "
               "Drop records exactly on the observed==false edge (T4); the by-value stop methods call observe once with the constants {true,true,false} and drop self (T5); type level: "
               "timers are not Clone, stop methods take self by value, `observed`/`observe` are private, nothing is leaked (T6); seconds are non-negative: Duration::as_secs_f64 of "
               "saturating_duration_since / the guarded coarse difference, no Instant subtraction (T7); observe_closure_duration calls f once, observes once, returns f's result (T8); a "
               "local timer records into a private cleared clone whose Drop flushes (T9, with C12.L8/L9). Abstractly interpreting `observed` in {false,true} over T2-T5 gives exactly one "
               "record for record/drop and none for discard.")
ASSUMPTIONS = ["a timer leaked by the caller (mem::forget) never records", "Duration::as_secs_f64 is non-negative", "unwinding drops run Drop::drop like normal drops (Rust semantics)"]
H = "prometheus::histogram::"
P = lambda i: ("param", i)  # noqa: E731
TIMERS = {
    "HistogramTimer": ("histogram", "Histogram::observe", "Histogram"),
    "LocalHistogramTimer": ("local", "LocalHistogram::observe", "LocalHistogram"),
}


def rule_timer(ctx, f, ty):
    target_field, rec_callee, hist_ty = TIMERS[ty]
    T = H + ty
    # T1 constructions
    n_aggs = 0
    for k in f.order:
        b = f.bodies[k]
        if b.path.endswith("as std::clone::Clone>::clone"):
            continue
        for bi in b.reachable_blocks():
            for st in b.blocks[bi]["stmts"]:
                if st["k"] == "assign" and st["rv"]["k"] == "agg" and st["rv"].get("adt") == T:
                    n_aggs += 1
                    t = b.term_rvalue(st["rv"])
                    o = agg_field(t, "observed")
                    s = agg_field(t, "start")
                    ctx.ob("T1", "%s|%s|observed-false" % (ty, strip_generics(b.path).split("::")[-1]), o is not None and o[0] == "const" and o[1] == "false",
                           "every %s must be created with observed = false (found %s)" % (ty, show(o) if o else None), site=b.raw["span"]["at"])
                    ctx.ob("T1", "%s|%s|start-now" % (ty, strip_generics(b.path).split("::")[-1]), s is not None and is_call(s, ["Instant::now", "Instant::now_coarse"]),
                           "the start instant must be taken when the timer is created", site=b.raw["span"]["at"])
                    ctx.ob("T1", "%s|%s|target" % (ty, strip_generics(b.path).split("::")[-1]), agg_field(t, target_field) == P(1), "the timer must hold the histogram it was given", site=b.raw["span"]["at"])
                    ctx.saw(b)
    ctx.floor("T1", ty + " constructions", n_aggs, 1)
    # T2 writes of observed
    writers = []
    for k in f.order:
        b = f.bodies[k]
        for bi, si, pl, rv in b.stores():
            if pl["p"] and pl["p"][-1][0] == "field" and pl["p"][-1][2] == "observed":
                base_ty = b.local_ty(pl["l"])
                if ty in base_ty and ("Local" in base_ty) == ("Local" in ty):
                    writers.append((b, bi, b.term_rvalue(rv)))
    ok = len(writers) == 1 and strip_generics(writers[0][0].path) == T + "::observe" and writers[0][2][0] == "const" and writers[0][2][1] == "true" and count_range(writers[0][0], [writers[0][1]]) == (1, 1)
    ctx.ob("T2", ty + "|observed-set-once", ok, "`observed` may only be set to true, inside %s::observe, on every path through it (found writers %s)" % (ty, [(strip_generics(w[0].path), show(w[2])) for w in writers]))
    # T3 observe
    o = ctx.anchor("T3", ty + "::observe", f.body(T + "::observe"))
    if o:
        ctx.saw(o)
        recs = o.calls_to(rec_callee)
        es = o.calls_to("Instant::elapsed_sec")
        ok = len(recs) == 1 and len(es) == 1
        ctx.ob("T3", ty + "::observe|shape", ok, "observe must measure once and have exactly one recording site (found %d/%d)" % (len(es), len(recs)), site=o.raw["span"]["at"])
        if ok:
            r, e = recs[0], es[0]
            ctx.ob("T3", ty + "::observe|value", peel(e.args[0]) == SELF_FIELD("start") and peel(r.args[1]) == e.result_term() and peel(o.term_local(0)) == e.result_term()
                   and peel(r.args[0]) == SELF_FIELD(target_field) and count_range(o, [e.bb]) == (1, 1),
                   "the recorded and returned value must be self.start.elapsed_sec(), recorded into self.%s" % target_field, site=r.span)
            g = None
            for bi in o.reachable_blocks():
                be = o.bool_edges(bi)
                if be and peel(be[0]) == P(2):
                    g = (bi, be[1], be[2])
            okg = g is not None and o.edge_dominates(g[0], g[1], r.bb) and o.all_paths_pass(g[1], [r.bb]) and r.bb not in o.reach(g[2]) and count_range(o, [r.bb]) == (0, 1) and not o.in_loop(r.bb)
            ctx.ob("T3", ty + "::observe|record-iff-flag", okg, "the observation must be recorded exactly once when `record` is true and not at all when it is false", site=r.span)
            eff = effect_calls(o, PURE + ["Instant::elapsed_sec"])
            ctx.ob("T3", ty + "::observe|no-other-effects", len(eff) == 1, "observe must have no other effect (found %s)" % eff, site=o.raw["span"]["at"])
    # T4 Drop
    d = ctx.anchor("T4", "Drop for " + ty, f.body("<%s as std::ops::Drop>::drop" % T))
    if d:
        ctx.saw(d)
        cs = d.calls_to(ty + "::observe")
        ok = len(cs) == 1 and peel(cs[0].args[0]) == P(1) and cs[0].args[1][0] == "const" and cs[0].args[1][1] == "true" and len(effect_calls(d)) == 1
        g = None
        for bi in d.reachable_blocks():
            be = d.bool_edges(bi)
            if be:
                cnd, tt, tf = be
                if cnd[0] == "unop" and cnd[1] == "Not":
                    cnd, tt, tf = cnd[2], tf, tt
                if peel(cnd) == SELF_FIELD("observed"):
                    g = (bi, tt, tf)
        okg = ok and g is not None and d.edge_dominates(g[0], g[2], cs[0].bb) and d.all_paths_pass(g[2], [cs[0].bb]) and cs[0].bb not in d.reach(g[1]) and count_range(d, [cs[0].bb]) == (0, 1)
        # no other condition guards the call
        conds = [bi for bi in d.reachable_blocks() if d.bool_edges(bi) or d.switch_info(bi)]
        ctx.ob("T4", ty + "::drop|records-iff-unobserved", okg and len(conds) == 1,
               "Drop must record exactly when `observed` is still false, and must depend on nothing else (found %d conditions)" % len(conds), site=d.raw["span"]["at"])
    # T5 by-value methods
    for m, const, callee in (("stop_and_record", "true", ty + "::observe"), ("stop_and_discard", "false", ty + "::observe"), ("observe_duration", None, ty + "::stop_and_record")):
        b = ctx.anchor("T5", "%s::%s" % (ty, m), f.body("%s::%s" % (T, m)))
        if not b:
            continue
        ctx.saw(b)
        cs = b.calls_to(callee)
        eff = effect_calls(b)
        ok = len(cs) == 1 and len(eff) == 1 and peel(cs[0].args[0]) == P(1) and count_range(b, [cs[0].bb]) == (1, 1)
        if const is not None:
            ok = ok and cs[0].args[1][0] == "const" and cs[0].args[1][1] == const
            # self is dropped on every path after the call
            holders = {1}
            for ol, ds in b.defs().items():
                for dd in ds:
                    if dd[0] == "assign" and dd[3]["k"] == "use" and dd[3]["ops"][0]["k"] == "move" and dd[3]["ops"][0]["pl"]["l"] in holders and not dd[3]["ops"][0]["pl"]["p"]:
                        holders.add(ol)
            drops = [bi for bi in b.reachable_blocks() if b.blocks[bi]["term"]["k"] == "drop" and b.blocks[bi]["term"]["pl"]["l"] in holders and not b.blocks[bi]["term"]["pl"]["p"]]
            ok = ok and bool(drops) and b.all_paths_pass(cs[0].bb, drops) and all(x in b.strictly_after(cs[0].bb) for x in drops)
            if m == "stop_and_record" or m == "stop_and_discard":
                ok = ok and peel(b.term_local(0)) == cs[0].result_term()
        ctx.ob("T5", "%s::%s|one-observe" % (ty, m), ok,
               "%s must call %s exactly once%s and then drop the timer" % (m, callee, (" with record=%s" % const) if const else ""), site=b.raw["span"]["at"])
        inputs = b.raw.get("inputs", [])
        ctx.ob("T6", "%s::%s|by-value" % (ty, m), bool(inputs) and inputs[0] == T, "%s must consume the timer (self by value), found receiver %s" % (m, inputs[:1]))
    # T6 type level
    adt = ctx.anchor("T6", ty, f.adt(T))
    if adt:
        fs = {x["name"]: x for x in adt["variants"][0]["fields"]}
        ctx.ob("T6", ty + "|observed-private", fs.get("observed", {}).get("vis") != "pub" and fs.get("observed", {}).get("ty") == "bool", "`observed` must be a private bool")
        ctx.ob("T6", ty + "|fields-private", all(x["vis"] != "pub" for x in adt["variants"][0]["fields"]), "all timer fields must be private")
    clones = [im for im in f.impls if im.get("trait") in ("std::clone::Clone", "std::marker::Copy") and im["self"] == T]
    ctx.ob("T6", ty + "|not-clone", not clones, "%s must not be Clone/Copy (a copy would record a second time)" % ty)
    o = f.body(T + "::observe")
    if o:
        ctx.ob("T6", ty + "::observe|private", o.raw.get("vis") != "pub", "%s::observe(&mut self, record) must not be public" % ty)
    drops_impl = [im for im in f.impls if im.get("trait") == "std::ops::Drop" and im["self"] == T]
    ctx.ob("T6", ty + "|has-drop", len(drops_impl) == 1, "%s must implement Drop (a timer that is simply dropped records)" % ty)


def rule_T7(ctx, f):
    ctx.rule("T7", "non-negative seconds: elapsed_sec = Duration::as_secs_f64(self.elapsed()); elapsed uses StdInstant::now().saturating_duration_since(start) (and the guarded coarse "
                   "difference with from_millis(0) on the negative edge); no Instant subtraction / duration_since anywhere in the crate")
    es = ctx.anchor("T7", "Instant::elapsed_sec", f.body(H + "Instant::elapsed_sec"))
    if es:
        ctx.saw(es)
        r = es.term_local(0)
        ok = is_call(r, "Duration::as_secs_f64") and is_call(peel(r[2][0], transparent=[]), "Instant::elapsed") and peel(peel(r[2][0], transparent=[])[2][0]) == P(1)
        ctx.ob("T7", "elapsed_sec|as_secs_f64", ok, "elapsed_sec must be self.elapsed().as_secs_f64() (found %s)" % show(r), site=es.raw["span"]["at"])
    el = ctx.anchor("T7", "Instant::elapsed", f.body(H + "Instant::elapsed"))
    if el:
        ctx.saw(el)
        sat = el.calls_to("Instant::saturating_duration_since")
        ok = len(sat) >= 1 and all(is_call(peel(c.args[0], transparent=[]), "Instant::now") for c in sat)
        ctx.ob("T7", "elapsed|saturating", ok, "the monotonic arm must be now().saturating_duration_since(start)", site=el.raw["span"]["at"])
        fm = el.calls_to("Duration::from_millis")
        if fm:
            # coarse arm: guarded by dur >= 0
            okg = False
            for bi in el.reachable_blocks():
                be = el.bool_edges(bi)
                if be and be[0][0] == "binop" and be[0][1] in ("Ge", "Lt") and const_int(be[0][3]) == 0:
                    pos = be[1] if be[0][1] == "Ge" else be[2]
                    neg = be[2] if be[0][1] == "Ge" else be[1]
                    zero = [c for c in fm if const_int(c.args[0]) == 0]
                    nonz = [c for c in fm if const_int(c.args[0]) != 0]
                    okg = len(zero) == 1 and len(nonz) == 1 and el.edge_dominates(bi, pos, nonz[0].bb) and el.edge_dominates(bi, neg, zero[0].bb)
            ctx.ob("T7", "elapsed|coarse-guard", okg, "the coarse arm must clamp a negative difference to zero", site=el.raw["span"]["at"])
    bad = []
    for k in f.order:
        b = f.bodies[k]
        for c in b.calls():
            if c.matches(["Instant::duration_since", "Instant::checked_duration_since"]) or (c.matches(["Sub::sub"]) and "std::time::Instant" in c.callee_args):
                bad.append((b, c))
    for b, c in bad:
        ctx.ob("T7", "%s|%s" % (strip_generics(b.path), strip_generics(c.callee)), False, "Instant subtraction can panic or go negative on non-monotonic clocks", site=c.span)
    if not bad:
        ctx.ob("T7", "no-instant-subtraction", True, "no Instant::duration_since / Instant - Instant in the crate")


def rule_T8(ctx, f):
    ctx.rule("T8", "observe_closure_duration (Histogram, LocalHistogram, AFLocalHistogram): the start instant is taken before f(), f is called exactly once, self.observe(elapsed) exactly once "
                   "on every normal path after it, and the closure's result is returned")
    n = 0
    for path, obs in ((H + "Histogram::observe_closure_duration", "Histogram::observe"), (H + "LocalHistogram::observe_closure_duration", "LocalHistogram::observe"),
                      ("prometheus::auto_flush::AFLocalHistogram::observe_closure_duration", "AFLocalHistogram::observe")):
        b = ctx.anchor("T8", path.split("::", 2)[2], f.body(path))
        if not b:
            continue
        ctx.saw(b)
        n += 1
        key = path.split("::", 2)[2]
        fc = b.calls_to(["FnOnce::call_once"])
        oc = b.calls_to(obs)
        ec = b.calls_to("Instant::elapsed_sec")
        nc = b.calls_to(["Instant::now", "Instant::now_coarse"])
        ok = len(fc) == 1 and len(oc) == 1 and len(ec) == 1 and len(nc) == 1
        if ok:
            ok = peel(fc[0].args[0]) == P(2) and count_range(b, [fc[0].bb]) == (1, 1) and count_range(b, [oc[0].bb]) == (1, 1)
            ok = ok and b.dominates(nc[0].bb, fc[0].bb) and b.dominates(fc[0].bb, ec[0].bb) and b.dominates(ec[0].bb, oc[0].bb)
            ok = ok and peel(ec[0].args[0]) == nc[0].result_term() and peel(oc[0].args[1]) == ec[0].result_term() and peel(oc[0].args[0]) == P(1)
            ok = ok and peel(b.term_local(0)) == fc[0].result_term()
        ctx.ob("T8", key + "|once-each", ok, "%s must time exactly one call of f, record it exactly once on self, and return f's result" % key, site=b.raw["span"]["at"])
    ctx.floor("T8", "observe_closure_duration bodies", n, 3)


def rule_T9(ctx, f):
    ctx.rule("T9", "start_timer passes a clone of self to the timer constructor (Histogram: shared Arc clone; LocalHistogram: cleared private clone, C12.L8) — so a local timer's observation "
                   "reaches the shared histogram exactly when the timer (and with it the clone) is dropped (C12.L9)")
    for ty, ctor in (("Histogram", "HistogramTimer::new"), ("LocalHistogram", "LocalHistogramTimer::new")):
        b = ctx.anchor("T9", ty + "::start_timer", f.body(H + ty + "::start_timer"))
        if b:
            ctx.saw(b)
            r = b.term_local(0)
            ok = is_call(r, ctor) and is_call(r[2][0], "Clone::clone") and peel(r[2][0]) == P(1)
            ctx.ob("T9", ty + "::start_timer|clone-of-self", ok, "%s::start_timer must be %s(self.clone()) (found %s)" % (ty, ctor, show(r)), site=b.raw["span"]["at"])
    adt = f.adt(H + "LocalHistogramTimer")
    if adt:
        fs = {x["name"]: x["ty"] for x in adt["variants"][0]["fields"]}
        ctx.ob("T9", "LocalHistogramTimer|owns-local", fs.get("local") == "prometheus::histogram::LocalHistogram", "the local timer must OWN its LocalHistogram clone (its drop flushes) — found %s" % fs.get("local"))


def run(ctx):
    f = ctx.facts("default")
    ctx.rule("T1", "every aggregate construction of a timer sets observed=false, start=Instant::now*(), and stores the given histogram")
    ctx.rule("T2", "the only writes to `observed` in the crate are `= true` inside <Timer>::observe, on every path through it")
    ctx.rule("T3", "in observe(&mut self, record) the call of Histogram::observe / LocalHistogram::observe is control-dependent exactly on the true edge of `record`, count [1,1] there and [0,0] otherwise")
    ctx.rule("T4", "Drop::drop calls Self::observe(self, true) exactly on the observed == false edge and nothing else")
    ctx.rule("T5", "observe_duration / stop_and_record / stop_and_discard call observe exactly once with {true, true, false} and drop self on every path")
    ctx.rule("T6", "type level: timers are not Clone/Copy, stop methods take self by value, `observed` and `observe` are private, Drop is implemented")
    for ty in TIMERS:
        ctx.run_rule("T1", lambda c, t=ty: rule_timer(c, f, t))
    ctx.run_rule("T7", rule_T7, f)
    ctx.run_rule("T8", rule_T8, f)
    from . import controls
    ctx.run_rule("T7", lambda c: controls.control_leak_and_instant(c, "T7", "duration_since"))
    ctx.run_rule("T9", rule_T9, f)
    # the local chain needs a cleared clone and a flushing Drop
    ctx.run_rule("T9b", lambda c: C12.rule_local_histogram(c, f, "T9b"))
    # T6 once more with rustc as the oracle: using a timer after a stop method must be a borrow-check error
    from pvrules import witness
    ctx.run_rule("T10", lambda c: witness.rule_witnesses(c, "T10", "c18_", 3))
    if ctx.tier == "thorough":
        g = ctx.facts("nightlyproc")
        for ty in TIMERS:
            ctx.run_rule("T1@nightly", lambda c, t=ty: _prefixed(c, g, t, "@nightly"))
        ctx.run_rule("T7@nightly", lambda c: _t7_prefixed(c, g))


def _prefixed(ctx, g, ty, suffix):
    sub = type(ctx)(ctx.prop, tier=ctx.tier, repo=ctx.repo, quiet=True)
    rule_timer(sub, g, ty)
    for o in sub.obligations:
        o = dict(o)
        o["key"] = o["key"].replace("|", suffix + "|", 1)
        o["rule"] = o["rule"] + suffix
        ctx.obligations.append(o)
    ctx.functions_analysed |= sub.functions_analysed


def _t7_prefixed(ctx, g):
    sub = type(ctx)(ctx.prop, tier=ctx.tier, repo=ctx.repo, quiet=True)
    rule_T7(sub, g)
    for o in sub.obligations:
        o = dict(o)
        o["key"] = o["key"].replace("|", "@nightly|", 1)
        o["rule"] = o["rule"] + "@nightly"
        ctx.obligations.append(o)
