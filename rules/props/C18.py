"""C18 — A timer records its duration exactly once, or never when discarded (DESIGN §4.C18)."""
from pvrules.mir import is_call, peel, show, strip_generics, subterms
from pvrules.rules import PURE, SELF_FIELD, agg_field, const_int, count_range, effect_calls
from . import C12

LEVEL = "other"
EXPLANATION = ("Static MIR typestate/effect rules for HistogramTimer and LocalHistogramTimer: every construction sets observed=false (T1); `observed` is only ever set to true "
               "(T2); each way a timer ends is checked in NORMAL FORM — the private helper methods of the timer (and stop_and_record under observe_duration) are expanded in place and "
               "literal flags are propagated, so the cut into helpers does not matter: stop_and_record / observe_duration measure self.start.elapsed_sec() once, record exactly that value "
               "exactly once into the timer's histogram and raise `observed` on every path; stop_and_discard records nothing, raises the flag and returns the measured value (T5); Drop "
               "records exactly when `observed` is still false and depends on nothing else (T4); type level: timers are not Clone, stop methods take self by value, `observed` is "
               "private, nothing is leaked (T6), also witnessed by rustc: using a timer after a stop method is error E0382 (T10); seconds are non-negative: Duration::as_secs_f64 of "
               "saturating_duration_since / the guarded coarse difference, no Instant subtraction (T7); observe_closure_duration calls f once, observes once, returns f's result (T8); a "
               "local timer records into a private cleared clone whose Drop flushes (T9, T9b = C12.L5).")
ASSUMPTIONS = ["a timer leaked by the caller (mem::forget) never records", "Duration::as_secs_f64 is non-negative", "unwinding drops run Drop::drop like normal drops (Rust semantics)"]
H = "prometheus::histogram::"
P = lambda i: ("param", i)  # noqa: E731
TIMERS = {
    "HistogramTimer": ("histogram", "Histogram::observe", "Histogram"),
    "LocalHistogramTimer": ("local", "LocalHistogram::observe", "LocalHistogram"),
}


def rule_timer(ctx, f, ty):
    target_field, rec_callee, hist_ty = TIMERS[ty]
    T = H + ty
    a_ = f.adt(T)
    if a_ is not None and a_.get("path"):
        T = a_["path"]          # (the timer types may have moved to another module; every path below is relative to where the type lives now)
    # T1 constructions
    n_aggs = 0
    for k in f.order:
        b = f.bodies[k]
        if b.path.endswith("as std::clone::Clone>::clone"):
            continue
        for bi in b.reachable_blocks():
            for st in b.blocks[bi]["stmts"]:
                if st["k"] == "assign" and st["rv"]["k"] == "agg" and st["rv"].get("adt") == T:
                    n_aggs += 1
                    t = b.term_rvalue(st["rv"])
                    o = agg_field(t, "observed")
                    s = agg_field(t, "start")
                    ctx.ob("T1", "%s|%s|observed-false" % (ty, strip_generics(b.path).split("::")[-1]), o is not None and o[0] == "const" and o[1] == "false",
                           "every %s must be created with observed = false (found %s)" % (ty, show(o) if o else None), site=b.raw["span"]["at"])
                    ctx.ob("T1", "%s|%s|start-now" % (ty, strip_generics(b.path).split("::")[-1]), s is not None and is_call(s, ["Instant::now", "Instant::now_coarse"]),
                           "the start instant must be taken when the timer is created", site=b.raw["span"]["at"])
                    tg = agg_field(t, target_field)
                    # the histogram handed to the constructor by value, or (constructor folded into start_timer) a clone of the histogram the method was called on
                    a1ty = b.local_ty(1).replace(" ", "") if len(b.locals) > 1 else ""
                    okt = (tg == P(1) and not a1ty.startswith("&")) or (tg is not None and is_call(tg, "Clone::clone") and peel(tg) == P(1) and a1ty.startswith("&") and a1ty.lstrip("&") == H + hist_ty)
                    ctx.ob("T1", "%s|%s|target" % (ty, strip_generics(b.path).split("::")[-1]), okt, "the timer must hold the histogram it was given (found %s)" % (show(tg) if tg else None), site=b.raw["span"]["at"])
                    ctx.saw(b)
    ctx.floor("T1", ty + " constructions", n_aggs, 1)
    # T2-T5 on the NORMAL FORM of each way a timer ends: every private method of the timer (and stop_and_record under observe_duration) is expanded
    # in place, so that it does not matter how the work is cut into helpers (`observe(record)`, `stop()` + `stop_recording()`, ...)
    from pvrules import inline
    vis = {b_.path: b_.raw.get("vis") for b_ in f.bodies.values()}

    def helper(pth):
        sp = strip_generics(pth)
        return sp.startswith(T + "::") and (vis.get(pth) != "pub" or sp.endswith("::stop_and_record")) and not sp.endswith("::new") and not sp.endswith("::new_coarse")

    def nf(path, key, rid):
        b0 = ctx.anchor(rid, key, f.body(path))
        if not b0:
            return None
        ctx.saw(b0)
        for cpath in {c_.res or c_.callee for c_ in b0.calls() if helper(c_.res or c_.callee or "")}:
            ctx.saw(f.body(cpath))
        return inline.expand_body(f, b0, helper, depth=4)

    def self_field(t, name):
        """t is field `name` of the timer the method was called on (possibly after `let mut timer = self`)."""
        t = peel(t)
        return isinstance(t, tuple) and len(t) == 3 and t[0] == "field" and t[2] == name and peel(t[1]) in (P(1), ("deref", P(1)))

    def summary(b):
        recs = b.calls_to(rec_callee)
        es = b.calls_to("Instant::elapsed_sec")
        def to_observed(pl):
            if pl["p"] and pl["p"][-1][0] == "field" and pl["p"][-1][2] == "observed":
                return True
            # `*flag = true` with `flag = &mut self.observed` handed to a helper that was expanded here
            t_ = b.term_place(pl)
            return bool(pl["p"]) and isinstance(t_, tuple) and len(t_) == 3 and t_[0] == "field" and t_[2] == "observed"
        stores = [(bi, b.term_rvalue(rv)) for bi, si, pl, rv in b.stores() if to_observed(pl)]
        # `mem::replace(&mut self.observed, true)`: a store of the new value that also hands back the old one
        for c_ in b.calls_to(["mem::replace"]):
            if self_field(c_.args[0], "observed"):
                stores.append((c_.bb, c_.args[1]))
        return recs, es, stores

    def flag_swaps(b):
        return [c_ for c_ in b.calls_to(["mem::replace"]) if self_field(c_.args[0], "observed")]

    def unset_on_entry():
        """The flag of a timer that no consuming method has been called on is false: every store to it (plain or by swap) lies in Drop::drop, in a method that takes
        the timer by value, or in a private function called only from those; and it is built false (T1) and never set to anything but true (T2)."""
        holders = set()
        for k_ in f.order:
            bd = f.bodies[k_]
            if not strip_generics(bd.path).startswith(T + "::") and strip_generics(bd.path) != "<%s as std::ops::Drop>::drop" % T:
                continue
            has = any(pl["p"] and pl["p"][-1][0] == "field" and pl["p"][-1][2] == "observed" for _bi, _si, pl, _rv in bd.stores()) or \
                any(isinstance(peel(c_.args[0]), tuple) and len(peel(c_.args[0])) == 3 and peel(c_.args[0])[2] == "observed" for c_ in bd.calls_to(["mem::replace", "mem::swap", "mem::take"]))
            if has:
                holders.add(bd.path)

        def consuming(pth, depth=0):
            bd = f.body(pth)
            if bd is None:
                return False
            if strip_generics(pth) == "<%s as std::ops::Drop>::drop" % T:
                return True
            ins = bd.raw.get("inputs", [])
            if ins and ins[0] == T:
                return True
            if bd.raw.get("vis") == "pub" or depth > 2:
                return False
            callers = [f.bodies[k2].path for k2 in f.order if any((c2.res or c2.callee) == pth for c2 in f.bodies[k2].calls())]
            return bool(callers) and all(consuming(c3, depth + 1) for c3 in callers)
        return bool(holders) and all(consuming(h_) for h_ in holders)
    # T2: `observed` only ever becomes true
    bad_w = []
    for k in f.order:
        b = f.bodies[k]
        for bi, si, pl, rv in b.stores():
            if pl["p"] and pl["p"][-1][0] == "field" and pl["p"][-1][2] == "observed" and ty in b.local_ty(pl["l"]) and ("Local" in b.local_ty(pl["l"])) == ("Local" in ty):
                v = b.term_rvalue(rv)
                if not (v[0] == "const" and v[1] == "true"):
                    bad_w.append((strip_generics(b.path), show(v)))
        for c_ in b.calls_to(["mem::replace", "mem::swap", "mem::take"]):
            t_ = peel(c_.args[0])
            if isinstance(t_, tuple) and len(t_) == 3 and t_[0] == "field" and t_[2] == "observed" and strip_generics(b.path).startswith((T + "::", "<%s as " % T)):
                v = c_.args[1] if (c_.matches("mem::replace") and len(c_.args) > 1) else ("other", "swap/take")
                if not (v[0] == "const" and v[1] == "true"):
                    bad_w.append((strip_generics(b.path), show(v)))
    ctx.ob("T2", ty + "|observed-set-once", not bad_w, "`observed` may only ever be set to true (found %s)" % bad_w)
    # T3/T5: the three consuming methods
    for m, want_rec in (("stop_and_record", True), ("observe_duration", True), ("stop_and_discard", False)):
        b = nf("%s::%s" % (T, m), "%s::%s" % (ty, m), "T5")
        if not b:
            continue
        recs, es, stores = summary(b)
        sw_ = flag_swaps(b)
        A = None
        if sw_:
            # the swap hands back the flag's value on entry: false, when the timer cannot have been consumed before (and this is the only swap, executed once)
            if len(sw_) == 1 and not b.in_loop(sw_[0].bb) and unset_on_entry():
                A = {sw_[0].bb: ("bool", False)}
            else:
                A = {}

        def passes(bbs, start=0):
            if not A:
                return b.all_paths_pass(start, bbs)
            return not [x for x in b.reach_ps(start, avoid_blocks=bbs, assume=A) if b.blocks[x]["term"]["k"] == "return"]
        live = b.reach_ps(0, assume=A)
        recs_live = [c for c in recs if c.bb in live]
        ok = len(es) >= 1 and len([e for e in es if e.bb in live]) == 1
        e = [e for e in es if e.bb in live][0] if ok else None
        ok = ok and self_field(e.args[0], "start") and passes([e.bb])
        if want_rec:
            ok = ok and len(recs_live) == 1 and passes([recs_live[0].bb]) and not b.in_loop(recs_live[0].bb) \
                and peel(recs_live[0].args[1]) == e.result_term() and self_field(recs_live[0].args[0], target_field)
        else:
            ok = ok and not recs_live
        # the flag is raised on every path, so that the Drop that follows does not record again
        st_live = [bi for bi, v in stores if bi in live]
        ok = ok and bool(st_live) and passes(st_live) and all(v[0] == "const" and v[1] == "true" for bi, v in stores if bi in live)
        if m != "observe_duration":
            r0 = peel(b.term_local(0))
            rets = [peel(a_) for a_ in b.var_alts(r0[1])] if (isinstance(r0, tuple) and r0[0] == "var") else [r0]
            ok = ok and e is not None and bool(rets) and all(x == e.result_term() for x in rets)
        eff = [c for c in effect_calls(b, PURE + ["Instant::elapsed_sec"]) if c.bb in live and not c.matches(rec_callee) and c not in sw_]
        ctx.ob("T5", "%s::%s|one-observe" % (ty, m), ok and not eff,
               "%s must measure self.start.elapsed_sec() once, %s, raise `observed` on every path%s, and do nothing else (other effects: %s)" % (
                   m, "record exactly that value exactly once into self.%s" % target_field if want_rec else "record nothing",
                   "" if m == "observe_duration" else " and return the measured value", eff), site=b.raw["span"]["at"])
        b0 = f.body("%s::%s" % (T, m))
        inputs = b0.raw.get("inputs", []) if b0 else []
        ctx.ob("T6", "%s::%s|by-value" % (ty, m), bool(inputs) and inputs[0] == T, "%s must consume the timer (self by value), found receiver %s" % (m, inputs[:1]))
    # T4: Drop records exactly when `observed` is still false
    d = nf("<%s as std::ops::Drop>::drop" % T, "Drop for " + ty, "T4")
    if d:
        recs, es, stores = summary(d)
        g = None
        for bi in d.reachable_blocks():
            be = d.bool_edges(bi)
            if be and self_field(be[0], "observed") and d.dominates(bi, recs[0].bb if recs else bi):
                g = (bi, be[1], be[2])
                break
        okg = g is not None and len(recs) >= 1
        if okg:
            # a swap of the flag behind the `observed == false` edge hands back false (nothing stores to the flag in between)
            Ad = None
            sd_ = flag_swaps(d)
            if sd_:
                Ad = {c_.bb: ("bool", False) for c_ in sd_ if d.edge_dominates(g[0], g[2], c_.bb) and not d.in_loop(c_.bb)} if len(sd_) == 1 else {}
            _rp = d.reach_ps

            class _D:       # the same body with the assumption threaded through every path-sensitive query below
                def reach_ps(self, start, **kw):
                    return _rp(start, assume=Ad, **kw)
            dd = _D() if Ad else d
            on_true, on_false = dd.reach_ps(g[1]), dd.reach_ps(g[2])
            rl = [c for c in recs if c.bb in on_false]

            def passes_d(start, bbs):
                if not Ad:
                    return d.all_paths_pass(start, bbs)
                return not [x for x in dd.reach_ps(start, avoid_blocks=bbs) if d.blocks[x]["term"]["k"] == "return"]
            okg = not [c for c in recs if c.bb in on_true and c.bb not in on_false] and len(rl) == 1 and passes_d(g[2], [rl[0].bb]) and not d.in_loop(rl[0].bb)
            el = [e for e in es if e.bb in on_false]
            okg = okg and len(el) == 1 and self_field(el[0].args[0], "start") and peel(rl[0].args[1]) == el[0].result_term() and self_field(rl[0].args[0], target_field)
            # nothing but the flag decides
            others = [] if not okg else [bi for bi in d.reachable_blocks() if bi != g[0] and bi in dd.reach_ps(0) and (d.bool_edges(bi) or d.switch_info(bi)) and rl[0].bb in dd.reach_ps(bi)
                      and not (d.bool_edges(bi) and self_field(d.bool_edges(bi)[0], "observed"))]
            def debug_assert_guard(bi_):
                """one arm of the branch does nothing but fail a debug_assert! (compiled out of release builds; C17 treats these the same way)"""
                import re as _re
                for x_ in d.succs(bi_):
                    r_ = d.reach(x_)
                    if any(d.blocks[y_]["term"]["k"] == "return" for y_ in r_) or rl[0].bb in r_:
                        continue
                    pcs = [c_ for c_ in d.calls() if c_.bb in r_ and c_.matches([_re.compile(r"panicking::(panic|panic_fmt|assert_failed)")])]
                    if pcs and all(any(_re.search(r'"debug_assert(_eq|_ne)?"', m_) for m_ in ((c_.t.get("sp") or {}).get("macros") or (c_.t.get("fnsp") or {}).get("macros") or [])) for c_ in pcs):
                        return True
                return False
            live_others = []
            for bi in others:
                if debug_assert_guard(bi):
                    continue
                # a branch on the (inlined, constant) `record` argument is decided statically: both arms are not live
                succ_live = [x for x in d.succs(bi) if x in dd.reach_ps(g[2])]
                if Ad:
                    # with the swap's result known, a branch is live only if the walk from the guard really takes both arms
                    from_guard = set()
                    for x in d.succs(bi):
                        if x in dd.reach_ps(g[2], avoid_edges={(bi, y) for y in d.succs(bi) if y != x}):
                            from_guard.add(x)
                    succ_live = [x for x in succ_live if x in from_guard]
                if len(succ_live) > 1 and not all(rl[0].bb in dd.reach_ps(x) or x == rl[0].bb for x in succ_live):
                    live_others.append(bi)
            okg = okg and not live_others
        ctx.ob("T4", ty + "::drop|records-iff-unobserved", okg,
               "Drop must record self.start.elapsed_sec() exactly once when `observed` is still false, nothing when it is true, and depend on nothing else", site=d.raw["span"]["at"])
    # T6 type level
    adt = ctx.anchor("T6", ty, f.adt(T))
    if adt:
        fs = {x["name"]: x for x in adt["variants"][0]["fields"]}
        ctx.ob("T6", ty + "|observed-private", fs.get("observed", {}).get("vis") != "pub" and fs.get("observed", {}).get("ty") == "bool", "`observed` must be a private bool")
        ctx.ob("T6", ty + "|fields-private", all(x["vis"] != "pub" for x in adt["variants"][0]["fields"]), "all timer fields must be private")
    clones = [im for im in f.impls if im.get("trait") in ("std::clone::Clone", "std::marker::Copy") and im["self"] == T]
    ctx.ob("T6", ty + "|not-clone", not clones, "%s must not be Clone/Copy (a copy would record a second time)" % ty)
    o = f.body(T + "::observe")
    if o:
        ctx.ob("T6", ty + "::observe|private", o.raw.get("vis") != "pub", "%s::observe(&mut self, record) must not be public" % ty)
    drops_impl = [im for im in f.impls if im.get("trait") == "std::ops::Drop" and im["self"] == T]
    ctx.ob("T6", ty + "|has-drop", len(drops_impl) == 1, "%s must implement Drop (a timer that is simply dropped records)" % ty)


def rule_T7(ctx, f):
    ctx.rule("T7", "non-negative seconds: elapsed_sec = Duration::as_secs_f64(self.elapsed()); elapsed uses StdInstant::now().saturating_duration_since(start) (and the guarded coarse "
                   "difference with from_millis(0) on the negative edge); no Instant subtraction / duration_since anywhere in the crate")
    es = ctx.anchor("T7", "Instant::elapsed_sec", f.body(H + "Instant::elapsed_sec"))
    if es:
        ctx.saw(es)
        r = es.term_local(0)
        ok = is_call(r, "Duration::as_secs_f64") and is_call(peel(r[2][0], transparent=[]), "Instant::elapsed") and peel(peel(r[2][0], transparent=[])[2][0]) == P(1)
        ctx.ob("T7", "elapsed_sec|as_secs_f64", ok, "elapsed_sec must be self.elapsed().as_secs_f64() (found %s)" % show(r), site=es.raw["span"]["at"])
    el = ctx.anchor("T7", "Instant::elapsed", f.body(H + "Instant::elapsed"))
    checked_ok = set()
    if el:
        ctx.saw(el)
        # the monotonic arm: now().saturating_duration_since(start), or now().checked_duration_since(start) with None mapped to a zero Duration
        def zero_dur(t):
            t = peel(t, transparent=[])
            if isinstance(t, tuple) and t and t[0] == "constdef":
                return strip_generics(t[1]).endswith("Duration::ZERO")
            if is_call(t, ["Default::default", "Duration::default"]):
                return True
            if is_call(t, ["Duration::from_secs", "Duration::from_millis", "Duration::from_micros", "Duration::from_nanos", "Duration::new"]):
                return all(const_int(a) == 0 for a in t[2])
            return False

        def since(t, names):
            t = peel(t, transparent=[])
            if not is_call(t, names) or len(t[2]) != 2:
                return False
            st = peel(t[2][1])
            start_ok = isinstance(st, tuple) and st[0] == "field" and isinstance(st[1], tuple) and st[1][0] == "downcast" and peel(st[1][1]) == P(1)
            return is_call(peel(t[2][0], transparent=[]), "Instant::now") and start_ok

        def mono(t):
            t = peel(t, transparent=[])
            if since(t, "Instant::saturating_duration_since"):
                return True
            if is_call(t, "Option::unwrap_or_default") and since(t[2][0], "Instant::checked_duration_since"):
                return True
            if is_call(t, "Option::unwrap_or") and since(t[2][0], "Instant::checked_duration_since") and zero_dur(t[2][1]):
                return True
            return False
        r = el.term_local(0)
        alts = el.var_alts(r[1]) if isinstance(r, tuple) and r and r[0] == "var" else [r]
        ok = any(mono(a) for a in alts)
        ctx.ob("T7", "elapsed|saturating", ok, "the monotonic arm must return now().saturating_duration_since(start) (or checked_duration_since with None -> zero); found %s" % show(r), site=el.raw["span"]["at"])
        checked_ok = set()
        for c in el.calls():
            if c.matches(["Option::unwrap_or", "Option::unwrap_or_default"]) and mono(c.result_term()):
                checked_ok.add(peel(c.args[0], transparent=[])[3])
        fm = el.calls_to("Duration::from_millis")
        if fm:
            # coarse arm: guarded by dur >= 0
            okg = False
            for bi in el.reachable_blocks():
                be = el.bool_edges(bi)
                if be and be[0][0] == "binop" and be[0][1] in ("Ge", "Lt") and const_int(be[0][3]) == 0:
                    pos = be[1] if be[0][1] == "Ge" else be[2]
                    neg = be[2] if be[0][1] == "Ge" else be[1]
                    zero = [c for c in fm if const_int(c.args[0]) == 0]
                    nonz = [c for c in fm if const_int(c.args[0]) != 0]
                    okg = len(zero) == 1 and len(nonz) == 1 and el.edge_dominates(bi, pos, nonz[0].bb) and el.edge_dominates(bi, neg, zero[0].bb)
            if not okg and len(fm) == 1:
                # from_millis(max(dur, 0) as u64): the clamp as a value
                a = peel(fm[0].args[0], transparent=[])
                while isinstance(a, tuple) and a and a[0] == "cast":
                    a = peel(a[2], transparent=[])
                okg = is_call(a, ["Ord::max", "i64::max", "cmp::max"]) and any(const_int(x) == 0 for x in a[2])
            ctx.ob("T7", "elapsed|coarse-guard", okg, "the coarse arm must clamp a negative difference to zero", site=el.raw["span"]["at"])
    bad = []
    for k in f.order:
        b = f.bodies[k]
        for c in b.calls():
            if el is not None and b is el and c.matches(["Instant::checked_duration_since"]) and c.bb in checked_ok:
                continue    # its None is mapped to zero (see elapsed|saturating)
            if c.matches(["Instant::duration_since", "Instant::checked_duration_since"]) or (c.matches(["Sub::sub"]) and "std::time::Instant" in c.callee_args):
                bad.append((b, c))
    for b, c in bad:
        ctx.ob("T7", "%s|%s" % (strip_generics(b.path), strip_generics(c.callee)), False, "Instant subtraction can panic or go negative on non-monotonic clocks", site=c.span)
    if not bad:
        ctx.ob("T7", "no-instant-subtraction", True, "no Instant::duration_since / Instant - Instant in the crate")


def rule_T8(ctx, f):
    ctx.rule("T8", "observe_closure_duration (Histogram, LocalHistogram, AFLocalHistogram): the start instant is taken before f(), f is called exactly once, self.observe(elapsed) exactly once "
                   "on every normal path after it, and the closure's result is returned")
    n = 0
    for path, obs in ((H + "Histogram::observe_closure_duration", "Histogram::observe"), (H + "LocalHistogram::observe_closure_duration", "LocalHistogram::observe"),
                      ("prometheus::auto_flush::AFLocalHistogram::observe_closure_duration", "AFLocalHistogram::observe")):
        b = ctx.anchor("T8", path.split("::", 2)[2], f.body(path))
        if not b:
            continue
        ctx.saw(b)
        n += 1
        key = path.split("::", 2)[2]
        fc = b.calls_to(["FnOnce::call_once"])
        oc = b.calls_to(obs)
        ec = b.calls_to("Instant::elapsed_sec")
        nc = b.calls_to(["Instant::now", "Instant::now_coarse"])
        ok = len(fc) == 1 and len(oc) == 1 and len(ec) == 1 and len(nc) == 1
        if ok:
            ok = peel(fc[0].args[0]) == P(2) and count_range(b, [fc[0].bb]) == (1, 1) and count_range(b, [oc[0].bb]) == (1, 1)
            ok = ok and b.dominates(nc[0].bb, fc[0].bb) and b.dominates(fc[0].bb, ec[0].bb) and b.dominates(ec[0].bb, oc[0].bb)
            ok = ok and peel(ec[0].args[0]) == nc[0].result_term() and peel(oc[0].args[1]) == ec[0].result_term() and peel(oc[0].args[0]) == P(1)
            ok = ok and peel(b.term_local(0)) == fc[0].result_term()
        ctx.ob("T8", key + "|once-each", ok, "%s must time exactly one call of f, record it exactly once on self, and return f's result" % key, site=b.raw["span"]["at"])
    ctx.floor("T8", "observe_closure_duration bodies", n, 3)


def rule_T9(ctx, f):
    ctx.rule("T9", "start_timer passes a clone of self to the timer constructor (Histogram: shared Arc clone; LocalHistogram: cleared private clone, C12.L8) — so a local timer's observation "
                   "reaches the shared histogram exactly when the timer (and with it the clone) is dropped (C12.L9)")
    for ty, ctor in (("Histogram", "HistogramTimer::new"), ("LocalHistogram", "LocalHistogramTimer::new")):
        b = ctx.anchor("T9", ty + "::start_timer", f.body(H + ty + "::start_timer"))
        if b:
            ctx.saw(b)
            r = b.term_local(0)
            ok = is_call(r, ctor) and is_call(r[2][0], "Clone::clone") and peel(r[2][0]) == P(1)
            if not ok and ty == "LocalHistogram":
                # the timer's private histogram built empty in the first place (instead of a clone that is cleared): LocalHistogram::new(<clone of the shared histogram>)
                from pvrules import inline
                ex = inline.expand_body(f, b, lambda pth: strip_generics(pth) in (H + "LocalHistogram::new", H + "LocalHistogramCore::new", H + "LocalHistogramTimer::new"))
                r2 = peel(ex.term_local(0), transparent=[])
                if isinstance(r2, tuple) and r2 and r2[0] == "agg" and r2[2].endswith("LocalHistogramTimer::LocalHistogramTimer"):
                    ok = C12.fresh_empty_local(ex, agg_field(r2, "local"))
            if not ok and ty == "LocalHistogram" and is_call(r, ctor):
                # the clone written out: a handle around one clone of self.core that is cleared exactly once, on every path, before the constructor gets it (what C12.L8 demands of Clone)
                cl_ = b.calls_to(["LocalHistogram::clear", "LocalHistogramCore::clear"])
                ok = C12.cleared_clone_of_self(b, peel(r[2][0])) and all(b.dominates(c_.bb, x.bb) for c_ in cl_ for x in b.calls_to(ctor))
            if not ok and isinstance(r, tuple) and r and r[0] == "agg" and strip_generics(str(r[2])).startswith(H + ctor.split("::")[0] + "::"):
                # the constructor expanded in place: the aggregate itself holds self.clone()
                tg = agg_field(r, "histogram" if ty == "Histogram" else "local")
                ok = tg is not None and is_call(tg, "Clone::clone") and peel(tg) == P(1)
            ctx.ob("T9", ty + "::start_timer|clone-of-self", ok, "%s::start_timer must be %s(self.clone()) (found %s)" % (ty, ctor, show(r)), site=b.raw["span"]["at"])
    adt = f.adt(H + "LocalHistogramTimer")
    if adt:
        fs = {x["name"]: x["ty"] for x in adt["variants"][0]["fields"]}
        ctx.ob("T9", "LocalHistogramTimer|owns-local", fs.get("local") == "prometheus::histogram::LocalHistogram", "the local timer must OWN its LocalHistogram clone (its drop flushes) — found %s" % fs.get("local"))


def run(ctx):
    f = ctx.facts("default")
    ctx.rule("T1", "every aggregate construction of a timer sets observed=false, start=Instant::now*(), and stores the given histogram")
    ctx.rule("T2", "every write to `observed` in the crate stores `true`")
    ctx.rule("T4", "Drop::drop (private helpers expanded): on the observed == false edge exactly one record of self.start.elapsed_sec() into the timer's histogram, on the true edge none; nothing else decides")
    ctx.rule("T5", "observe_duration / stop_and_record / stop_and_discard (private helpers expanded, literal flags propagated): one measurement of self.start.elapsed_sec(); exactly one record of that "
                   "value for the first two, none for stop_and_discard; `observed` raised on every path; the measured value returned; no other effect")
    ctx.rule("T6", "type level: timers are not Clone/Copy, stop methods take self by value, `observed` and `observe` are private, Drop is implemented")
    for ty in TIMERS:
        ctx.run_rule("T1", lambda c, t=ty: rule_timer(c, f, t))
    ctx.run_rule("T7", rule_T7, f)
    ctx.run_rule("T8", rule_T8, f)
    from . import controls
    ctx.run_rule("T7", lambda c: controls.control_leak_and_instant(c, "T7", "duration_since"))
    ctx.run_rule("T9", rule_T9, f)
    # the local chain needs a cleared clone and a flushing Drop
    ctx.run_rule("T9b", lambda c: C12.rule_local_histogram(c, f, "T9b"))
    # T6 once more with rustc as the oracle: using a timer after a stop method must be a borrow-check error
    from pvrules import witness
    ctx.run_rule("T10", lambda c: witness.rule_witnesses(c, "T10", "c18_", 3))
    if ctx.tier == "thorough":
        g = ctx.facts("nightlyproc")
        for ty in TIMERS:
            ctx.run_rule("T1@nightly", lambda c, t=ty: _prefixed(c, g, t, "@nightly"))
        ctx.run_rule("T7@nightly", lambda c: _t7_prefixed(c, g))


def _prefixed(ctx, g, ty, suffix):
    sub = type(ctx)(ctx.prop, tier=ctx.tier, repo=ctx.repo, quiet=True)
    rule_timer(sub, g, ty)
    for o in sub.obligations:
        o = dict(o)
        o["key"] = o["key"].replace("|", suffix + "|", 1)
        o["rule"] = o["rule"] + suffix
        ctx.obligations.append(o)
    ctx.functions_analysed |= sub.functions_analysed


def _t7_prefixed(ctx, g):
    sub = type(ctx)(ctx.prop, tier=ctx.tier, repo=ctx.repo, quiet=True)
    rule_T7(sub, g)
    for o in sub.obligations:
        o = dict(o)
        o["key"] = o["key"].replace("|", "@nightly|", 1)
        o["rule"] = o["rule"] + "@nightly"
        ctx.obligations.append(o)
