"""Hash-input rules shared by C05 (vector child keys) and C15 (descriptor ids)."""
from pvrules.mir import is_call, peel, show, strip_generics, subterms
from pvrules.rules import const_int

# bytes that can never occur in well-formed UTF-8
NON_UTF8 = {0xC0, 0xC1} | set(range(0xF5, 0x100))


def hasher_events(b):
    """Hasher::write / write_u8 / finish call sites in body b, grouped by hasher term."""
    ev = {}
    for c in b.calls():
        for kind in ("write", "write_u8", "finish", "write_str", "write_u64", "write_usize"):
            if c.matches("Hasher::" + kind):
                h = peel(c.args[0])
                ev.setdefault(h, []).append((kind, c))
    return ev


def sep_value(f, t):
    """Numeric value of a separator operand: literal or a crate constant."""
    t = peel(t)
    if isinstance(t, tuple) and t and t[0] == "constdef":
        c = f.consts.get(t[1])
        if c and "bits" in c:
            return int(c["bits"])
        if t[2] is not None:
            return int(t[2])
    return const_int(t)


def innermost_loop(b, site):
    """(next call, body entry) of the innermost loop whose element reaches an operand of `site` and whose body contains it; None when there is none."""
    from pvrules import seqeval as _sq
    ops = [t for a in site.args for t in list(subterms(a)) + list(subterms(_sq._unwrap_payload(a, None, b)))]
    cands = []
    for c in b.calls_to("Iterator::next"):
        if c.result_term() not in ops:
            continue
        si = b.switch_info(c.target)
        some = [t for v, t in si[1] if v == 1] if si else []
        if some and site.bb in b.reach(some[0], avoid_blocks=[c.bb]):
            cands.append((c, some[0]))
    if not cands:
        return None
    return max(cands, key=lambda x: len([y for y in cands if y[0].bb != x[0].bb and b.dominates(y[0].bb, x[0].bb)]))


def literal_prefixes(f, b):
    """{write site bb: (write_u8 site, byte)}: a constant ASCII byte written with write_u8 directly before a variable-length component, for every such component
    (`h.write_u8(b'$'); h.write(name.as_bytes())` hashes the bytes of format!("${}", name)): part of the component, not a separator."""
    out = {}
    for h, evs in hasher_events(b).items():
        writes = [c for k, c in evs if k in ("write", "write_str")]
        blocks = {c.bb for _, c in evs}
        for k, p in evs:
            if k != "write_u8":
                continue
            v = sep_value(f, p.args[1])
            if v is None or v in NON_UTF8 or v >= 0x80:
                continue
            for w in writes:
                if w.bb == p.bb:
                    continue
                others = blocks - {w.bb}
                nxt = set()
                for s_ in b.succs(p.bb):
                    nxt |= b.reach(s_, avoid_blocks=[w.bb]) & others
                if nxt - {p.bb} or w.bb not in b.reach(p.bb):
                    continue
                lp = innermost_loop(b, w)
                if lp is not None:
                    ok = b.all_paths_pass(lp[1], [p.bb], dst_set={w.bb})
                else:
                    ok = b.dominates(p.bb, w.bb)
                if ok:
                    out[w.bb] = (p, v)
    return out


def rule_separators(ctx, f, b, rid, key):
    """Injective hash input: every Hasher::write of variable-length bytes is followed, on every path and before the next
    write/finish on the same hasher, by write_u8(separator), separator not a UTF-8 byte.  Returns number of write sites."""
    n = 0
    for h, evs in hasher_events(b).items():
        writes = [c for k, c in evs if k in ("write", "write_str")]
        seps = []
        prefix_sites = {p.bb for p, _ in literal_prefixes(f, b).values()}
        for k, c in evs:
            if k == "write_u8":
                v = sep_value(f, c.args[1])
                if v in NON_UTF8:
                    seps.append(c)
                elif c.bb in prefix_sites:
                    continue     # a literal first byte of the component that follows
                else:
                    ctx.ob(rid, "%s|sep-value|%d" % (key, len(seps)), False,
                           "a separator written with write_u8 must be a byte that cannot occur in UTF-8 (found %s = %s)" % (show(c.args[1]), v), site=c.span)
        nexts = [c for k, c in evs if k in ("write", "write_str", "finish", "write_u64", "write_usize")]
        sep_blocks = [c.bb for c in seps]
        next_blocks = set(c.bb for c in nexts)
        for i, w in enumerate(writes):
            n += 1
            hit = set()
            for s in b.succs(w.bb):
                hit |= b.reach(s, avoid_blocks=sep_blocks) & next_blocks
            ctx.ob(rid, "%s|write#%d" % (key, i), not hit,
                   "Hasher::write of variable-length bytes must be followed by a separator byte before the next write/finish on the same hasher "
                   "(otherwise (\"ab\",\"c\") and (\"a\",\"bc\") feed identical bytes); value hashed: %s" % show(w.args[1]), site=w.span)
    return n


def every_element(b, site, via=None):
    """The call `site` (a Hasher::write / Vec::push / write whose operand derives from a loop element) is passed on every path through the
    body of the innermost such loop that reaches the next iteration: no element is skipped.  None if no operand is a loop element.
    via: another call site whose operands identify the loop when the operand of `site` is a local built up in the loop body."""
    from pvrules import seqeval as _sq
    ops = [t for a in (via or site).args for t in list(subterms(a)) + list(subterms(_sq._unwrap_payload(a, None, b)))]
    cands = []
    for c in b.calls_to("Iterator::next"):
        if c.result_term() not in ops:
            continue
        si = b.switch_info(c.target)
        some = [t for v, t in si[1] if v == 1] if si else []
        if not some:
            return False
        body = b.reach(some[0], avoid_blocks=[c.bb])
        if site.bb in body:
            cands.append((len(body), c, some[0]))
    if not cands:
        return None
    # the innermost loop: the one whose header is dominated by the headers of all the others (body sizes mislead when a body can leave the loop early and run on)
    _, n_, entry = max(cands, key=lambda x: (len([y for y in cands if y[1].bb != x[1].bb and b.dominates(y[1].bb, x[1].bb)]), -x[0]))
    if b.all_paths_pass(entry, [site.bb], dst_set={n_.bb}):
        return True
    # `if let Some(v) = map.get(elem) { sink(v) }`: skipped only where the lookup, whose payload the site consumes, finds nothing (the values of the keys present)
    elem = ("field", ("downcast", n_.result_term(), "Some"), "0")
    skip = []
    for a in (via or site).args:
        pay = peel(_sq._unwrap_payload(a, elem, b), transparent=_sq.ID_CALLS)
        if is_call(pay, ["HashMap::get", "BTreeMap::get"]) and any(u == elem for u in subterms(pay)):
            for bi_ in b.reach(entry, avoid_blocks=[n_.bb]):
                si2 = b.switch_info(bi_)
                if si2 and si2[0][0] == "discr" and peel(si2[0][1], transparent=[]) == peel(pay, transparent=[]):
                    skip += [(bi_, t_) for v_, t_ in si2[1] if v_ == 0]
    return bool(skip) and n_.bb not in b.reach(entry, avoid_blocks=[site.bb], avoid_edges=skip)


FNV_OFFSET_BASIS = 0xcbf29ce484222325


def rule_hasher_init(ctx, f, b, rid, key):
    """Every hasher fed in body b starts from FNV-1a's offset basis: it is `FnvHasher::default()` (directly or through a crate helper that
    returns exactly that) or `with_key(0xcbf29ce484222325)`.  From state 0 the first multiplications yield 0 again, so leading NUL bytes of
    the first component would not change the hash ("\\0a" and "a" collide) — the no-collision assumption only covers the standard start."""
    n = 0
    for hi, h in enumerate(hasher_events(b)):
        n += 1
        ctx.ob(rid, "%s|hasher%d|initial-state" % (key, hi), _std_init(f, h, 0, b),
               "the hasher must start as FnvHasher::default() (the FNV-1a offset basis); found %s" % show(h)[:160], site=b.raw["span"]["at"])
    return n


def _std_init(f, h, depth, b=None):
    if isinstance(h, tuple) and len(h) == 2 and h[0] == "var" and b is not None and depth < 3:
        # an accumulator threaded through a fold: it starts from the standard hasher and is otherwise only handed on
        alts = b.var_alts(h[1])

        def payload(a):
            # what a `try_fold` step hands on: `Ok(h)`, seen by the loop as the Continue payload of `Try::branch(<closure result>)`
            for _ in range(4):
                if isinstance(a, tuple) and len(a) == 3 and a[0] == "field" and str(a[2]) == "0" and isinstance(a[1], tuple) and a[1][0] == "downcast" and a[1][2] in ("Continue", "Ok"):
                    a = peel(a[1][1], transparent=[])
                    if is_call(a, "Try::branch"):
                        a = peel(a[2][0], transparent=[])
                    continue
                if isinstance(a, tuple) and a and a[0] == "agg" and (a[2].endswith("Result::Ok") or a[2].endswith("ControlFlow::Continue")) and a[3]:
                    a = a[3][0]
                    continue
                break
            return a
        # every value that can flow into the accumulator (through moves, Ok(..)/`?` wrappers and the loop-carried update) is the standard start state
        seen, todo, sources = set(), [h], []
        while todo and len(seen) < 24:
            v = todo.pop()
            if v in seen:
                continue
            seen.add(v)
            for a in b.var_alts(v[1]):
                if is_call(peel(a, transparent=[]), "FromResidual::from_residual"):
                    continue       # the error path: no hasher comes out of it
                pa = peel(payload(a))
                if isinstance(pa, tuple) and len(pa) == 2 and pa[0] == "var":
                    todo.append(pa)
                else:
                    sources.append(pa)
        return bool(sources) and not todo and all(_std_init(f, x, depth + 1, None) for x in sources)
    if not (isinstance(h, tuple) and h and h[0] == "call"):
        return False
    name = strip_generics(h[1])
    if name.endswith("FnvHasher as std::default::Default>::default") or name.endswith("fnv::FnvHasher as Default>::default"):
        return True
    if name.endswith("FnvHasher::with_key") and h[2]:
        return const_int(h[2][0]) == FNV_OFFSET_BASIS
    if depth < 2 and not h[2]:
        hb = f.body(h[1]) or f.body(name)
        if hb is not None:
            return _std_init(f, peel(hb.term_local(0)), depth + 1, hb)
    return False
