"""Hot/cold shard protocol rules for histograms (C02 and C03)."""
import re

from pvrules.mir import is_call, peel, show, strip_generics, subterms
from pvrules.rules import SELF_FIELD, atomic_prim, bypass_guards, const_eval, elem_src, is_zero_skip_filter, const_int, count_range, elem_of, ord_ge, ordering_of, skips_only_zero
from . import hist_common as hcm
from . import vec_common as vc

H = hcm.H
P = hcm.P
SAC_OPS = ["ShardAndCount::inc", "ShardAndCount::inc_by", "ShardAndCount::flip", "ShardAndCount::get"]
CELL_OPS = ["Atomic::inc_by", "Atomic::get", "Atomic::set", "Atomic::dec_by", "AtomicU64::inc_by_with_ordering", "AtomicU64::swap", "AtomicF64::swap",
            "AtomicU64::compare_exchange_weak"]


def core_of(t):
    """Strip Arc deref / self.histogram.core so that shared and local code address the same abstract HistogramCore."""
    return peel(t)


def is_core_field(t, name):
    """t is <core>.<name> where <core> is `self` (HistogramCore methods) or `self.histogram.core` (local flush)."""
    t = peel(t)
    if not (t[0] == "field" and t[2] == name):
        return False
    base = peel(t[1])
    return base == P(1) or base == ("field", ("field", ("deref", P(1)), "histogram"), "core") or (base[0] == "field" and base[2] == "core")


def shard_selector(t):
    """For a term `<core>.shards[X]` return ('claimed'|'inverse', bb of the SAC op) or ('other', X)."""
    if not (t[0] == "index" and is_core_field(t[1], "shards")):
        return None
    x = t[2]
    inv = False
    # usize::from(idx) / idx as usize
    if is_call(x, "From::from"):
        x = x[2][0]
    elif x[0] == "cast":
        x = x[2]
        if x[0] == "discr":
            x = x[1]
    if is_call(x, "ShardIndex::inverse"):
        inv = True
        x = x[2][0]
    x = peel(x)
    if x[0] == "field" and str(x[2]) == "0" and x[1][0] == "call" and is_call(x[1], SAC_OPS):
        return ("inverse" if inv else "claimed", x[1][3], strip_generics(x[1][1]).split("::")[-1])
    return ("other", show(t[2]))


def shard_events(b):
    """All atomic events on the shared histogram state in body b, in block order."""
    evs = []
    for c in b.calls():
        if c.matches(SAC_OPS) and is_core_field(c.args[0], "shard_and_count"):
            op = strip_generics(c.callee).split("::")[-1]
            o = ordering_of(c.args[-1]) if op != "get" else "Relaxed"
            evs.append({"call": c, "comp": "sac", "op": op, "sel": None, "ord": o, "bb": c.bb})
            continue
        if not c.matches(CELL_OPS) or not c.args:
            continue
        recv = peel(c.args[0], transparent=[])
        idx = None
        if is_call(recv, "Index::index"):
            idx = peel(recv[2][1])
            recv = peel(recv[2][0])
        elif isinstance(recv, tuple) and len(recv) == 3 and recv[0] == "field" and str(recv[2]) == "0" and isinstance(recv[1], tuple) and recv[1][0] == "downcast" and recv[1][2] == "Some" \
                and is_call(peel(recv[1][1], transparent=[]), ["slice::get", "Vec::get"]):
            # `if let Some(cell) = shard.buckets.get(i) { cell.inc_by(..) }`
            g_ = peel(recv[1][1], transparent=[])
            idx = peel(g_[2][1])
            recv = peel(g_[2][0], transparent=["Deref::deref"])
        else:
            # a bucket cell reached as the element of an iteration over `shard.buckets` (walked in lock step with other sequences by zip)
            es = elem_src(peel(recv))
            if es and not es[2] and not [a for a in es[1] if a not in ("zip", "iter", "into_iter")]:
                coll = peel(es[0])
                if isinstance(coll, tuple) and coll[0] == "field" and coll[2] == "buckets":
                    idx = ("pos", es[3])
                    recv = coll
        recv = peel(recv)
        if not (recv[0] == "field" and recv[2] in ("count", "sum", "buckets")):
            continue
        sel = shard_selector(peel(recv[1]))
        if sel is None:
            continue
        op = strip_generics(c.callee).split("::")[-1]
        o = None
        for a in c.args[1:]:
            oo = ordering_of(a)
            if isinstance(oo, str):
                o = oo if o is None else o   # first ordering = success ordering for CAS
        evs.append({"call": c, "comp": recv[2], "op": op, "sel": sel, "ord": o, "bb": c.bb, "idx": idx})
    return evs


def lockstep_counts_delta(b, bk_event):
    """The bucket event addresses its cell as the element of `shard.buckets.iter()` walked in lock step (zip) with `self.counts`, and adds the counts element of the
    same step: bucket i receives counts[i] for every i (both sequences are walked whole, no other adapter)."""
    from pvrules.rules import elem_src
    idx = bk_event.get("idx")
    if not (isinstance(idx, tuple) and idx and idx[0] == "pos"):
        return False
    ev = elem_src(peel(bk_event["call"].args[1]))
    if not ev or ev[2] or [a for a in ev[1] if a not in ("zip", "iter", "into_iter", "copied", "cloned")]:
        return False
    # (explicit list: the default peel looks through order-changing adapters such as rev())
    return peel(ev[0], transparent=["Deref::deref", "slice::iter", "Vec::iter", "IntoIterator::into_iter"]) == SELF_FIELD("counts") and ev[3] == idx[1]


def count_of(sac_call):
    return ("field", sac_call.result_term(), "1")


# ---------------------------------------------------------------------------------------------------- C02

def rule_observe_shape(ctx, f, rid, path, key, is_flush):
    """E1 (claim on shard_and_count) first, all shard accesses on the claimed shard, EL (count publication) last."""
    b = ctx.anchor(rid, key, f.body(path))
    if not b:
        return None
    ctx.saw(b)
    evs = shard_events(b)
    sac = [e for e in evs if e["comp"] == "sac"]
    ok = len(sac) == 1 and sac[0]["op"] in ("inc", "inc_by")
    ctx.ob(rid, key + "|one-claim", ok, "%s must claim its slot(s) with exactly one RMW on shard_and_count (found %s)" % (key, [(e["op"]) for e in sac]), site=b.raw["span"]["at"])
    if not ok:
        return None
    e1 = sac[0]
    others = [e for e in evs if e is not e1]
    ctx.ob(rid, key + "|claim-first", all(b.dominates(e1["bb"], e["bb"]) and e["bb"] != e1["bb"] for e in others),
           "the claim on shard_and_count must precede (dominate) every access to a shard", site=e1["call"].span)
    bad = [e for e in others if not (e["sel"] and e["sel"][0] == "claimed" and e["sel"][1] == e1["bb"])]
    ctx.ob(rid, key + "|claimed-shard-only", not bad,
           "every shard access must address shards[index returned by the claim] (found %s)" % [(e["comp"], e["sel"]) for e in bad], site=(bad[0]["call"].span if bad else e1["call"].span))
    cnt = [e for e in others if e["comp"] == "count"]
    ok = len(cnt) == 1 and cnt[0]["op"] in ("inc_by_with_ordering",)
    ctx.ob(rid, key + "|one-publication", ok, "exactly one publication on shard.count (inc_by_with_ordering) expected (found %s)" % [(e["op"]) for e in cnt], site=b.raw["span"]["at"])
    if not ok:
        return None
    el = cnt[0]
    rest = [e for e in others if e is not el]
    after = b.strictly_after(el["bb"])
    ok = all(e["bb"] not in after for e in rest) and all(b.all_paths_pass(e["bb"], [el["bb"]]) for e in rest)
    ctx.ob(rid, key + "|publication-last", ok,
           "the count publication must come after every bucket/sum update on every path (it is the hand-off signal the collector waits for)", site=el["call"].span)
    # exactly once each on the non-skipped path
    skip = []
    if is_flush:
        for bi in b.reachable_blocks():
            be = b.bool_edges(bi)
            if be and be[0][0] == "binop" and be[0][1] in ("Eq", "Ne") and {peel(be[0][2]), peel(be[0][3])} & {SELF_FIELD("count")} and (const_int(be[0][2]) == 0 or const_int(be[0][3]) == 0):
                skip.append((bi, be[1] if be[0][1] == "Eq" else be[2]))
        ctx.ob(rid, key + "|empty-guard", len(skip) == 1 and not (b.reach(skip[0][1]) & {e["bb"] for e in evs}), "flush of an empty local histogram must perform no shared access", site=b.raw["span"]["at"])
    exits = set(b.exits())
    leak = b.reach(0, avoid_blocks=[e1["bb"]], avoid_edges=skip) & exits
    ctx.ob(rid, key + "|claim-on-every-path", not leak, "every (non-empty) path must claim", site=e1["call"].span)
    leak = b.reach(e1["bb"], avoid_blocks=[el["bb"]]) & exits
    ctx.ob(rid, key + "|publish-on-every-path", not leak and count_range(b, [el["bb"]])[1] == 1, "every claim must be followed by exactly one publication", site=el["call"].span)
    # orderings
    ctx.ob(rid, key + "|claim-ordering", isinstance(e1["ord"], str) and ord_ge(e1["ord"], "Acquire"),
           "the claim must be at least Acquire (it synchronises with the previous collector's flip, whose resets must be visible before this thread writes the re-used shard); found %s" % (e1["ord"],), site=e1["call"].span)
    ctx.ob(rid, key + "|publication-ordering", isinstance(el["ord"], str) and ord_ge(el["ord"], "Release"),
           "the count publication must be at least Release (the collector's Acquire CAS on the count is the only happens-before edge to this thread's bucket/sum writes); found %s" % (el["ord"],), site=el["call"].span)
    return b, e1, el, rest


def proto_body(f, b):
    """proto with `..zip(..).map(|..| {..}).collect()` written out as the loop it is (when the bucket walk is not a `for` loop already)."""
    if not [e for e in shard_events(b) if e["comp"] == "buckets"]:
        from pvrules import inline
        b2 = inline.desugar_map_collect(f, b)
        if b2 is not None:
            return b2
    return b


def rule_proto_shape(ctx, f, rid):
    b = ctx.anchor(rid, "HistogramCore::proto", f.body(H + "HistogramCore::proto"))
    if not b:
        return None
    ctx.saw(b)
    b = proto_body(f, b)
    evs = shard_events(b)
    locks = [c for c in b.calls_to("Mutex::lock") if is_core_field(c.args[0], "collect_lock")]
    ok = len(locks) == 1 and all(b.dominates(locks[0].bb, e["bb"]) for e in evs)
    ctx.ob(rid, "proto|lock-first", ok, "proto must take collect_lock before touching shard_and_count or a shard", site=locks[0].span if locks else b.raw["span"]["at"])
    sac = [e for e in evs if e["comp"] == "sac"]
    ok = len(sac) == 1 and sac[0]["op"] == "flip"
    ctx.ob(rid, "proto|one-flip", ok, "exactly one flip of shard_and_count expected (found %s)" % [e["op"] for e in sac], site=b.raw["span"]["at"])
    if not ok or not locks:
        return None
    fl = sac[0]
    others = [e for e in evs if e is not fl]
    ctx.ob(rid, "proto|flip-first", all(b.dominates(fl["bb"], e["bb"]) for e in others), "the flip must precede every shard access", site=fl["call"].span)
    ctx.ob(rid, "proto|flip-ordering", isinstance(fl["ord"], str) and ord_ge(fl["ord"], "Release"),
           "the flip must be at least Release (a later observer's Acquire claim must see this collector's resets of the shard it is redirected to); found %s" % (fl["ord"],), site=fl["call"].span)
    # drains on cold = claimed(F), merges on hot = inverse(F)
    drains = [e for e in others if e["op"] in ("swap", "compare_exchange_weak", "compare_exchange")]
    merges = [e for e in others if e["op"] in ("inc_by", "inc_by_with_ordering")]
    unk = [e for e in others if e not in drains and e not in merges]
    ctx.ob(rid, "proto|event-kinds", not unk, "proto may only drain (swap / CAS) and merge (inc_by) shard cells (found %s)" % [(e["comp"], e["op"]) for e in unk], site=b.raw["span"]["at"])
    badd = [e for e in drains if not (e["sel"][0] == "claimed" and e["sel"][1] == fl["bb"])]
    badm = [e for e in merges if not (e["sel"][0] == "inverse" and e["sel"][1] == fl["bb"])]
    ctx.ob(rid, "proto|drain-cold", not badd, "drains must address the cold shard = shards[index returned by the flip] (found %s)" % [(e["comp"], e["sel"]) for e in badd], site=(badd[0]["call"].span if badd else fl["call"].span))
    ctx.ob(rid, "proto|merge-hot", not badm, "merges must address the hot shard = shards[inverse(index returned by the flip)] (found %s)" % [(e["comp"], e["sel"]) for e in badm], site=(badm[0]["call"].span if badm else fl["call"].span))
    # lock held across all events
    guard = locks[0]
    exp = [c for c in b.calls_to(["Result::expect", "Result::unwrap"]) if peel(c.args[0], transparent=[]) == guard.result_term()]
    holder = exp[0] if exp else guard
    rel = vc.guard_release_blocks(b, holder)
    ok = bool(rel) and all(not (b.reach(r) & {e["bb"] for e in evs}) or False for r in rel) and all(not any(e["bb"] in b.strictly_after(r) for e in evs) for r in rel)
    ctx.ob(rid, "proto|lock-held-across-events", ok,
           "collect_lock must be held until the last shard event: no drain or merge may follow the release of the guard (a second collector could flip and drain a shard this one still owes its count/sum)",
           site=b.span_of_block(rel[0]) if rel else guard.span)
    return b, fl, drains, merges, evs


def rule_C02(ctx, f):
    ctx.rule("R1", "event-sequence conformance to the hot/cold protocol: observe and local flush = claim on shard_and_count first, bucket/sum updates, count publication last, "
                   "each exactly once; proto = lock, flip, spin-CAS on cold.count, drains on the cold shard, merges into the hot shard, all before the guard is released; "
                   "sample_sum reads under the lock")
    ctx.rule("R2", "shard provenance: every shard access of observe/flush addresses shards[idx(claim)]; in proto drains address shards[idx(flip)], merges shards[inverse(idx(flip))]; "
                   "ShardIndex::inverse is the 2-cycle, From<u64> maps 0/1, From<ShardIndex> for usize maps First->0, Second->1")
    ctx.rule("R3", "memory-ordering floors: claim >= Acquire, count publication >= Release, flip >= Release, spin CAS success >= Acquire (orderings forwarded through the wrappers)")
    o = rule_observe_shape(ctx, f, "R1", H + "HistogramCore::observe", "observe", False)
    fl = rule_observe_shape(ctx, f, "R1", H + "LocalHistogramCore::flush", "flush", True)
    pr = rule_proto_shape(ctx, f, "R1")
    if pr:
        b, flip, drains, merges, evs = pr
        cas = [e for e in drains if e["op"].startswith("compare_exchange")]
        ok = len(cas) == 1 and cas[0]["comp"] == "count"
        ctx.ob("R1", "proto|one-spin-cas", ok, "one compare-exchange on cold.count expected", site=b.raw["span"]["at"])
        if ok:
            c = cas[0]["call"]
            ctx.ob("R3", "proto|cas-ordering", isinstance(cas[0]["ord"], str) and ord_ge(cas[0]["ord"], "Acquire"),
                   "the success ordering of the spin CAS must be at least Acquire (it must see the observers' bucket/sum writes published by their Release count update); found %s" % (cas[0]["ord"],), site=c.span)
    rule_R2_index_helpers(ctx, f)
    rule_R4_R5(ctx, f)
    rule_sample_readers(ctx, f, "R1")
    rule_R6_snapshot(ctx, f, "R6")


def rule_R2_index_helpers(ctx, f):
    rid = "R2"
    inv = ctx.anchor(rid, "ShardIndex::inverse", f.body(H + "ShardIndex::inverse"))
    adt = f.adt(H + "ShardIndex")
    names = [v["name"] for v in adt["variants"]] if adt else []
    if inv and len(names) == 2:
        ctx.saw(inv)
        si = inv.switch_info(0)
        m = {}
        if si:
            for v, t in si[1]:
                for st in inv.blocks[t]["stmts"]:
                    if st["k"] == "assign" and st["pl"]["l"] == 0:
                        m[names[v]] = inv.term_rvalue(st["rv"])[2].split("::")[-1]
        ctx.ob(rid, "inverse|two-cycle", m == {names[0]: names[1], names[1]: names[0]}, "ShardIndex::inverse must swap the two shards (found %s)" % m, site=inv.raw["span"]["at"])
    fu = f.body("<prometheus::histogram::ShardIndex as std::convert::From<u64>>::from")
    if fu is not None:
        fu = ctx.anchor(rid, "From<u64> for ShardIndex", fu)
    # (a conversion that does not exist converts nothing: the readers of the packed word are checked where they decode it, R2 `layout`)
    if fu and len(names) == 2:
        ctx.saw(fu)
        si = fu.switch_info(0)
        m = {}
        if si:
            for v, t in si[1]:
                for st in fu.blocks[t]["stmts"]:
                    if st["k"] == "assign" and st["pl"]["l"] == 0:
                        m[v] = fu.term_rvalue(st["rv"])[2].split("::")[-1]
        ctx.ob(rid, "from-u64|table", m == {0: names[0], 1: names[1]} and si is not None and peel(si[0]) == P(1), "From<u64> must map 0 -> %s and 1 -> %s (found %s)" % (names[0], names[1], m), site=fu.raw["span"]["at"])
    tu = ctx.anchor(rid, "From<ShardIndex> for usize", (f.find("<impl std::convert::From<prometheus::histogram::ShardIndex> for usize>::from") or
                                                        f.find(re.compile(r"<impl std::convert::From<prometheus::(?:[a-z_0-9]+::)*ShardIndex> for usize>::from$")) or [None])[0])
    if tu and len(names) == 2:
        ctx.saw(tu)
        si = tu.switch_info(0)
        m = {}
        if si:
            for v, t in si[1]:
                for st in tu.blocks[t]["stmts"]:
                    if st["k"] == "assign" and st["pl"]["l"] == 0:
                        m[names[v]] = const_int(tu.term_rvalue(st["rv"]))
        ctx.ob(rid, "to-usize|table", m == {names[0]: 0, names[1]: 1}, "usize::from(ShardIndex) must map %s -> 0 and %s -> 1 (found %s)" % (names[0], names[1], m), site=tu.raw["span"]["at"])
    if adt:
        ds = {v["name"]: v["discr"] for v in adt["variants"]}
        ctx.ob(rid, "ShardIndex|discriminants", [ds.get(n) for n in names] == ["0", "1"], "ShardIndex discriminants must be 0 and 1 (`idx as usize` is used by the local flush) — found %s" % ds)
    sh = f.adt(H + "HistogramCore")
    if sh:
        fs = {x["name"]: x["ty"] for x in sh["variants"][0]["fields"]}
        ctx.ob(rid, "HistogramCore|two-shards", re.sub(r"prometheus::(?:[a-z_0-9]+::)*", "prometheus::", fs.get("shards", "").replace(" ", "")) == "[prometheus::Shard;2]", "a histogram must have exactly two shards (found %s)" % fs.get("shards"))


def _top_bit_selects_variant(b, f, TOP):
    """`if n & TOP == 0 { First } else { Second }` (any spelling of the test): the zero edge assigns variant 0, the other edge variant 1."""
    adt = f.adt(H + "ShardIndex")
    names = [v["name"] for v in adt["variants"]] if adt else []
    if len(names) != 2:
        return False
    for bi in b.reachable_blocks():
        zero = nonzero = None
        be = b.bool_edges(bi)
        si = b.switch_info(bi)

        def masked(t):
            t = peel(t)
            return isinstance(t, tuple) and t and t[0] == "binop" and t[1] == "BitAnd" and ((peel(t[2]) == P(1) and const_eval(t[3], f) == TOP) or (peel(t[3]) == P(1) and const_eval(t[2], f) == TOP))
        if be and be[0][0] == "binop" and be[0][1] in ("Eq", "Ne") and ((masked(be[0][2]) and const_eval(be[0][3], f) == 0) or (masked(be[0][3]) and const_eval(be[0][2], f) == 0)):
            zero, nonzero = (be[1], be[2]) if be[0][1] == "Eq" else (be[2], be[1])
        elif si and masked(si[0]):
            z = [t for v, t in si[1] if v == 0]
            if len(z) == 1:
                zero, nonzero = z[0], si[2]
        if zero is None:
            continue

        def assigned(edge, other):
            out = set()
            for x in b.reach(edge, avoid_blocks=[bi]) - b.reach(other, avoid_blocks=[bi]):
                for st in b.blocks[x]["stmts"]:
                    if st["k"] == "assign" and st["rv"].get("k") == "agg" and st["rv"].get("agg") == "adt" and st["rv"]["adt"].endswith("ShardIndex"):
                        out.add(st["rv"]["variant"])
            return out
        return assigned(zero, nonzero) == {names[0]} and assigned(nonzero, zero) == {names[1]}
    return False


def rule_R4_R5(ctx, f):
    ctx.rule("R4", "collector exclusion: ShardAndCount::flip is called only from proto; swap / compare-exchange on shard cells only from proto; collect_lock is locked only in proto and sample_sum")
    ctx.rule("R5", "bit-layout agreement: flip adds 1<<63 with the caller's ordering; inc_by adds the caller's delta with the caller's ordering; inc is inc_by(1, ordering); get loads; "
                   "split_shard_index_and_count takes (n >> 63) as index and n & ((1<<63)-1) as count")
    flips, swaps, locks = set(), set(), set()
    for k in f.order:
        b = f.bodies[k]
        if "histogram" not in b.path:
            continue
        for c in b.calls():
            if c.matches("ShardAndCount::flip"):
                flips.add(strip_generics(b.path))
            if c.matches("Mutex::lock") and peel(c.args[0])[0] == "field" and peel(c.args[0])[2] == "collect_lock":
                locks.add(strip_generics(b.path))
        for e in shard_events(b):
            if e["op"] in ("swap", "compare_exchange_weak", "compare_exchange", "set"):
                swaps.add(strip_generics(b.path))
    pr = "prometheus::histogram::HistogramCore::proto"
    ctx.ob("R4", "flip|callers", flips == {pr}, "flip may be called only from proto (found %s)" % sorted(flips))
    ctx.ob("R4", "drain|callers", swaps == {pr}, "shard cells may be reset (swap / CAS / set) only from proto (found %s)" % sorted(swaps))
    ctx.ob("R4", "collect_lock|callers", locks == {pr, "prometheus::histogram::HistogramCore::sample_sum"}, "collect_lock may be locked only in proto and sample_sum (found %s)" % sorted(locks))
    SAC = H + "ShardAndCount::"
    inner = SELF_FIELD("inner")
    b = ctx.anchor("R5", "ShardAndCount::flip", f.body(SAC + "flip"))
    if b:
        ctx.saw(b)
        fa = [c for c in b.calls() if atomic_prim(c)]
        # toggling the top bit: a wrapping add of 2^63 and an xor with 2^63 are the same function on u64
        ok = len(fa) == 1 and atomic_prim(fa[0]) in ("fetch_add", "fetch_xor") and peel(fa[0].args[0]) == inner and fa[0].args[2] == P(2) and count_range(b, [fa[0].bb]) == (1, 1)
        v = fa[0].args[1] if fa else None
        okv = v is not None and const_eval(v, f) == 1 << 63
        sp = b.calls_to("split_shard_index_and_count")
        okr = len(sp) == 1 and fa and sp[0].args[0] == fa[0].result_term() and b.term_local(0) == sp[0].result_term()
        ctx.ob("R5", "flip|adds-top-bit", ok and okv and okr, "flip must be one fetch_add(1 << 63, ordering) on the cell, returning the split previous value", site=b.raw["span"]["at"])
    b = ctx.anchor("R5", "ShardAndCount::inc_by", f.body(SAC + "inc_by"))
    if b:
        ctx.saw(b)
        fa = [c for c in b.calls() if atomic_prim(c)]
        ok = len(fa) == 1 and atomic_prim(fa[0]) == "fetch_add" and peel(fa[0].args[0]) == inner and fa[0].args[1] == P(2) and fa[0].args[2] == P(3) and count_range(b, [fa[0].bb]) == (1, 1)
        sp = b.calls_to("split_shard_index_and_count")
        okr = len(sp) == 1 and fa and sp[0].args[0] == fa[0].result_term() and b.term_local(0) == sp[0].result_term()
        ctx.ob("R5", "inc_by|one-fetch-add", ok and okr, "inc_by must be one fetch_add(delta, ordering) on the cell, returning the split previous value", site=b.raw["span"]["at"])
    b = f.body(SAC + "inc")      # a convenience wrapper: when it is gone its callers use inc_by directly, which R1's event rules see
    if b:
        ctx.anchor("R5", "ShardAndCount::inc", b)
        ctx.saw(b)
        cs = b.calls_to("ShardAndCount::inc_by")
        ok = len(cs) == 1 and cs[0].args[0] == P(1) and const_int(cs[0].args[1]) == 1 and cs[0].args[2] == P(2) and b.term_local(0) == cs[0].result_term()
        ctx.ob("R5", "inc|delegates", ok, "inc must be inc_by(1, ordering)", site=b.raw["span"]["at"])
    b = ctx.anchor("R5", "ShardAndCount::get", f.body(SAC + "get"))
    if b:
        ctx.saw(b)
        fa = [c for c in b.calls() if atomic_prim(c)]
        ok = len(fa) == 1 and atomic_prim(fa[0]) == "load" and peel(fa[0].args[0]) == inner
        sp = b.calls_to("split_shard_index_and_count")
        okr = len(sp) == 1 and fa and sp[0].args[0] == fa[0].result_term() and b.term_local(0) == sp[0].result_term()
        ctx.ob("R5", "get|one-load", ok and okr, "get must be one load of the cell, split", site=b.raw["span"]["at"])
    b = ctx.anchor("R5", "split_shard_index_and_count", f.body(SAC + "split_shard_index_and_count"))
    if b:
        ctx.saw(b)
        r = b.term_local(0)
        ok = r[0] == "agg" and r[1] == "tuple" and len(r[3]) == 2
        if ok:
            i, c = r[3]
            i = peel(i, transparent=["Into::into", "From::from"])
            TOP = 1 << 63
            oki = i[0] == "binop" and i[1] == "Shr" and i[2] == P(1) and const_int(i[3]) == 63
            if not oki:
                oki = _top_bit_selects_variant(b, f, TOP)
            okc = c[0] == "binop" and c[1] == "BitAnd" and P(1) in (c[2], c[3])
            m = c[3] if c[2] == P(1) else c[2]
            okm = const_eval(m, f) == TOP - 1
            ok = oki and okc and okm
        ctx.ob("R5", "split|layout", ok, "split must return (n >> 63, n & ((1 << 63) - 1)) (found %s)" % show(r), site=b.raw["span"]["at"])


def rule_sample_readers(ctx, f, rid):
    b = ctx.anchor(rid, "HistogramCore::sample_sum", f.body(H + "HistogramCore::sample_sum"))
    if b:
        ctx.saw(b)
        evs = shard_events(b)
        locks = [c for c in b.calls_to("Mutex::lock") if is_core_field(c.args[0], "collect_lock")]
        sac = [e for e in evs if e["comp"] == "sac"]
        sm = [e for e in evs if e["comp"] == "sum"]
        ok = len(locks) == 1 and len(sac) == 1 and sac[0]["op"] == "get" and len(sm) == 1 and sm[0]["op"] == "get" and sm[0]["sel"][0] == "claimed" and sm[0]["sel"][1] == sac[0]["bb"] and len(evs) == 2
        if ok:
            guard = locks[0]
            exp = [c for c in b.calls_to(["Result::expect", "Result::unwrap"]) if peel(c.args[0], transparent=[]) == guard.result_term()]
            holder = exp[0] if exp else guard
            rel = vc.guard_release_blocks(b, holder)
            ok = all(b.dominates(guard.bb, e["bb"]) for e in evs) and bool(rel) and all(not any(e["bb"] in b.strictly_after(r) for e in evs) for r in rel)
            ok = ok and peel(b.term_local(0)) == sm[0]["call"].result_term()
        ctx.ob(rid, "sample_sum|under-lock", ok, "sample_sum must read shard_and_count and the hot shard's sum while holding collect_lock, and return that sum", site=b.raw["span"]["at"])
    b = ctx.anchor(rid, "HistogramCore::sample_count", f.body(H + "HistogramCore::sample_count"))
    if b:
        ctx.saw(b)
        evs = shard_events(b)
        ok = len(evs) == 1 and evs[0]["comp"] == "sac" and evs[0]["op"] == "get" and peel(b.term_local(0)) == count_of(evs[0]["call"])
        ctx.ob(rid, "sample_count|total", ok, "sample_count must return the 63-bit count half of one load of shard_and_count", site=b.raw["span"]["at"])


def rule_R6_snapshot(ctx, f, rid):
    ctx.rule(rid, "snapshot assembly: set_sample_count <- count half of the flip, set_sample_sum <- drained cold sum, the returned Histogram is the one filled")
    b = f.body(H + "HistogramCore::proto")
    if not b:
        return
    evs = shard_events(b)
    fl = [e for e in evs if e["comp"] == "sac"]
    ssum = b.calls_to(["Histogram::set_sample_sum", "set_sample_sum"])
    scnt = b.calls_to(["Histogram::set_sample_count", "set_sample_count"])
    dsum = [e for e in evs if e["comp"] == "sum" and e["op"] == "swap"]
    ok = len(fl) == 1 and len(ssum) == 1 and len(scnt) == 1 and len(dsum) == 1
    if ok:
        ok = peel(scnt[0].args[1]) == count_of(fl[0]["call"]) and peel(ssum[0].args[1]) == dsum[0]["call"].result_term() and peel(ssum[0].args[0]) == peel(scnt[0].args[0]) == peel(b.term_local(0))
        ok = ok and count_range(b, [ssum[0].bb]) == (1, 1) and count_range(b, [scnt[0].bb]) == (1, 1)
    ctx.ob(rid, "proto|count-and-sum", ok, "the snapshot's count must be the count at the flip and its sum the value drained from the cold shard", site=b.raw["span"]["at"])


# ---------------------------------------------------------------------------------------------------- C03

def _merged_once(b, merge, ref_bb, delta, unsigned):
    """The merge event runs exactly once, or at most once where every condition it has beyond those of the (unconditional) reference block
    only skips the addition of a zero delta."""
    rng = count_range(b, [merge["bb"]])
    if rng == (1, 1):
        return True
    if rng != (0, 1) or ref_bb is None:
        return False
    extra = [g for g in bypass_guards(b, merge["bb"]) if g not in bypass_guards(b, ref_bb)]
    return bool(extra) and all(skips_only_zero(b, g, merge["bb"], delta, unsigned) for g in extra)


def rule_C03(ctx, f):
    ctx.rule("R1", "conservation pairing in proto: each drained component (count, sum, every bucket i) is reset on the cold shard by the operation that yields the drained value, "
                   "merged exactly once into the SAME component and index of the hot shard, and reported exactly once in the snapshot, before the guard is released; the bucket loop "
                   "covers all upper_bounds with one index")
    ctx.rule("R2", "batch flush is all-or-nothing: one claim of self.count slots precedes all writes, one publication of the same self.count follows them; bucket deltas are counts[i] at "
                   "matching i over all i; the sum delta is self.sum; clear() follows on every path")
    ctx.rule("R3", "spin exit condition: the wait loop's only exit is the success edge of cold.count.CAS(expected = count at the flip, new = 0) and its body has no other effect")
    ctx.rule("R4", "readers: sample_count returns the count half of one load; sample_sum reads the hot shard under the collect lock")
    ctx.rule("R5", "who-may-write: Shard.{sum,count,buckets} and shard_and_count are mutated only in observe, LocalHistogramCore::flush and proto")
    pr = rule_proto_shape(ctx, f, "R1")
    if pr:
        b, fl, drains, merges, evs = pr
        n = count_of(fl["call"])
        # count: CAS(n -> 0) / merge hot.count.inc_by(n)
        cas = [e for e in drains if e["comp"] == "count"]
        mc = [e for e in merges if e["comp"] == "count"]
        _ds = [e for e in drains if e["comp"] == "sum"]
        ref_bb = _ds[0]["bb"] if len(_ds) == 1 and count_range(b, [_ds[0]["bb"]]) == (1, 1) else None
        ok = len(cas) == 1 and len(mc) == 1
        if ok:
            c = cas[0]["call"]
            ok = peel(c.args[1]) == n and const_int(c.args[2]) == 0 and peel(mc[0]["call"].args[1]) == n and _merged_once(b, mc[0], ref_bb, n, True)
        ctx.ob("R1", "proto|count-conserved", ok, "the cold count must be reset from n (count at the flip) to 0 and exactly n added to the hot count, once", site=(mc[0]["call"].span if mc else b.raw["span"]["at"]))
        if len(cas) == 1:
            c = cas[0]["call"]
            # R3 spin: loop exits only on success
            ok3 = False
            for bi in b.reach(c.bb):
                be = b.bool_edges(bi)
                si_ = b.switch_info(bi)
                err_edge = ok_edge = None
                if be and is_call(be[0], ["Result::is_err", "Result::is_ok"]) and peel(be[0][2][0], transparent=[]) == c.result_term():
                    err_edge = be[1] if is_call(be[0], "Result::is_err") else be[2]
                    ok_edge = be[2] if is_call(be[0], "Result::is_err") else be[1]
                elif si_ and si_[0][0] == "discr" and peel(si_[0][1], transparent=[]) == c.result_term():
                    # `match cas { Ok(_) => break, Err(_) => continue }`
                    oks = [t for v, t in si_[1] if v == 0]
                    ers = [t for v, t in si_[1] if v == 1] or ([si_[2]] if b.blocks[si_[2]]["term"]["k"] != "unreachable" else [])
                    if len(oks) == 1 and len(ers) == 1:
                        ok_edge, err_edge = oks[0], ers[0]
                if err_edge is not None:
                    back = c.bb in b.reach(err_edge, avoid_blocks=[ok_edge])
                    body = b.reach(err_edge, avoid_blocks=[c.bb])
                    side = [e for e in evs if e["bb"] in body and e["bb"] != c.bb and c.bb in b.reach(e["bb"]) and e["bb"] not in b.reach(ok_edge)]
                    exits_other = [x for x in b.exits() if x in b.reach(err_edge, avoid_blocks=[c.bb])]
                    ok3 = back and not side and not exits_other
                    break
            ctx.ob("R3", "proto|spin-exit", ok3, "the spin must retry the CAS until it succeeds, with no other effect and no other exit", site=c.span)
        # sum
        ds = [e for e in drains if e["comp"] == "sum"]
        ms = [e for e in merges if e["comp"] == "sum"]
        ok = len(ds) == 1 and len(ms) == 1
        if ok:
            ok = ds[0]["op"] == "swap" and const_int(ds[0]["call"].args[1]) == 0 and peel(ms[0]["call"].args[1]) == ds[0]["call"].result_term() and _merged_once(b, ms[0], ds[0]["bb"], ds[0]["call"].result_term(), False) and count_range(b, [ds[0]["bb"]]) == (1, 1)
        ctx.ob("R1", "proto|sum-conserved", ok, "the cold sum must be swapped with 0 and exactly the drained value added to the hot sum, once", site=(ms[0]["call"].span if ms else b.raw["span"]["at"]))
        # buckets
        db = [e for e in drains if e["comp"] == "buckets"]
        mb = [e for e in merges if e["comp"] == "buckets"]
        ok = len(db) == 1 and len(mb) == 1
        if ok:
            ok = db[0]["op"] == "swap" and const_int(db[0]["call"].args[1]) == 0 and peel(mb[0]["call"].args[1]) == db[0]["call"].result_term() and db[0]["idx"] == mb[0]["idx"]
            if ok and isinstance(db[0]["idx"], tuple) and db[0]["idx"][0] == "pos":
                # lock-step walk: the same iteration step yields the cold cell, the hot cell and the bound (all three plain iterations zipped together)
                nxc = db[0]["idx"][1]
                srcs = [x for x in subterms(nxc[2][0]) if isinstance(x, tuple) and len(x) == 3 and x[0] == "field" and x[2] in ("upper_bounds", "buckets")]
                ok = any(x[2] == "upper_bounds" and is_core_field(x, "upper_bounds") for x in srcs) and len([x for x in srcs if x[2] == "buckets"]) == 2
                ei = None
            else:
                ei = elem_of(db[0]["idx"])
                ok = ok and bool(ei) and is_core_field(ei[0], "upper_bounds") and ei[2] == ["0"] and not [a for a in ei[1] if a not in ("iter", "into_iter", "enumerate")]
            # once per iteration
            nx = [c for c in b.calls_to("Iterator::next") if db[0]["bb"] in b.reach(c.bb)]
            if ok and nx:
                from pvrules.rules import count_range_region
                si = b.switch_info(nx[-1].target)
                be_ = [t for v, t in si[1] if v == 1][0]
                ok = count_range_region(b, [db[0]["bb"]], be_, [nx[-1].bb]) == (1, 1)
                rm = count_range_region(b, [mb[0]["bb"]], be_, [nx[-1].bb])
                if ok and rm == (0, 1):
                    extra = [g for g in bypass_guards(b, mb[0]["bb"]) if g not in bypass_guards(b, db[0]["bb"])]
                    ok = bool(extra) and all(skips_only_zero(b, g, mb[0]["bb"], db[0]["call"].result_term(), True) for g in extra)
                elif ok:
                    ok = rm == (1, 1)
        ctx.ob("R1", "proto|buckets-conserved", ok, "for every bound index i the cold bucket i must be swapped with 0 and exactly the drained value added to hot bucket i", site=(mb[0]["call"].span if mb else b.raw["span"]["at"]))
    rule_R6_snapshot(ctx, f, "R1")
    # ---- R2 flush
    fl = rule_observe_shape(ctx, f, "R2", H + "LocalHistogramCore::flush", "flush", True)
    if fl:
        b, e1, el, rest = fl
        cnt = SELF_FIELD("count")
        ctx.ob("R2", "flush|claims-count", peel(e1["call"].args[1]) == cnt and e1["op"] == "inc_by", "the claim must reserve exactly self.count slots (found %s)" % show(e1["call"].args[1]), site=e1["call"].span)
        ctx.ob("R2", "flush|publishes-count", peel(el["call"].args[1]) == cnt, "the publication must add exactly self.count (found %s)" % show(el["call"].args[1]), site=el["call"].span)
        sm = [e for e in rest if e["comp"] == "sum"]
        bk = [e for e in rest if e["comp"] == "buckets"]
        ok = len(sm) == 1 and peel(sm[0]["call"].args[1]) == SELF_FIELD("sum") and count_range(b, [sm[0]["bb"]])[1] == 1 and b.all_paths_pass(e1["bb"], [sm[0]["bb"]])
        ctx.ob("R2", "flush|sum-delta", ok, "the batch's sum (self.sum) must be added exactly once", site=sm[0]["call"].span if sm else b.raw["span"]["at"])
        ok = len(bk) == 1
        if ok:
            zf = lambda t_: is_zero_skip_filter(f, t_)   # noqa: E731  (a filter that drops zero counts only)
            lock = lockstep_counts_delta(b, bk[0])
            ei = elem_of(bk[0]["idx"], filter_ok=zf) if not lock else None
            ev = elem_of(peel(bk[0]["call"].args[1]), filter_ok=zf) if not lock else None
            ok = lock or (bool(ei) and bool(ev) and ei[0] == ev[0] == SELF_FIELD("counts") and ei[2] == ["0"] and ev[2] == ["1"] and not [a for a in ei[1] if a not in ("iter", "into_iter", "enumerate", "filter")])
            if lock:
                # inside the loop the addition may be skipped only for a zero delta
                hdr = bk[0]["idx"][1][3] if isinstance(bk[0]["idx"][1], tuple) and len(bk[0]["idx"][1]) == 4 else None
                extra = [g for g in bypass_guards(b, bk[0]["bb"]) if hdr is not None and g != hdr and g not in bypass_guards(b, hdr)
                         and not (b.switch_info(g) and b.switch_info(g)[0][0] == "discr" and is_call(peel(b.switch_info(g)[0][1], transparent=[]), "Iterator::next"))]
                ok = hdr is not None and all(skips_only_zero(b, g, bk[0]["bb"], bk[0]["call"].args[1], True) for g in extra)
            elif ok:
                # inside the loop the addition may be skipped only for a zero delta
                nx_ = [c for c in b.calls_to("Iterator::next") if c.result_term() in list(subterms(bk[0]["idx"]))]
                hdr = nx_[0].bb if len(nx_) == 1 else None
                extra = [g for g in bypass_guards(b, bk[0]["bb"]) if hdr is not None and g != hdr and g not in bypass_guards(b, hdr)
                         and not (b.switch_info(g) and b.switch_info(g)[0][0] == "discr" and peel(b.switch_info(g)[0][1]) == nx_[0].result_term())]
                ok = hdr is not None and all(skips_only_zero(b, g, bk[0]["bb"], bk[0]["call"].args[1], True) for g in extra)
            # same iteration (same next call)
            ok = ok and (lock or [s for s in subterms(bk[0]["idx"]) if isinstance(s, tuple) and s and s[0] == "call" and is_call(s, "Iterator::next")] == \
                [s for s in subterms(peel(bk[0]["call"].args[1])) if isinstance(s, tuple) and s and s[0] == "call" and is_call(s, "Iterator::next")])
        ctx.ob("R2", "flush|bucket-deltas", ok, "for every i the shared bucket i must receive counts[i] (one index for cell and delta, all of counts)", site=bk[0]["call"].span if bk else b.raw["span"]["at"])
        cl = b.calls_to("LocalHistogramCore::clear")
        ok = len(cl) == 1 and peel(cl[0].args[0]) == P(1) and b.all_paths_pass(e1["bb"], [cl[0].bb]) and cl[0].bb in b.strictly_after(el["bb"])
        ctx.ob("R2", "flush|clears-after", ok, "after the batch is published the local buffer must be cleared on every path", site=cl[0].span if cl else b.raw["span"]["at"])
    rule_sample_readers(ctx, f, "R4")
    # ---- R5 who-may-write
    writers = {}
    for k in f.order:
        bb = f.bodies[k]
        if "histogram" not in bb.path:
            continue
        for e in shard_events(proto_body(f, bb) if strip_generics(bb.path).endswith("HistogramCore::proto") else bb):
            if e["op"] not in ("get",):
                # (events inside a closure belong to the function that contains the closure)
                writers.setdefault(e["comp"], set()).add(re.sub(r"(::\{closure#\d+\})+$", "", strip_generics(bb.path)).replace("prometheus::histogram::", ""))
    allowed = {"HistogramCore::observe", "LocalHistogramCore::flush", "HistogramCore::proto"}
    for comp in ("sac", "count", "sum", "buckets"):
        ctx.ob("R5", "writers|" + comp, writers.get(comp, set()) == allowed, "%s must be written exactly by observe, flush and proto (found %s)" % (comp, sorted(writers.get(comp, []))))
