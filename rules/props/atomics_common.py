"""Rules shared by C01 (counters) and C11 (gauges): the atomic cells in src/atomic64.rs and the
delegation wrappers in src/value.rs."""
import math
import re

from pvrules.mir import is_call, peel, show, strip_generics, subterms, term_calls
from pvrules.rules import (ATOMIC_RE, PURE, SELF_FIELD, atomic_prim, atomic_prim_term, const_int, count_range,
                           effect_calls, ordering_of, site)

A64 = "prometheus::atomic64::"
CELLS = {
    "AtomicF64": "u64",
    "AtomicI64": "i64",
    "AtomicU64": "u64",
}
INNER = SELF_FIELD("inner")


def is_inner(t):
    return peel(t) == INNER


def rule_R1_cells(ctx, f, rid="R1"):
    ctx.rule(rid, "single-cell representation: each Atomic{F64,I64,U64} has exactly one field, a std 64-bit atomic; "
                  "Value.val is that cell; counters/gauges share it through an Arc")
    for name, prim in CELLS.items():
        adt = ctx.anchor(rid, name, f.adt(A64 + name))
        if not adt:
            continue
        fields = adt["variants"][0]["fields"]
        ok = len(fields) == 1 and re.fullmatch(r"std::sync::atomic::(Atomic<%s>|Atomic%s)" % (prim, prim.upper()), fields[0]["ty"]) is not None
        ctx.ob(rid, name + ".fields", ok, "%s must consist of exactly one std atomic 64-bit cell (found %s)" % (
            name, [(x["name"], x["ty"]) for x in fields]), site=adt["span"]["at"])
    v = ctx.anchor(rid, "Value", f.adt("prometheus::value::Value"))
    if v:
        fs = {x["name"]: x["ty"] for x in v["variants"][0]["fields"]}
        ctx.ob(rid, "Value.val", fs.get("val") == "P", "Value<P>.val must be the atomic cell P itself (found %s)" % fs.get("val"))
    for adt_name, fld in (("prometheus::counter::GenericCounter", "v"), ("prometheus::gauge::GenericGauge", "v")):
        a = ctx.anchor(rid, adt_name, f.adt(adt_name))
        if a:
            fs = {x["name"]: x["ty"] for x in a["variants"][0]["fields"]}
            ctx.ob(rid, adt_name.split("::")[-1] + ".v", fs.get(fld) == "std::sync::Arc<prometheus::value::Value<P>>" and len(fs) == 1,
                   "%s must hold exactly one Arc<Value<P>> (found %s)" % (adt_name, fs))


def _self_calls(body):
    """Calls on methods of the same crate whose receiver is `self` itself (delegation)."""
    res = []
    for c in body.calls():
        if c.args and peel(c.args[0]) == ("param", 1) and "prometheus::" in c.callee:
            res.append(c)
    return res


EXPECT = {
    # method: allowed primitive kinds
    "set": {"store", "swap"},   # an unconditional swap whose result is dropped is a store
    "get": {"load"},
    "inc_by": {"fetch_add"},
    "dec_by": {"fetch_sub"},
}


def atomic_events(body):
    """(callsite, prim) for std atomic primitives applied to self.inner"""
    ev = []
    for c in body.calls():
        p = atomic_prim(c)
        if p:
            ev.append((c, p))
    return ev


def rule_R2_one_access(ctx, f, rid="R2", methods=("set", "get", "inc_by", "dec_by")):
    ctx.rule(rid, "every Atomic::{set,get,inc_by,dec_by} impl performs exactly one atomic primitive of the expected kind on "
                  "self.inner on every normal path, with the caller's value as operand, or delegates exactly once to a sibling "
                  "that does (dec_by -> inc_by needs a negated operand), or is a well-formed CAS loop (R3)")
    n_bodies = 0
    cas_loops = []
    for cell in CELLS:
        for m in methods:
            path = "<%s%s as %sAtomic>::%s" % (A64, cell, A64, m)
            b = ctx.anchor(rid, "%s::%s" % (cell, m), f.body(path))
            if not b:
                continue
            ctx.saw(b)
            n_bodies += 1
            key = "%s::%s" % (cell, m)
            ev = atomic_events(b)
            other_cell = [c for c, p in ev if not is_inner(c.args[0])]
            ctx.ob(rid, key + "|cell", not other_cell, "all atomic accesses in %s must be on self.inner" % key,
                   site=b.raw["span"]["at"])
            deleg = _self_calls(b)
            eff = [c for c in effect_calls(b) if not atomic_prim(c) and c not in deleg
                   and not c.matches(["u64_to_f64", "f64_to_u64", "f64::from_bits", "f64::to_bits", "Result::is_ok", "Result::is_err", "i64::wrapping_neg", "wrapping_neg"])]
            ctx.ob(rid, key + "|no-other-effects", not eff, "%s must contain no other effectful call (found %s)" % (key, eff))
            kinds = [p for _, p in ev]
            if any(p in ("compare_exchange", "compare_exchange_weak") for p in kinds):
                cas_loops.append((cell, m, b))
                continue
            if kinds == ["fetch_update"] and m == "inc_by":
                # std's own CAS loop: the update closure must be bits -> Some(bits(float(bits) + delta)) and the call must be executed once
                c = ev[0][0]
                okf = is_inner(c.args[0]) and count_range(b, [c.bb]) == (1, 1)
                cl_t = c.args[3] if len(c.args) > 3 else None
                cl = f.closure(cl_t[2]) if (isinstance(cl_t, tuple) and cl_t and cl_t[0] == "agg" and cl_t[1] == "closure") else None
                if okf and cl is not None:
                    r = cl.term_local(0)
                    okf = isinstance(r, tuple) and r[0] == "agg" and r[2].endswith("Option::Some")
                    if okf:
                        n = peel(r[3][0], transparent=["f64_to_u64", "f64::to_bits"], refs=False)
                        okf = isinstance(n, tuple) and n[0] == "binop" and n[1] == "Add"
                        if okf:
                            xs = [peel(n[2], transparent=["u64_to_f64", "f64::from_bits"]), peel(n[3], transparent=["u64_to_f64", "f64::from_bits"])]
                            caps = [peel(x) for x in cl_t[3]]
                            # one operand is the closure's argument (the current bits), the other the captured delta (= the method's parameter)
                            isarg = [x == ("param", 2) for x in xs]
                            iscap = [(x[0] == "field" and peel(x[1]) == ("param", 1) and str(x[2]).isdigit() and int(x[2]) < len(caps) and caps[int(x[2])] == ("param", 2)) if isinstance(x, tuple) and x else False for x in xs]
                            okf = (isarg[0] and iscap[1]) or (isarg[1] and iscap[0])
                else:
                    okf = False
                ctx.ob(rid, key + "|one-primitive", okf, "%s as fetch_update must apply bits -> Some(bits(float(bits) + delta)) once (std retries the CAS itself)" % key, site=c.span)
                if okf:
                    cas_loops.append((cell, m, None))
                continue
            if ev and not deleg:
                blocks = [c.bb for c, _ in ev]
                rng = count_range(b, blocks)
                ok = rng == (1, 1) and len(ev) == 1 and kinds[0] in EXPECT[m]
                negated_add = False
                if not ok and m == "dec_by" and rng == (1, 1) and len(ev) == 1 and kinds[0] == "fetch_add":
                    # x - d == x + (-d) in two's complement: fetch_add(d.wrapping_neg()) is fetch_sub(d)
                    a1 = peel(ev[0][0].args[1], transparent=[])
                    negated_add = (is_call(a1, ["wrapping_neg"]) and peel(a1[2][0]) == ("param", 2)) or (isinstance(a1, tuple) and a1[0] == "unop" and a1[1] == "Neg" and peel(a1[2]) == ("param", 2))
                    ok = negated_add
                ctx.ob(rid, key + "|one-primitive", ok,
                       "%s must perform exactly one %s on every path (found %s, per-path count %s)" % (key, "/".join(sorted(EXPECT[m])), kinds, rng),
                       site=site(b, blocks[0]))
                c = ev[0][0]
                if m in ("set", "inc_by", "dec_by") and ok and not negated_add:
                    val = peel(c.args[1], transparent=["f64_to_u64", "f64::to_bits"])
                    ctx.ob(rid, key + "|operand", val == ("param", 2),
                           "the operand of the %s in %s must be the caller's value unchanged (found %s)" % (kinds[0], key, show(c.args[1])), site=c.span)
                if m == "get" and ok:
                    r = peel(b.term_local(0), transparent=["u64_to_f64", "f64::from_bits"])
                    ctx.ob(rid, key + "|result", r == c.result_term(),
                           "%s must return the loaded value (found %s)" % (key, show(b.term_local(0))), site=c.span)
            elif deleg and not ev:
                rng = count_range(b, [c.bb for c in deleg])
                c = deleg[0]
                ok = rng == (1, 1) and len(deleg) == 1
                tgt = strip_generics(c.callee).split("::")[-1]
                arg = c.args[1] if len(c.args) > 1 else None
                if m == "inc_by":
                    # AtomicU64::inc_by -> inc_by_with_ordering(delta, ord)
                    ok = ok and tgt == "inc_by_with_ordering" and arg == ("param", 2)
                    tb = f.body(A64 + cell + "::inc_by_with_ordering")
                    ok2 = False
                    if tb:
                        ctx.saw(tb)
                        tev = atomic_events(tb)
                        ok2 = (len(tev) == 1 and tev[0][1] == "fetch_add" and is_inner(tev[0][0].args[0])
                               and tev[0][0].args[1] == ("param", 2) and count_range(tb, [tev[0][0].bb]) == (1, 1))
                    ctx.ob(rid, key + "|delegate", ok and ok2,
                           "%s must forward its delta unchanged to a sibling that performs one fetch_add (found call %s(%s))" % (
                               key, tgt, show(arg) if arg else ""), site=c.span)
                elif m == "dec_by":
                    neg = isinstance(arg, tuple) and arg[0] == "unop" and arg[1] == "Neg" and arg[2] == ("param", 2)
                    neg = neg or (is_call(arg, "Neg::neg") and arg[2][0] == ("param", 2))
                    ctx.ob(rid, key + "|delegate", ok and tgt == "inc_by" and neg,
                           "%s may delegate only to inc_by with the negated delta (found %s(%s))" % (key, tgt, show(arg) if arg else ""), site=c.span)
                else:
                    ctx.ob(rid, key + "|delegate", False, "%s must access the cell directly (found delegation to %s)" % (key, tgt), site=c.span)
            else:
                ctx.ob(rid, key + "|one-primitive", False,
                       "%s must perform exactly one atomic primitive or one delegation (found primitives %s, delegations %s)" % (
                           key, kinds, [strip_generics(c.callee) for c in deleg]), site=b.raw["span"]["at"])
    # inherent helpers
    for cell, m, prim, nargs in (("AtomicF64", "swap", "swap", 3), ("AtomicU64", "swap", "swap", 3),
                                 ("AtomicU64", "compare_exchange_weak", ("compare_exchange_weak", "compare_exchange"), 5),
                                 ("AtomicU64", "inc_by_with_ordering", "fetch_add", 3)):
        b = ctx.anchor(rid, "%s::%s" % (cell, m), f.body(A64 + cell + "::" + m))
        if not b:
            continue
        ctx.saw(b)
        n_bodies += 1
        ev = atomic_events(b)
        prims = (prim,) if isinstance(prim, str) else prim
        ok = len(ev) == 1 and ev[0][1] in prims and is_inner(ev[0][0].args[0]) and count_range(b, [ev[0][0].bb]) == (1, 1)
        # arguments forwarded positionally (orderings included)
        fw = True
        if ok:
            c = ev[0][0]
            for i in range(1, nargs):
                a = peel(c.args[i], transparent=["f64_to_u64", "f64::to_bits"])
                fw = fw and a == ("param", i + 1)
        ctx.ob(rid, "%s::%s|one-primitive" % (cell, m), ok and fw,
               "%s::%s must be exactly one %s on self.inner with its arguments (value and orderings) forwarded in position (found %s)" % (
                   cell, m, "/".join(prims), [(p, [show(a) for a in c.args]) for c, p in ev]), site=b.raw["span"]["at"])
    ctx.floor(rid, "atomic method bodies", n_bodies, 16)
    return cas_loops


def same_site(t, c):
    """t is the result of call site c (calls are identified by their block, unique within a body)."""
    return isinstance(t, tuple) and len(t) == 4 and t[0] == "call" and t[3] == c.bb


def rule_R3_cas_loop(ctx, f, cas_loops, rid="R3"):
    ctx.rule(rid, "CAS-loop well-formedness: expected operand and the value `new` is computed from come from the same load "
                  "(or the Err payload of the previous CAS); new = bits(float(expected) + delta); return only on the success edge; "
                  "the failure edge re-reads before retrying")
    ctx.floor(rid, "CAS loops", len(cas_loops), 1)
    for cell, m, b in cas_loops:
        if b is None:
            continue   # fetch_update form: checked in R2
        key = "%s::%s" % (cell, m)
        ev = atomic_events(b)
        cas = [c for c, p in ev if p.startswith("compare_exchange")]
        loads = [c for c, p in ev if p == "load"]
        others = [p for c, p in ev if p not in ("load", "compare_exchange", "compare_exchange_weak")]
        ctx.ob(rid, key + "|shape", len(cas) == 1 and not others and m in ("inc_by", "dec_by"),
               "%s: a CAS loop is expected only in inc_by / dec_by, with one CAS site and loads only (found cas=%d, others=%s)" % (key, len(cas), others),
               site=b.raw["span"]["at"])
        if len(cas) != 1:
            continue
        c = cas[0]
        expected, new = c.args[1], c.args[2]
        # (a) provenance of expected
        def fresh_value(t):
            if atomic_prim_term(t) == "load" and is_inner(t[2][0]):
                return [t]
            if t[0] == "var":
                res = []
                for a in b.var_alts(t[1]):
                    if atomic_prim_term(a) == "load" and is_inner(a[2][0]):
                        res.append(a)
                    elif a[0] in ("field", "downcast") and any(s[0] == "call" and s[3] == c.bb for s in subterms(a) if isinstance(s, tuple) and s):
                        res.append(a)
                    else:
                        return None
                return res
            return None
        fv = fresh_value(expected)
        ctx.ob(rid, key + "|expected-is-fresh-read", fv is not None,
               "the expected operand of the CAS must be a value read from self.inner (load, or the Err payload of the previous CAS); found %s" % show(expected),
               site=c.span)
        # (b) new = f64_to_u64(u64_to_f64(expected) + delta)
        n = peel(new, transparent=["f64_to_u64", "f64::to_bits"], refs=False)
        okb = False
        def is_delta(y, negated):
            y = peel(y, refs=False)
            if not negated:
                return y == ("param", 2)
            return (isinstance(y, tuple) and y[0] == "unop" and y[1] == "Neg" and peel(y[2], refs=False) == ("param", 2)) \
                or (is_call(y, "Neg::neg") and peel(y[2][0], refs=False) == ("param", 2))

        def is_exp(x):
            return peel(x, transparent=["u64_to_f64", "f64::from_bits"], refs=False) == expected
        if isinstance(n, tuple) and n[0] == "binop" and n[1] == "Add":
            a1, a2 = n[2], n[3]
            for x, y in ((a1, a2), (a2, a1)):
                if is_exp(x) and is_delta(y, m == "dec_by"):
                    okb = True
        if isinstance(n, tuple) and n[0] == "binop" and n[1] == "Sub" and m == "dec_by":
            # float(expected) - delta, in this order only
            okb = is_exp(n[2]) and is_delta(n[3], False)
        ctx.ob(rid, key + "|new-from-expected", okb,
               "new must be bits(float(expected) + delta) (dec_by: + (-delta) or - delta) with the SAME expected value that is passed to the CAS; found new=%s expected=%s" % (show(new), show(expected)),
               site=c.span)
        # (c) return only through the success edge / (d) failure edge goes back to a fresh read
        res_t = c.result_term()
        succ_targets, fail_targets = set(), set()
        for bi in b.reachable_from(c.bb):
            be = b.bool_edges(bi)
            si = b.switch_info(bi)
            if be:
                cond, t_true, t_false = be
                if is_call(cond, "Result::is_ok") and same_site(peel(cond[2][0]), c):
                    succ_targets.add(t_true); fail_targets.add(t_false)
                elif is_call(cond, "Result::is_err") and same_site(peel(cond[2][0]), c):
                    succ_targets.add(t_false); fail_targets.add(t_true)
            elif si and si[0][0] == "discr" and same_site(si[0][1], c):
                for v, tgt in si[1]:
                    (succ_targets if v == 0 else fail_targets).add(tgt)
                if len(si[1]) == 1:
                    (fail_targets if si[1][0][0] == 0 else succ_targets).add(si[2])
        ctx.ob(rid, key + "|result-tested", bool(succ_targets) and bool(fail_targets),
               "the CAS result must be tested (is_ok / is_err / match) to decide between return and retry", site=c.span)
        if succ_targets and fail_targets:
            exits = set(b.exits())
            bad = set()
            for ft in fail_targets:
                bad |= (b.reachable_from(ft, avoid=[c.bb]) & exits)
            ctx.ob(rid, key + "|return-only-on-success", not bad,
                   "no return may be reachable from the failure edge of the CAS without a successful CAS in between", site=c.span)
            back = all(c.bb in b.reachable_from(ft) for ft in fail_targets)
            ctx.ob(rid, key + "|retry", back, "the failure edge must lead back to the CAS (retry)", site=c.span)
            # the CAS dominates every return (no path publishes nothing) -- ignoring nothing: an early return is a lost increment
            dom = all(b.dominates(c.bb, e) for e in exits)
            ctx.ob(rid, key + "|cas-dominates-return", dom, "every return of %s must be dominated by the CAS" % key, site=c.span)
            if fv:
                # a load used as expected must be re-executed on every retry path
                for l in fv:
                    if atomic_prim_term(l) == "load" and expected[0] != "var":
                        lb = l[3]
                        ok = all(c.bb not in b.reachable_from(ft, avoid=[lb]) for ft in fail_targets)
                        ctx.ob(rid, key + "|reload-on-retry", ok,
                               "every retry path must pass through the load that produces the expected value", site=site(b, lb))


def rule_R4_no_nonatomic_rmw(ctx, facts_list, rid="R4"):
    ctx.rule(rid, "no non-atomic read-modify-write anywhere: no value loaded from an atomic cell (load / get) reaches a plain "
                  "store / set of the same cell in the same body")
    n_sites = 0
    hits = []
    for f in facts_list:
        for k in f.order:
            b = f.bodies[k]
            for c in b.calls():
                p = atomic_prim(c)
                is_store = p in ("store", "swap")
                is_set = c.matches(["Atomic::set", "Value::set", "GenericGauge::set"]) and "prometheus::" in c.callee
                if not (is_store or is_set):
                    continue
                n_sites += 1
                cell = peel(c.args[0])
                val = c.args[1]
                for s in term_calls(val):
                    if not s[2]:
                        continue
                    if (atomic_prim_term(s) == "load" or is_call(s, ["Atomic::get", "Value::get", "GenericGauge::get", "GenericCounter::get"])) \
                            and peel(s[2][0]) == cell:
                        hits.append((b, c, s))
    ctx.extra["R4_store_sites_scanned"] = n_sites
    ctx.floor(rid, "store/set sites scanned", n_sites, 4)
    for b, c, s in hits:
        ctx.ob(rid, "%s|%s" % (b.path, strip_generics(c.callee)), False,
               "non-atomic read-modify-write: %s stores a value computed from %s of the same cell" % (strip_generics(c.callee), show(s)), site=c.span)
    if not hits:
        ctx.ob(rid, "crate-wide", True, "no load-then-store on one atomic cell in %d store/set sites" % n_sites)
    return hits


def check_wrapper(ctx, rid, f, path, callee_pat, recv, args, key=None, extra_pure=(), ret_is_call=False):
    """The body `path` must contain exactly one effectful call, to callee_pat, on receiver term `recv` (after peeling),
    executed exactly once on every normal path, with argument terms `args` (list of predicates or terms, receiver excluded)."""
    b = ctx.anchor(rid, key or path, f.body(path))
    if not b:
        return None
    ctx.saw(b)
    key = key or strip_generics(b.path)
    if callee_pat in TERMINAL_OF:
        # what counts is the cell operation the chain of thin wrappers ends in, not how the chain is cut into functions:
        # the Value<P> layer is expanded in place and the body is compared with the terminal operation of the expected callee
        from pvrules import inline
        b = inline.expand_body(f, b, lambda pth: bool(re.match(r"^prometheus::(value::Value::(inc_by|dec_by|set|get|inc|dec)|gauge::GenericGauge::(add|sub|set|get))$", strip_generics(pth))))
        tpat, targs = TERMINAL_OF[callee_pat]
        callee_pat = tpat
        args = [a for a in args] if targs is None else targs
        want_recv = recv
        recv = None
    else:
        want_recv = None
    eff = effect_calls(b, pure=PURE + list(extra_pure))
    tgt = [c for c in eff if c.matches(callee_pat)]
    other = [c for c in eff if c not in tgt]
    ok = len(tgt) == 1 and not other
    ctx.ob(rid, key + "|single-call", ok,
           "%s must consist of exactly one call of %s (found %s; other effectful calls %s)" % (key, callee_pat, tgt, other),
           site=b.raw["span"]["at"])
    if len(tgt) != 1:
        return None
    c = tgt[0]
    ctx.ob(rid, key + "|every-path-once", count_range(b, [c.bb]) == (1, 1),
           "the call of %s in %s must execute exactly once on every normal path (count range %s)" % (callee_pat, key, count_range(b, [c.bb])), site=c.span)
    if want_recv is not None:
        cell = peel(c.args[0])
        okr = isinstance(cell, tuple) and cell[0] == "field" and cell[2] == "val" and (cell == SELF_FIELD("val") if want_recv == ("param", 1) else want_recv in [peel(x) for x in subterms(cell) if isinstance(x, tuple)] or want_recv in list(subterms(cell)))
        ctx.ob(rid, key + "|receiver", okr, "%s must operate on the cell `val` of %s (found %s)" % (key, show(want_recv), show(c.args[0])), site=c.span)
    if recv is not None:
        ctx.ob(rid, key + "|receiver", peel(c.args[0]) == recv, "receiver of %s in %s must be %s (found %s)" % (callee_pat, key, show(recv), show(c.args[0])), site=c.span)
    for i, a in enumerate(args):
        actual = c.args[i + 1] if i + 1 < len(c.args) else None
        if callable(a):
            ok = actual is not None and a(actual)
        else:
            ok = actual == a
        ctx.ob(rid, key + "|arg%d" % (i + 1), ok, "argument %d of %s in %s is not the expected value (found %s)" % (i + 1, callee_pat, key, show(actual) if actual else None), site=c.span)
    if ret_is_call:
        r = b.term_local(0)
        ctx.ob(rid, key + "|returns-result", r == c.result_term(), "%s must return the result of %s unchanged (found %s)" % (key, callee_pat, show(r)), site=c.span)
    return c


def from_i64_is(n):
    def pred(t):
        return is_call(t, "Number::from_i64") and const_int(t[2][0]) == n
    return pred


# expected callee of the pinned tree -> (terminal cell operation, its arguments; None = the wrapper's own arguments)
TERMINAL_OF = {
    "Value::inc_by": ("Atomic::inc_by", None), "Value::dec_by": ("Atomic::dec_by", None), "Value::set": ("Atomic::set", None), "Value::get": ("Atomic::get", None),
    "Value::inc": ("Atomic::inc_by", [from_i64_is(1)]), "Value::dec": ("Atomic::dec_by", [from_i64_is(1)]),
    "Atomic::inc_by": ("Atomic::inc_by", None), "Atomic::dec_by": ("Atomic::dec_by", None), "Atomic::set": ("Atomic::set", None), "Atomic::get": ("Atomic::get", None),
}


def _unused_from_i64_is(n):
    def pred(t):
        return is_call(t, "Number::from_i64") and const_int(t[2][0]) == n
    return pred


VAL = SELF_FIELD("val")
V = SELF_FIELD("v")
P1 = ("param", 1)
P2 = ("param", 2)


def rule_value_wrappers(ctx, f, rid, which):
    """Value<P> delegation layer (src/value.rs)."""
    V_ = "prometheus::value::Value::"
    table = {
        "inc_by": ("Atomic::inc_by", VAL, [P2], False),
        "dec_by": ("Atomic::dec_by", VAL, [P2], False),
        "set": ("Atomic::set", VAL, [P2], False),
        "get": ("Atomic::get", VAL, [], True),
        "inc": ("Value::inc_by", P1, [from_i64_is(1)], False),
        "dec": ("Value::dec_by", P1, [from_i64_is(1)], False),
    }
    for m in which:
        pat, recv, args, ret = table[m]
        if f.body(V_ + m) is None and m in ("inc", "dec", "dec_by", "inc_by"):
            continue        # a forwarding method that no longer exists: its former callers are checked in terminal form
        check_wrapper(ctx, rid, f, V_ + m, pat, recv, args, key="Value::" + m, ret_is_call=ret)


def rule_number_impls(ctx, f, rid):
    """from_i64 / into_f64 are identities or plain `as` casts of their argument."""
    n = 0
    for ty in ("i64", "u64", "f64"):
        for m in ("from_i64", "into_f64"):
            b = ctx.anchor(rid, "Number for %s::%s" % (ty, m), f.body("<%s as %sNumber>::%s" % (ty, A64, m)))
            if not b:
                continue
            ctx.saw(b)
            n += 1
            r = b.term_local(0)
            while isinstance(r, tuple) and r[0] == "cast":
                r = r[2]
            ctx.ob(rid, "Number<%s>::%s" % (ty, m), r == P1 and not b.calls(),
                   "<%s as Number>::%s must be the identity or an `as` cast of its argument (found %s)" % (ty, m, show(b.term_local(0))), site=b.raw["span"]["at"])
    for m, inner in (("u64_to_f64", "f64::from_bits"), ("f64_to_u64", "f64::to_bits")):
        b = f.body(A64 + m)        # thin aliases of the std bit casts: when they are gone the std calls are used directly (transparent to the rules)
        if b:
            ctx.anchor(rid, m, b)
            ctx.saw(b)
            n += 1
            r = b.term_local(0)
            ctx.ob(rid, m, is_call(r, inner) and r[2] == (P1,) and len(b.calls()) == 1,
                   "%s must be exactly %s(arg) (found %s)" % (m, inner, show(r)), site=b.raw["span"]["at"])
    ctx.floor(rid, "Number/bit-cast helper bodies", n, 6)


def rule_value_metric(ctx, f, rid):
    """Value::metric / collect read the cell exactly once through Value::get and report that value."""
    b = ctx.anchor(rid, "Value::metric", f.body("prometheus::value::Value::metric"))
    if not b:
        return
    ctx.saw(b)
    gets = b.calls_to("Value::get")
    ok = len(gets) == 1 and count_range(b, [gets[0].bb]) == (1, 1) and peel(gets[0].args[0]) == P1
    ctx.ob(rid, "Value::metric|one-read", ok, "Value::metric must read the cell exactly once via Value::get(self) (found %d reads)" % len(gets),
           site=b.raw["span"]["at"])
    direct = [c for c in b.calls() if atomic_prim(c) or c.matches(["Atomic::get", "Atomic::set", "Atomic::inc_by", "Atomic::dec_by"])]
    ctx.ob(rid, "Value::metric|no-direct-access", not direct, "Value::metric must not touch the cell except through Value::get")
    if len(gets) == 1:
        g = gets[0].result_term()
        from pvrules.rules import field_sets
        sv = [(c_, "Counter") for c_ in field_sets(b, "Counter", "value", ["Counter::set_value"])] + [(c_, "Gauge") for c_ in field_sets(b, "Gauge", "value", ["Gauge::set_value"])]
        for c, kind_ in sv:
            v = peel(c.args[1], transparent=["Number::into_f64"], refs=False)
            ctx.ob(rid, "Value::metric|%s" % kind_, v == g,
                   "the reported sample value must be into_f64(the value read) (found %s)" % show(c.args[1]), site=c.span)
        ctx.floor(rid, "set_value sites in Value::metric", len(sv), 2)
