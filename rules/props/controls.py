"""Positive controls (harness/fixtures): zero-count rules are exercised on deliberately broken code on every run."""
from pvrules.mir import strip_generics
from pvrules.rules import atomic_prim


def facts(ctx):
    return ctx.harness("fixtures")[("fixtures", "lib")]


def control_rmw(ctx, rid):
    """C01.R4 / C11.R4 must flag Cell64::bad_inc and not good_inc."""
    from . import atomics_common as ac
    f = facts(ctx)
    sub = type(ctx)(ctx.prop, tier=ctx.tier, repo=ctx.repo, quiet=True)
    hits = ac.rule_R4_no_nonatomic_rmw(sub, [f], rid="ctl")
    names = sorted({strip_generics(b.path) for b, c, s in hits})
    ctx.ob(rid, "control|fixtures::Cell64", names == ["fixtures::Cell64::bad_inc"],
           "positive control: the no-load-then-store rule must fire on fixtures::Cell64::bad_inc and only there (fired on %s)" % names, kind="CONTROL")


def control_unordered(ctx, rid):
    from . import unordered as un
    f = facts(ctx)
    cls = {strip_generics(s.body.path): s.cls for s, o in un.enumerate_sites(f)}
    want = {"fixtures::bad_order": "escapes-unsorted", "fixtures::good_order": "sorted", "fixtures::count_only": "insensitive"}
    ctx.ob(rid, "control|fixtures::order", cls == want, "positive control: the unordered-iteration classifier must give %s on the fixtures (gave %s)" % (want, cls), kind="CONTROL")


def control_panics(ctx, rid):
    from . import C17
    f = facts(ctx)
    b = f.body("fixtures::bad_fallible")
    g = f.body("fixtures::guarded")
    sb = [(s["kind"], s["name"].split("::")[-1] if s["kind"] == "call" else s["name"]) for s in C17.panic_sites(b) if not C17.auto_discharge(f, b, s)]
    sg = [s for s in C17.panic_sites(g) if not C17.auto_discharge(f, g, s)]
    kinds = sorted({x[1] for x in sb})
    ok = {"unwrap", "split_at", "BoundsCheck"} <= set(kinds) and not sg
    ctx.ob(rid, "control|fixtures::fallible", ok, "positive control: unwrap / index / split_at in fixtures::bad_fallible must be reported (got %s) and the guarded unwrap discharged (left %d)" % (kinds, len(sg)), kind="CONTROL")


def control_leak_and_instant(ctx, rid, which):
    f = facts(ctx)
    b = f.body("fixtures::leak_and_subtract")
    found = set()
    for c in b.calls():
        if c.matches(["mem::forget"]):
            found.add("forget")
        if c.matches(["Instant::duration_since"]):
            found.add("duration_since")
    ctx.ob(rid, "control|fixtures::" + which, which in found, "positive control: the call matcher must see %s in fixtures::leak_and_subtract" % which, kind="CONTROL")
