"""Positive controls (harness/fixtures): zero-count rules are exercised on deliberately broken code on every run."""
import re

from pvrules.mir import strip_generics
from pvrules.rules import atomic_prim


def facts(ctx):
    return ctx.harness("fixtures")[("fixtures", "lib")]


def control_rmw(ctx, rid):
    """C01.R4 / C11.R4 must flag Cell64::bad_inc and not good_inc."""
    from . import atomics_common as ac
    f = facts(ctx)
    sub = type(ctx)(ctx.prop, tier=ctx.tier, repo=ctx.repo, quiet=True)
    hits = ac.rule_R4_no_nonatomic_rmw(sub, [f], rid="ctl")
    names = sorted({strip_generics(b.path) for b, c, s in hits})
    ctx.ob(rid, "control|fixtures::Cell64", names == ["fixtures::Cell64::bad_inc"],
           "positive control: the no-load-then-store rule must fire on fixtures::Cell64::bad_inc and only there (fired on %s)" % names, kind="CONTROL")


def control_unordered(ctx, rid):
    from . import unordered as un
    f = facts(ctx)
    cls = {strip_generics(s.body.path): s.cls for s, o in un.enumerate_sites(f)}
    want = {"fixtures::bad_order": "escapes-unsorted", "fixtures::good_order": "sorted", "fixtures::count_only": "insensitive"}
    ctx.ob(rid, "control|fixtures::order", cls == want, "positive control: the unordered-iteration classifier must give %s on the fixtures (gave %s)" % (want, cls), kind="CONTROL")


def control_panics(ctx, rid):
    from . import C17
    f = facts(ctx)
    b = f.body("fixtures::bad_fallible")
    g = f.body("fixtures::guarded")
    sb = [(s["kind"], s["name"].split("::")[-1] if s["kind"] == "call" else s["name"]) for s in C17.panic_sites(b) if not C17.auto_discharge(f, b, s)]
    sg = [s for s in C17.panic_sites(g) if not C17.auto_discharge(f, g, s)]
    kinds = sorted({x[1] for x in sb})
    ok = {"unwrap", "split_at", "BoundsCheck"} <= set(kinds) and not sg
    ctx.ob(rid, "control|fixtures::fallible", ok, "positive control: unwrap / index / split_at in fixtures::bad_fallible must be reported (got %s) and the guarded unwrap discharged (left %d)" % (kinds, len(sg)), kind="CONTROL")


def control_leak_and_instant(ctx, rid, which):
    f = facts(ctx)
    b = f.body("fixtures::leak_and_subtract")
    found = set()
    for c in b.calls():
        if c.matches(["mem::forget"]):
            found.add("forget")
        if c.matches(["Instant::duration_since"]):
            found.add("duration_since")
    ctx.ob(rid, "control|fixtures::" + which, which in found, "positive control: the call matcher must see %s in fixtures::leak_and_subtract" % which, kind="CONTROL")


def manual_marker_impls(f):
    """Hand-written `impl Send/Sync for T` items of a crate (auto-trait impls are not items and do not appear in the impl table)."""
    return [(im["self"], im["trait"].split("::")[-1], im.get("span", {}).get("at")) for im in f.impls
            if im.get("trait") in ("std::marker::Sync", "std::marker::Send", "core::marker::Sync", "core::marker::Send")]


def rule_no_manual_send_sync(ctx, f, rid, why):
    """Expected count 0 in the crate; positive control: fixtures::LocalThing."""
    ctx.rule(rid, "no hand-written Send / Sync impl for a local metric type or a type with non-thread-safe interior mutability (Cell, RefCell, Rc): " + why)
    def single_threaded(ty):
        # a local (unsync) metric type, or any type holding interior mutability that is not thread-safe
        if "Local" in ty.split("<")[0]:
            return True
        a = f.adt(strip_generics(ty))
        return bool(a) and any(re.search(r"\b(Cell|RefCell|Rc|UnsafeCell)<", x["ty"]) or "Local" in x["ty"] for v in a["variants"] for x in v["fields"])
    hits = [h for h in manual_marker_impls(f) if single_threaded(h[0])]
    for ty, tr, at in hits:
        ctx.ob(rid, "%s|impl-%s" % (strip_generics(ty), tr), False, "`unsafe impl %s for %s` makes a type shareable that the compiler would not: %s" % (tr, ty, why), site=at)
    if not hits:
        ctx.ob(rid, "no-manual-Send-Sync", True, "no hand-written Send/Sync impl for a local / interior-mutable type among %d impl items" % len(f.impls))
    ctl = manual_marker_impls(facts(ctx))
    ctx.ob(rid, "control|fixtures::LocalThing", [(t, r) for t, r, _ in ctl] == [("fixtures::LocalThing", "Sync")],
           "positive control: the impl-table scan must see `unsafe impl Sync for fixtures::LocalThing` (saw %s)" % ctl, kind="CONTROL")
