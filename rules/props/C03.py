"""C03 — Histograms conserve observations across any sequence of collects and flushes (structural clause set, DESIGN §4.C03)."""
from . import hist_conc as hc

LEVEL = "other"
EXPLANATION = ("Static MIR rules over HistogramCore::proto, LocalHistogramCore::flush and the sample readers: conservation pairing — every drained component (count via the "
               "successful CAS n->0, sum and every bucket via swap(0)) is merged exactly once into the same component/index of the hot shard and reported exactly once, under the "
               "collect lock (R1); a local batch is claimed with one RMW of self.count, written, and published with one count update of the same self.count, bucket deltas are "
               "counts[i] at matching i, then cleared (R2); the spin's only exit is the success edge of that CAS and its body has no effect (R3); sample_count/sample_sum read as "
               "documented (R4); shard cells have no other writers (R5). Termination of the spin under an unfair scheduler and the floating value of sums are not decided.")
ASSUMPTIONS = ["every thread that claimed a slot eventually publishes it (scheduler fairness) — needed for the spin to terminate", "floating-point sums are compared up to reordering"]


def run(ctx):
    f = ctx.facts("default")
    ctx.run_rule("R1", hc.rule_C03, f)
    # "the snapshot taken after all threads have finished describes exactly all observations": the bucket a value lands in is part of the description
    from . import C06, C08, controls
    ctx.run_rule("R7", lambda c: controls.rule_no_manual_send_sync(c, f, "R7", "a local batch is all-or-nothing only if nobody else can update the batch between the claim and clear() of "
                                                                           "one flush; that exclusivity comes from LocalHistogram being !Sync"))
    from . import C12
    ctx.rule("R8", "a local batch is handed over exactly once (shared with C12.L5): flush clears the batch, a clone (start_timer clones) starts cleared, Drop flushes")
    ctx.run_rule("R8", lambda c: C06._as(c, "R8", lambda s_: C12.rule_local_histogram(s_, f, "L5")))
    ctx.rule("R6", "an observation is recorded in the bucket the snapshot attributes it to, on the direct and on the local path (shared with C08.R4): first bound with v <= bound, "
                   "count and sum unconditional")
    ctx.run_rule("R6", lambda c: C06._as(c, "R6", lambda s_: C08.rule_R4(s_, f)))
