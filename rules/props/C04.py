"""C04 — Text exposition is a faithful, parseable rendering of the gathered state (structural clause set, DESIGN §4.C04)."""
import re

from pvrules.mir import is_call, peel, show, strip_generics, subterms
from pvrules.rules import is_pos_inf_const, const_int, count_range, count_range_region, effect_calls, elem_of, rejecting, try_continue_block, PURE
from . import text_common as tc

LEVEL = "other"
EXPLANATION = ("Static MIR rules over src/encoder/text.rs: every string that reaches the writer is a constant, a (validated) name, a number formatted by "
               "ToString, or help / label value passed through escape_string with the right flag (R1, taint); the characters escape_string handles are a "
               "subset of the needles of its fast path per flag and include backslash, newline (and quote for label values), the unescaped prefix ends at the "
               "first needle (R2); each arm of the type switch reads the payload of that type (R3); the per-type sample layout (suffix, extra label, value "
               "source, +Inf guard, order) matches the format (R4); values are formatted by f64::to_string / u64 as f64 / i64::to_string guarded by != 0 (R5); "
               "encode, encode_utf8 and encode_to_string reach one body and the writers only append (R6); headers are '# HELP name help' / '# TYPE name type' and "
               "check_metric_family precedes all writes of a family (R7). Byte-level parse-back equality for all strings/floats is not decided.")
ASSUMPTIONS = ["f64::to_string is the shortest round-trip representation and never contains line/label syntax", "metric and label names are valid (C09)",
               "an independent 0.0.4 parser un-escapes \\\\, \\n and \\\" as the format specifies"]
T = tc.T
P = tc.P
NAME_LIKE = ["MetricFamily::name", "LabelPair::name", "get_name"]
NUM_TOSTRING = ["<f64 as std::string::ToString>::to_string", "<i64 as std::string::ToString>::to_string", "<u64 as std::string::ToString>::to_string"]


def sink_calls(b):
    return [c for c in b.calls() if c.matches("WriteUtf8::write_all")]


def classify_written(f, b, t, params_ok):
    """Category of a term written to the sink, or None if it is not recognised."""
    t0 = peel(t, transparent=tc.DEREFS + ["Cow::deref"])
    if tc.const_str(t0) is not None:
        return "const"
    if t0[0] == "constdef" and t0[1].startswith("prometheus::"):
        return "const"
    if t0[0] == "var":
        if tc.type_word_table(b, f, t):
            return "type-word"
        alts = b.var_alts(t0[1])
        if alts and all(tc.const_str(peel(a)) is not None for a in alts):
            return "const"
    if is_call(t0, NAME_LIKE):
        return "name"
    if is_call(t0, "escape_string"):
        return "escaped"
    if t0[0] == "call" and any(t0[1].startswith(n) for n in NUM_TOSTRING):
        return "number"
    if is_call(t0, "str::to_lowercase"):
        inner = [s for s in subterms(t0) if isinstance(s, tuple) and s and s[0] == "call" and is_call(s, "Argument::new_debug")]
        if inner and is_call(peel(inner[0][2][0]), ["get_field_type", "field_type", "type_"]):
            return "type-word"
    if t0 in params_ok:
        return params_ok[t0]
    return None


def rule_R1(ctx, f):
    rid = "R1"
    ctx.rule(rid, "escape-before-sink: in encode_impl / write_sample / label_pairs_to_text every argument of WriteUtf8::write_all is a constant, a name, a "
                  "number rendered by ToString, the lower-cased type word, or escape_string(help, false) / escape_string(label value, true); help and label "
                  "values never reach the sink raw")
    n_esc = 0
    specs = {
        "TextEncoder::encode_impl": {},
        "write_sample": {P(2): "name", ("field", ("downcast", P(3), "Some"), "0"): "name"},
        "label_pairs_to_text": {("field", ("field", ("downcast", P(2), "Some"), "0"), "0"): "name"},
    }
    for fn, params_ok in specs.items():
        b = ctx.anchor(rid, fn, f.body(T + fn))
        if not b:
            continue
        ctx.saw(b)
        sinks = sink_calls(b)
        for i, c in enumerate(sinks):
            cat = classify_written(f, b, c.args[1], params_ok)
            ok = cat is not None
            if cat == "escaped":
                e = peel(c.args[1], transparent=tc.DEREFS)
                src = peel(e[2][0])
                flag = const_int(e[2][1]) if e[2][1][0] == "const" else None
                flag = True if (e[2][1][0] == "const" and e[2][1][1] == "true") else (False if (e[2][1][0] == "const" and e[2][1][1] == "false") else None)
                if is_call(src, ["MetricFamily::help", "get_help"]):
                    ok = flag is False
                    what = "help"
                elif is_call(src, ["LabelPair::value", "get_value"]) or src == ("field", ("field", ("downcast", P(2), "Some"), "0"), "1"):
                    ok = flag is True
                    what = "label value"
                else:
                    ok = flag is True   # unknown source: must use the stricter (quoted) escaping
                    what = "string"
                n_esc += 1
                ctx.ob(rid, "%s|sink#%d|flag" % (fn, i), ok,
                       "%s written by %s must be escaped with include_double_quote=%s (label values are written between quotes) — found flag %s" % (
                           what, fn, "false" if what == "help" else "true", flag), site=c.span)
            else:
                ctx.ob(rid, "%s|sink#%d" % (fn, i), ok,
                       "unsanitised string reaches the text writer in %s: %s (only constants, names, numbers, the type word and escape_string(..) results may be written)" % (
                           fn, show(c.args[1])), site=c.span)
    ctx.floor(rid, "sanitised (escape_string) flows into the writer", n_esc, 3)
    # the additional label value given by callers is escaped inside label_pairs_to_text (checked above); help must not be written anywhere else
    for k in f.order:
        b = f.bodies[k]
        if "encoder::text" not in b.path:
            continue
        for c in b.calls():
            if c.matches(["Write::write_all", "String::push_str", "String::push"]) and not b.path.endswith("WriteUtf8>::write_all") and "escape_string" not in b.path:
                ctx.ob(rid, "%s|direct-write" % strip_generics(b.path), False, "the text encoder must write only through WriteUtf8::write_all (found %s)" % strip_generics(c.callee), site=c.span)


def _assume_region(es, start, stop, c_term, v, flag, flag_term=None, want_value=False):
    """Blocks reachable from `start` (not through `stop`) when the scanned character is `v` and the flag parameter is `flag`.
    want_value: return the value function as well (to evaluate the body's result under the same assumptions)."""
    flag_term = P(2) if flag_term is None else flag_term

    def value(t):
        t = peel(t) if isinstance(t, tuple) else t
        if t == flag_term:
            return flag
        if t == peel(c_term):
            return v
        if isinstance(t, tuple) and t and t[0] in ("const", "constdef"):
            if t[0] == "const" and t[1] in ("true", "false"):
                return t[1] == "true"
            return const_int(t)
        if isinstance(t, tuple) and t and t[0] == "cast":
            return value(t[2])
        if isinstance(t, tuple) and t and t[0] == "unop" and t[1] == "Not":
            x = value(t[2])
            return None if not isinstance(x, bool) else (not x)
        if isinstance(t, tuple) and t and t[0] == "binop" and t[1] in ("Eq", "Ne", "Lt", "Le", "Gt", "Ge", "BitAnd", "BitOr"):
            x, y = value(t[2]), value(t[3])
            if x is None or y is None:
                if t[1] == "BitOr" and (x is True or y is True):
                    return True
                if t[1] == "BitAnd" and (x is False or y is False):
                    return False
                return None
            return {"Eq": x == y, "Ne": x != y, "Lt": x < y, "Le": x <= y, "Gt": x > y, "Ge": x >= y, "BitAnd": bool(x) and bool(y), "BitOr": bool(x) or bool(y)}[t[1]]
        return None
    stop = set(stop)
    seen, work = set(), [start]
    while work:
        x = work.pop()
        if x in seen or x in stop:
            continue
        seen.add(x)
        si = es.switch_info(x)
        if si:
            val = value(si[0])
            if isinstance(val, bool):
                val = 1 if val else 0
            if val is not None:
                hit = [t for vv, t in si[1] if vv == val]
                work.append(hit[0] if hit else si[2])
                continue
        work.extend(es.succs(x))
    return (seen, value) if want_value else seen


def _position_needles(f, ff):
    """find_first_occurence written as `v.bytes().position(|b| <predicate on b and the flag>)`: for each flag value the set of bytes the predicate accepts, found by
    evaluating the closure for every byte value; None when the body is not of that form."""
    r = peel(ff.term_local(0), transparent=[])
    if not is_call(r, "Iterator::position") or len(r[2]) != 2:
        return None
    src = peel(r[2][0], transparent=["IntoIterator::into_iter", "slice::iter", "Iterator::copied", "Iterator::cloned"])
    if not ((is_call(src, "str::bytes") and peel(src[2][0]) == P(1)) or (is_call(src, ["str::as_bytes", "String::as_bytes"]) and peel(src[2][0]) == P(1))):
        return None
    a = peel(r[2][1], transparent=[])
    cl = f.closure(a[2]) if (isinstance(a, tuple) and a and a[0] == "agg" and a[1] == "closure") else None
    if cl is None:
        return None
    caps = [peel(x) for x in a[3]]
    flag_terms = [("field", ("deref", P(1)), str(i)) for i, c_ in enumerate(caps) if c_ == P(2)] + [("field", P(1), str(i)) for i, c_ in enumerate(caps) if c_ == P(2)]
    if not flag_terms and caps:
        return None
    out = {}
    exits = set(cl.exits())
    for flag in (True, False):
        acc = set()
        for v in range(256):
            res = None
            for ft in (flag_terms or [None]):
                reg, value = _assume_region(cl, 0, [], P(2), v, flag, flag_term=ft if ft is not None else ("none",), want_value=True)
                defs = [d for d in cl.defs().get(0, []) if d[0] == "assign" and d[1] in reg]
                if len(defs) == 1 and (reg & exits):
                    res = value(cl.term_rvalue(defs[0][3], (defs[0][1], defs[0][2])))
                    if isinstance(res, bool):
                        break
            if not isinstance(res, bool):
                return None
            if res:
                acc.add(v)
        out[flag] = acc
    return out


def rule_R2(ctx, f):
    rid = "R2"
    ctx.rule(rid, "escape table vs fast path: per flag, the characters handled by the match in escape_string are a subset of the memchr needles of "
                  "find_first_occurence, handled(false) ⊇ {\\\\, \\n}, handled(true) ⊇ {\\\\, \\n, \"}; the raw prefix is v[0..first], the scanned rest "
                  "v[first..] with first = find_first_occurence(v, flag); without a needle the input is returned unchanged")
    ff = ctx.anchor(rid, "find_first_occurence", f.body(T + "find_first_occurence"))
    needles = {}
    if ff:
        ctx.saw(ff)
        be = ff.bool_edges(0) or next((ff.bool_edges(bi) for bi in ff.reachable_blocks() if ff.bool_edges(bi)), None)
        ok = be is not None and peel(be[0]) == P(2)
        if ok:
            for flag, tgt in ((True, be[1]), (False, be[2])):
                other = be[2] if flag else be[1]
                reg = ff.reach(tgt) - ff.reach(other)
                ns = set()
                for c in ff.calls():
                    if c.bb in reg and c.matches(["memchr", "memchr2", "memchr3", "memchr::memchr", "memchr::memchr2", "memchr::memchr3"]):
                        for a in c.args[:-1]:
                            v = const_int(a)
                            if v is not None:
                                ns.add(v)
                        hay = peel(c.args[-1], transparent=["str::as_bytes", "String::as_bytes"])
                        ctx.ob(rid, "find_first_occurence|haystack|%s" % flag, hay == P(1), "the needles must be searched in the input string itself", site=c.span)
                needles[flag] = ns
        if not (ok and needles.get(True) and needles.get(False)):
            pn = _position_needles(f, ff)
            if pn is not None:
                needles, ok = pn, True
                ctx.ob(rid, "find_first_occurence|haystack|position", True, "the needles are searched in the input string itself (v.bytes().position(..))", site=ff.raw["span"]["at"])
        ctx.ob(rid, "find_first_occurence|shape", ok and bool(needles.get(True)) and bool(needles.get(False)), "find_first_occurence must select its needle set by the flag (found %s)" % needles, site=ff.raw["span"]["at"])
    es = ctx.anchor(rid, "escape_string", f.body(T + "escape_string"))
    if not es:
        return
    ctx.saw(es)
    # switch on the char element
    handled = {True: set(), False: set()}
    found = False
    for bi in es.reachable_blocks():
        si = es.switch_info(bi)
        if not si or si[3] != "char":
            continue
        found = True
        LIT = {92: '"\\\\\\\\"', 10: '"\\\\n"', 34: '"\\\\\\""'}     # the escape written out for each character (as rustc prints the literal)
        esc_default = {c.bb for c in es.calls() if c.matches(["escape_default", "char::escape_default"])}
        esc_lit = {c.bb: tc.const_str(peel(c.args[1])) for c in es.calls() if c.matches("String::push_str") and tc.const_str(peel(c.args[1])) and tc.const_str(peel(c.args[1])).startswith('"\\\\')}
        esc_blocks = esc_default | set(esc_lit)
        head = [c.bb for c in es.calls_to("Iterator::next")]
        for v, tgt in si[1]:
            for flag in (True, False):
                # evaluate the arm under the assumptions c == v and include_double_quote == flag: tests of the flag and comparisons of the
                # character with a literal (match guards, nested matches) take the one edge these values select
                reg = _assume_region(es, tgt, head, si[0], v, flag)
                raw = [c for c in es.calls() if c.bb in reg and c.matches("String::push")]
                if reg & esc_blocks and not raw:
                    lits = {esc_lit[x] for x in reg if x in esc_lit}
                    if (reg & esc_default and not lits) or lits == {LIT.get(v)}:
                        handled[flag].add(v)
                    else:
                        ctx.ob(rid, "escape_string|literal(%d,%s)" % (v, str(flag).lower()), False, "character %d must be escaped as %s (found %s)" % (v, LIT.get(v), sorted(lits)), site=es.span_of_block(tgt))
    ctx.ob(rid, "escape_string|char-switch", found, "escape_string must dispatch on the character", site=es.raw["span"]["at"])
    for flag, must in ((False, {92, 10}), (True, {92, 10, 34})):
        ctx.ob(rid, "escape_string|handled(%s)" % str(flag).lower(), handled[flag] >= must,
               "with include_double_quote=%s escape_string must escape %s (handles %s)" % (str(flag).lower(), sorted(must), sorted(handled[flag])), site=es.raw["span"]["at"])
        if needles:
            ctx.ob(rid, "escape_string|needles(%s)" % str(flag).lower(), needles.get(flag, set()) >= handled[flag],
                   "every character escaped in the slow path must be a needle of the fast path for flag=%s, otherwise a string whose only special character is that one "
                   "is returned unescaped (needles %s, handled %s)" % (str(flag).lower(), sorted(needles.get(flag, [])), sorted(handled[flag])), site=es.raw["span"]["at"])
    # prefix / remainder
    ffc = es.calls_to("find_first_occurence")
    ok = len(ffc) == 1 and peel(ffc[0].args[0]) == P(1) and peel(ffc[0].args[1]) == P(2)
    ctx.ob(rid, "escape_string|first", ok, "escape_string must locate the first needle with find_first_occurence(v, include_double_quote)", site=es.raw["span"]["at"])
    if ok:
        first = ("field", ("downcast", ffc[0].result_term(), "Some"), "0")
        idx = es.calls_to("Index::index")
        pre = [c for c in idx if c.args[1][0] == "agg" and c.args[1][2].endswith("Range::Range") and const_int(c.args[1][3][0]) == 0 and c.args[1][3][1] == first and peel(c.args[0]) == P(1)]
        rest = [c for c in idx if c.args[1][0] == "agg" and c.args[1][2].endswith("RangeFrom::RangeFrom") and c.args[1][3][0] == first and peel(c.args[0]) == P(1)]
        sa = [c for c in es.calls_to("str::split_at") if peel(c.args[0]) == P(1) and peel(c.args[1]) == first]
        if len(sa) == 1 and not idx:
            # `let (prefix, rest) = v.split_at(first)`
            class _Part:   # the two halves play the role of the two slice expressions
                def __init__(self, t):
                    self._t = t
                def result_term(self):
                    return self._t
            pre, rest, idx = [_Part(("field", sa[0].result_term(), "0"))], [_Part(("field", sa[0].result_term(), "1"))], [None, None]
        ctx.ob(rid, "escape_string|prefix-and-rest", len(pre) == 1 and len(rest) == 1 and len(idx) == 2, "the output must be v[0..first] followed by the escaped v[first..]", site=es.raw["span"]["at"])
        if len(pre) == 1 and len(rest) == 1:
            ps = [c for c in es.calls_to("String::push_str") if peel(c.args[1]) == pre[0].result_term()]
            ch = [c for c in es.calls_to("str::chars") if peel(c.args[0]) == rest[0].result_term()]
            ctx.ob(rid, "escape_string|prefix-pushed", len(ps) == 1 and len(ch) == 1 and es.dominates(ps[0].bb, ch[0].bb), "the raw prefix is pushed before the rest is scanned", site=es.raw["span"]["at"])
        # None arm returns v unchanged
        si = es.switch_info(ffc[0].target)
        none_t = [t for v, t in si[1] if v == 0] or [si[2]]
        intos = [c for c in es.calls_to("Into::into") if c.bb in es.reach(none_t[0]) and c.bb not in es.reach([t for v, t in si[1] if v == 1][0])]
        okn = len(intos) == 1 and peel(intos[0].args[0], transparent=[]) == P(1)
        if not intos:
            # `Cow::Borrowed(v)` spelled out
            some_r = es.reach([t for v, t in si[1] if v == 1][0])
            bor = []
            for bi in es.reach(none_t[0]) - some_r:
                for st in es.blocks[bi]["stmts"]:
                    if st["k"] == "assign" and st["rv"].get("k") == "agg" and st["rv"].get("agg") == "adt" and st["rv"]["adt"].endswith("Cow") and st["rv"]["variant"] == "Borrowed":
                        bor.append(es.term_operand(st["rv"]["ops"][0]))
            okn = len(bor) == 1 and peel(bor[0]) == P(1)
        ctx.ob(rid, "escape_string|no-needle-returns-input", okn, "without a needle the input must be returned as it is", site=es.raw["span"]["at"])


def _ws_calls(b, region):
    return [c for c in b.calls_to("write_sample") if c.bb in region]


def _opt_const(f, t):
    """Option<&str> argument: None -> None ; Some{"_x"} -> "_x" (named constants resolved)."""
    if t[0] == "agg" and t[2].endswith("Option::None"):
        return None
    if t[0] == "agg" and t[2].endswith("Option::Some"):
        return t[3][0]
    return t


def _flag_formula(b, t, F, is_bucket_bound, depth=0):
    """Boolean formula of term t over the atoms F (the flag's current value), SP / INF (is_sign_positive / is_infinite of the current bucket's bound); None if not understood.
    Looks through `?` / Ok / Continue wrappers and through locals assigned on the two arms of an if."""
    if depth > 10 or not isinstance(t, tuple) or not t:
        return None
    t = peel(t, transparent=[])
    if t == F:
        return "F"
    if t[0] == "const" and t[1] in ("true", "false"):
        return t[1] == "true"
    if t[0] == "unop" and t[1] == "Not":
        x = _flag_formula(b, t[2], F, is_bucket_bound, depth + 1)
        return None if x is None else ("not", x)
    if t[0] == "binop" and t[1] in ("BitOr", "BitAnd"):
        x, y = _flag_formula(b, t[2], F, is_bucket_bound, depth + 1), _flag_formula(b, t[3], F, is_bucket_bound, depth + 1)
        return None if x is None or y is None else ("or" if t[1] == "BitOr" else "and", x, y)
    if t[0] == "binop" and t[1] == "Eq":
        infs = [z for z in (t[2], t[3]) if is_pos_inf_const(z)]
        ubs = [z for z in (t[2], t[3]) if is_bucket_bound(z)]
        return ("and", "SP", "INF") if len(infs) == 1 and len(ubs) == 1 else None
    if is_call(t, ["f64::is_sign_positive", "f64::is_infinite"]) and is_bucket_bound(t[2][0]):
        return "SP" if strip_generics(t[1]).endswith("is_sign_positive") else "INF"
    if t[0] == "field" and str(t[2]) == "0" and isinstance(t[1], tuple) and t[1][0] == "downcast" and t[1][2] in ("Continue", "Ok", "Some"):
        inner = peel(t[1][1], transparent=[])
        if is_call(inner, "Try::branch"):
            inner = peel(inner[2][0], transparent=[])
        return _flag_formula(b, inner, F, is_bucket_bound, depth + 1)
    if t[0] == "agg" and (t[2].endswith("Result::Ok") or t[2].endswith("ControlFlow::Continue")) and t[3]:
        return _flag_formula(b, t[3][0], F, is_bucket_bound, depth + 1)
    if t[0] == "var":
        def term_of(d):
            return b.term_rvalue(d[3], (d[1], d[2])) if d[0] == "assign" else b.term_call(d[1])
        alld = [d for d in b.defs().get(t[1], []) if d[0] in ("assign", "call") and not (d[0] == "call" and is_call(b.term_call(d[1]), "FromResidual::from_residual"))]
        if len(alld) != len([d for d in b.defs().get(t[1], []) if not (d[0] == "call" and is_call(b.term_call(d[1]), "FromResidual::from_residual"))]):
            return None
        oks = [d for d in alld if not (lambda a: isinstance(a, tuple) and a and a[0] == "agg" and a[2].endswith("Result::Err"))(term_of(d))]
        if len(oks) == 1:
            return _flag_formula(b, term_of(oks[0]), F, is_bucket_bound, depth + 1)
        if len(oks) == 2:
            d1, d2 = oks
            for bi in b.reachable_blocks():
                be = b.bool_edges(bi)
                if not be:
                    continue
                for (x, y) in ((d1, d2), (d2, d1)):
                    if b.edge_dominates(bi, be[1], x[1]) and b.edge_dominates(bi, be[2], y[1]):
                        c_ = _flag_formula(b, be[0], F, is_bucket_bound, depth + 1)
                        tx = _flag_formula(b, term_of(x), F, is_bucket_bound, depth + 1)
                        ty = _flag_formula(b, term_of(y), F, is_bucket_bound, depth + 1)
                        if c_ is not None and tx is not None and ty is not None:
                            return ("ite", c_, tx, ty)
        return None
    return None


def _formula_eval(e, env):
    if isinstance(e, bool):
        return e
    if isinstance(e, str):
        return env[e]
    if e[0] == "not":
        return not _formula_eval(e[1], env)
    if e[0] == "or":
        return _formula_eval(e[1], env) or _formula_eval(e[2], env)
    if e[0] == "and":
        return _formula_eval(e[1], env) and _formula_eval(e[2], env)
    if e[0] == "ite":
        return _formula_eval(e[2], env) if _formula_eval(e[1], env) else _formula_eval(e[3], env)
    raise ValueError(e)


def _formula_is(e, want):
    import itertools
    for F_, sp, inf in itertools.product((False, True), repeat=3):
        env = {"F": F_, "SP": sp, "INF": inf}
        if _formula_eval(e, env) != want(env):
            return False
    return True


def _accumulated_inf_flag(b, cnd, h_of, region):
    """The condition of the +Inf line is a flag accumulated BY VALUE over the buckets (a fold / try_fold accumulator, `seen = seen || is_pos_inf`): it starts as the literal false
    inside the per-sample region and every other definition is  flag OR (bound is +Inf)  of the bucket being written.  Returns the flag's initialisation blocks, or None."""
    leaves, todo, seen = [], [cnd], set()
    while todo and len(seen) < 30:
        for x in subterms(todo.pop()):
            if isinstance(x, tuple) and len(x) == 2 and x[0] == "var" and x[1] not in seen:
                seen.add(x[1])
                if b.local_ty(x[1]) in ("bool", "?"):
                    leaves.append(x)
                else:
                    todo.extend(b.var_alts(x[1]))
    for F in leaves:
        def is_bucket_bound(z):
            z = peel(z)
            if not is_call(z, ["Bucket::upper_bound", "get_upper_bound"]):
                return False
            e = elem_of(peel(z[2][0]))
            return bool(e) and is_call(e[0], "get_bucket") and h_of(e[0][2][0]) and not [a for a in e[1] if a not in ("iter", "into_iter")]
        fc = _flag_formula(b, cnd, F, is_bucket_bound)
        if fc is None or not _formula_is(fc, lambda env: env["F"]):
            continue
        defs = b.defs().get(F[1], [])
        if not defs or any(d[0] != "assign" for d in defs):
            continue
        inits, ok = [], True
        for d in defs:
            t = b.term_rvalue(d[3], (d[1], d[2]))
            fm = _flag_formula(b, t, F, is_bucket_bound)
            if fm is False:
                inits.append(d[1])
            elif fm is None or isinstance(fm, bool) or not _formula_is(fm, lambda env: env["F"] or (env["SP"] and env["INF"])):
                ok = False
        if ok and inits and len(inits) < len(defs) and all(x in region for x in inits):
            return inits
    return None


def _any_bucket_is_pos_inf(f, t, h_of):
    """t = Iterator::any(<iteration over get_bucket(h)>, |b| b.upper_bound() is +Inf)."""
    src = peel(t[2][0], transparent=["slice::iter", "IntoIterator::into_iter", "Deref::deref"])
    if not (is_call(src, "get_bucket") and h_of(src[2][0])):
        return False
    cl_t = peel(t[2][1], transparent=[])
    cl = f.closure(cl_t[2]) if (isinstance(cl_t, tuple) and cl_t and cl_t[0] == "agg" and cl_t[1] == "closure") else None
    if cl is None:
        return False

    def ub(z):
        z = peel(z)
        return is_call(z, ["Bucket::upper_bound", "get_upper_bound"]) and peel(z[2][0]) in (("param", 2), ("deref", ("param", 2)))
    r = peel(cl.term_local(0), transparent=[])
    if isinstance(r, tuple) and r and r[0] == "binop" and r[1] == "Eq":
        infs = [z for z in (r[2], r[3]) if is_pos_inf_const(z)]
        return len(infs) == 1 and len([z for z in (r[2], r[3]) if ub(z)]) == 1
    if isinstance(r, tuple) and r and r[0] == "var":
        # `x.is_sign_positive() && x.is_infinite()` (either order): false on the first test's false edge, the second test otherwise
        alts = cl.var_alts(r[1])
        consts = [a for a in alts if a[0] == "const"]
        calls = [a for a in alts if is_call(a, ["f64::is_sign_positive", "f64::is_infinite"])]
        if len(alts) == 2 and len(consts) == 1 and consts[0][1] == "false" and len(calls) == 1 and ub(calls[0][2][0]):
            second = strip_generics(calls[0][1]).split("::")[-1]
            first = {"is_infinite": "is_sign_positive", "is_sign_positive": "is_infinite"}[second]
            for bi in cl.reachable_blocks():
                be = cl.bool_edges(bi)
                if be and is_call(be[0], "f64::" + first) and ub(be[0][2][0]) and cl.edge_dominates(bi, be[1], calls[0][3]):
                    return True
    return False


def rule_R4(ctx, f):
    rid = "R4"
    ctx.rule(rid, "sample layout table: per type arm, the write_sample calls have (suffix, extra label, value source): counter/gauge (none, none, payload value); "
                  "histogram [_bucket, le=to_string(upper_bound), cumulative_count as f64]*, [_bucket, le=+Inf, sample_count as f64] guarded by !inf_seen, "
                  "(_sum, sample_sum), (_count, sample_count as f64) in this dominance order; summary [quantile label, value]*, _sum, _count; the name is the "
                  "family's name and the sample is the loop's metric")
    b = f.body(T + "TextEncoder::encode_impl")
    if not b:
        return
    sw, arms, other, fam = tc.arms_of_type_switch(b, f)
    if sw is None:
        ctx.ob(rid, "encode_impl|type-switch", False, "type switch not found", site=b.raw["span"]["at"])
        return
    mnext = [c for c in b.calls_to("Iterator::next") if (lambda e: e and is_call(e[0], ["get_metric"]))(elem_of(("field", ("downcast", c.result_term(), "Some"), "0")))]
    ctx.ob(rid, "encode_impl|metric-loop", len(mnext) == 1, "one loop over get_metric(family) expected", site=b.raw["span"]["at"])
    if len(mnext) != 1:
        return
    em = elem_of(("field", ("downcast", mnext[0].result_term(), "Some"), "0"))
    ctx.ob(rid, "encode_impl|all-samples", peel(em[0][2][0]) == fam and not [a for a in em[1] if a not in ("into_iter", "iter")], "every sample of the family must be written (no filter)", site=mnext[0].span)
    metric = ("field", ("downcast", mnext[0].result_term(), "Some"), "0")
    stop = [mnext[0].bb]
    targets = list(arms.values()) + ([other] if other is not None else [])
    regions = tc.arm_regions(b, f, sw, arms, other, stop)

    def desc(c, region=None):
        suffix = _opt_const(f, c.args[2])
        suffix = tc.const_str(peel(suffix)) if suffix is not None else None
        lab = _opt_const(f, c.args[4])
        labname = labval = None
        if lab is not None and lab[0] == "agg":
            labname, labval = peel(lab[3][0]), peel(lab[3][1], transparent=tc.DEREFS)
        val = c.args[5]
        if region is not None:
            val = tc.value_in_region(b, val, region)
        cast = False
        if val[0] == "cast":
            cast, val = True, val[2]
        return suffix, labname, labval, peel(val), cast

    def common(c, key):
        okn = is_call(peel(c.args[1]), ["MetricFamily::name", "get_name"]) and peel(peel(c.args[1])[2][0]) == fam
        okm = peel(c.args[3]) == metric
        ctx.ob(rid, key + "|name-and-sample", okn and okm, "write_sample must receive the family name and the current sample", site=c.span)

    def named_const(t, name):
        return t[0] == "constdef" and t[1].endswith("::" + name)

    for ty, getter in (("COUNTER", "get_counter"), ("GAUGE", "get_gauge")):
        if ty not in arms:
            continue
        reg = regions.get(ty, set())
        ws = _ws_calls(b, reg)
        ok = len(ws) == 1
        if ok:
            s, ln, lv, val, cast = desc(ws[0], reg)
            ok = s is None and ln is None and not cast and is_call(val, ["get_value", "Counter::value", "Gauge::value", "MessageFieldExt::get_value"]) and is_call(peel(val[2][0], transparent=tc.DEREFS), getter) \
                and peel(peel(val[2][0], transparent=tc.DEREFS)[2][0]) == metric and count_range_region(b, [ws[0].bb], arms[ty], stop) == (1, 1)
            common(ws[0], ty)
        ctx.ob(rid, ty + "|layout", ok, "a %s sample is one line: name, labels, %s().get_value()" % (ty.lower(), getter), site=ws[0].span if ws else b.span_of_block(arms[ty]))
    if "HISTOGRAM" in arms:
        reg = regions.get("HISTOGRAM", set())
        ws = _ws_calls(b, reg)
        ctx.ob(rid, "HISTOGRAM|four-sites", len(ws) == 4, "histogram arm must have 4 write_sample sites: bucket, +Inf bucket, _sum, _count (found %d)" % len(ws), site=b.span_of_block(arms["HISTOGRAM"]))
        if len(ws) == 4:
            ds = [desc(c) for c in ws]
            for c in ws:
                common(c, "HISTOGRAM")
            h_of = lambda t: is_call(peel(t, transparent=tc.DEREFS), "get_histogram") and peel(peel(t, transparent=tc.DEREFS)[2][0]) == metric  # noqa: E731
            # bucket line
            bk = [i for i, d in enumerate(ds) if d[0] == '"_bucket"' and d[2] is not None and is_call(d[2], "ToString::to_string")]
            inf = [i for i, d in enumerate(ds) if d[0] == '"_bucket"' and d[2] is not None and named_const(d[2], "POSITIVE_INF")]
            sm = [i for i, d in enumerate(ds) if d[0] == '"_sum"']
            ct = [i for i, d in enumerate(ds) if d[0] == '"_count"']
            ok = len(bk) == 1 and len(inf) == 1 and len(sm) == 1 and len(ct) == 1
            ctx.ob(rid, "HISTOGRAM|kinds", ok, "expected one each of bucket / +Inf bucket / _sum / _count lines (found suffixes %s)" % [d[0] for d in ds], site=ws[0].span)
            if ok:
                cb, ci, cs, cc = ws[bk[0]], ws[inf[0]], ws[sm[0]], ws[ct[0]]
                d = ds[bk[0]]
                eb = elem_of(peel(d[3][2][0])) if is_call(d[3], ["Bucket::cumulative_count", "get_cumulative_count"]) else None
                okb = bool(eb) and is_call(eb[0], "get_bucket") and h_of(eb[0][2][0]) and not [a for a in eb[1] if a not in ("into_iter", "iter")] and d[4]
                ub = peel(d[2][2][0]) if is_call(d[2], "ToString::to_string") else None
                okb = okb and ub is not None and is_call(ub, ["Bucket::upper_bound", "get_upper_bound"]) and peel(ub[2][0]) == peel(d[3][2][0]) and named_const(d[1], "BUCKET_LABEL")
                okb = okb and d[2][1].startswith("<f64 as std::string::ToString>")
                if okb:
                    from . import hash_common as hc
                    okb = hc.every_element(b, cb) is True
                ctx.ob(rid, "HISTOGRAM|bucket-line", okb, "every bucket b is written as name_bucket{le=\"b.upper_bound.to_string()\"} b.cumulative_count as f64, label name BUCKET_LABEL", site=cb.span)
                d = ds[inf[0]]
                oki = named_const(d[1], "BUCKET_LABEL") and is_call(d[3], ["get_sample_count", "sample_count"]) and h_of(d[3][2][0]) and d[4]
                # guarded by !inf_seen where inf_seen is set iff is_sign_positive && is_infinite of an upper bound
                guard = False
                any_form = False
                for bi in b.reachable_blocks():
                    be = b.bool_edges(bi)
                    if be and b.dominates(bi, ci.bb):
                        cnd = be[0]
                        neg = False
                        if cnd[0] == "unop" and cnd[1] == "Not":
                            cnd, neg = cnd[2], True
                        acc_inits = _accumulated_inf_flag(b, cnd, h_of, reg) if not (cnd[0] == "var") else None
                        if acc_inits:
                            guard = b.edge_dominates(bi, be[2], ci.bb)
                            any_form = guard and b.all_paths_pass(arms["HISTOGRAM"], acc_inits, dst_set={cb.bb, ci.bb})
                        if is_call(cnd, "Iterator::any") and _any_bucket_is_pos_inf(f, cnd, h_of):
                            # `let inf_seen = h.get_bucket().iter().any(|b| b.upper_bound() == f64::INFINITY)`: computed from this sample's buckets, nothing to reset
                            guard = b.edge_dominates(bi, be[2], ci.bb)
                            any_form = cnd[3] in reg
                        if cnd[0] == "var" and b.local_ty(cnd[1]) == "bool":
                            alts = b.var_alts(cnd[1])
                            flag_locals = [cnd[1]]
                            # `a = a || x` goes through a temporary: look through locals that only carry the value
                            for _ in range(2):
                                nested = [a for a in alts if a[0] == "var" and b.local_ty(a[1]) == "bool"]
                                if not nested:
                                    break
                                flag_locals += [a[1] for a in nested]
                                alts = [a for a in alts if a not in nested] + [x for a in nested for x in b.var_alts(a[1])]
                            vals = sorted({a[1] for a in alts if a[0] == "const"})
                            ors = [a for a in alts if a[0] == "binop" and a[1] == "BitOr"]
                            if vals == ["false"] and len(ors) == 1 and len(alts) == 2:
                                # `inf_seen |= upper_bound == f64::INFINITY`
                                o = ors[0]
                                other = [z for z in (o[2], o[3]) if peel(z) != cnd]
                                eqs = other[0] if len(other) == 1 else None
                                okeq = False
                                if eqs is not None and eqs[0] == "binop" and eqs[1] == "Eq":
                                    infs = [z for z in (eqs[2], eqs[3]) if is_pos_inf_const(z)]
                                    ubs = [z for z in (eqs[2], eqs[3]) if is_call(peel(z), ["Bucket::upper_bound", "get_upper_bound"])]
                                    okeq = len(infs) == 1 and len(ubs) == 1
                                edge = be[1] if neg else be[2]
                                guard = okeq and b.edge_dominates(bi, edge, ci.bb)
                            eqalts = [a for a in alts if a[0] == "binop" and a[1] == "Eq"]
                            if vals == ["false", "true"] and len(eqalts) == 1 and len(set(alts)) == 3:
                                # `inf_seen = inf_seen || upper_bound == f64::INFINITY`: true stays true, otherwise the comparison
                                eqs = eqalts[0]
                                infs = [z for z in (eqs[2], eqs[3]) if is_pos_inf_const(z)]
                                ubs = [z for z in (eqs[2], eqs[3]) if is_call(peel(z), ["Bucket::upper_bound", "get_upper_bound"])]
                                tb = [dd[1] for l_ in flag_locals for dd in b.defs()[l_] if dd[0] == "assign" and dd[3].get("ops") and dd[3]["ops"][0].get("val") == "true"]
                                # the constant `true` is assigned only where the flag was already true
                                keep = all(any(b.bool_edges(bj) and b.bool_edges(bj)[0] == cnd and b.edge_dominates(bj, b.bool_edges(bj)[1], x) for bj in b.reachable_blocks()) for x in tb)
                                edge = be[1] if neg else be[2]
                                guard = len(infs) == 1 and len(ubs) == 1 and keep and b.edge_dominates(bi, edge, ci.bb)
                            elif vals == ["false", "true"]:
                                edge = be[1] if neg else be[2]
                                guard = b.edge_dominates(bi, edge, ci.bb)
                                # the `true` assignment is control dependent on is_sign_positive && is_infinite of the bucket's bound
                                tb = [dd[1] for dd in b.defs()[cnd[1]] if dd[0] == "assign" and dd[3]["ops"][0].get("val") == "true"]
                                inf_ok = False
                                for x in tb:
                                    doms = [bj for bj in b.reachable_blocks() if b.bool_edges(bj) and b.dominates(bj, x) and bj != x]
                                    preds = {strip_generics(b.bool_edges(bj)[0][1]).split("::")[-1] for bj in doms if b.bool_edges(bj)[0][0] == "call"}
                                    inf_ok = {"is_sign_positive", "is_infinite"} <= preds
                                guard = guard and inf_ok
                # the flag describes ONE sample: it starts as false for every metric of the family (initialised inside the per-metric loop, on every path to the bucket loop)
                fresh = False
                for bi in b.reachable_blocks():
                    be = b.bool_edges(bi)
                    if be and b.dominates(bi, ci.bb):
                        cnd = be[0]
                        if cnd[0] == "var" and b.local_ty(cnd[1]) == "bool":
                            inits = [dd[1] for dd in b.defs()[cnd[1]] if dd[0] == "assign" and dd[3].get("ops") and dd[3]["ops"][0].get("val") == "false"]
                            region = b.reach(arms["HISTOGRAM"], avoid_blocks=stop)
                            fresh = bool(inits) and all(x in region for x in inits) and b.all_paths_pass(arms["HISTOGRAM"], inits, dst_set={cb.bb, ci.bb})
                ctx.ob(rid, "HISTOGRAM|inf-flag-per-sample", fresh or (any_form and guard),
                       "the `+Inf seen` flag must be reset to false for every sample of the family (inside the per-metric loop, before its buckets are written)", site=ci.span)
                ctx.ob(rid, "HISTOGRAM|inf-line", oki and guard, "the implicit +Inf bucket must be written with the sample count exactly when no explicit +Inf bound was seen", site=ci.span)
                d = ds[sm[0]]
                ctx.ob(rid, "HISTOGRAM|sum-line", d[1] is None and not d[4] and is_call(d[3], ["get_sample_sum", "sample_sum"]) and h_of(d[3][2][0]), "_sum must carry get_sample_sum()", site=cs.span)
                d = ds[ct[0]]
                ctx.ob(rid, "HISTOGRAM|count-line", d[1] is None and d[4] and is_call(d[3], ["get_sample_count", "sample_count"]) and h_of(d[3][2][0]), "_count must carry get_sample_count() as f64", site=cc.span)
                order = b.dominates(cs.bb, cc.bb) and cs.bb != cc.bb and all(cs.bb in b.reach(x.bb, avoid_blocks=stop) for x in (cb, ci)) and ci.bb in b.reach(cb.bb, avoid_blocks=stop) and cb.bb not in b.reach(ci.bb, avoid_blocks=stop) and ci.bb not in b.reach(cs.bb, avoid_blocks=stop)
                from pvrules.rules import once_per_region
                order = order and all(count_range_region(b, [x.bb], arms["HISTOGRAM"], stop) == (1, 1) or once_per_region(b, x.bb, arms["HISTOGRAM"], stop) for x in (cs, cc))
                ctx.ob(rid, "HISTOGRAM|order", order, "lines must come in the order buckets, +Inf, _sum, _count; _sum and _count exactly once", site=cs.span)
    if "SUMMARY" in arms:
        reg = regions.get("SUMMARY", set())
        ws = _ws_calls(b, reg)
        ds = [desc(c) for c in ws]
        q = [d for d in ds if d[0] is None and d[1] is not None]
        sm = [d for d in ds if d[0] == '"_sum"']
        ct = [d for d in ds if d[0] == '"_count"']
        ok = len(ws) == 3 and len(q) == 1 and len(sm) == 1 and len(ct) == 1
        if ok:
            ok = named_const(q[0][1], "QUANTILE") and is_call(q[0][3], ["Quantile::value", "get_value"]) and is_call(q[0][2], "ToString::to_string") and is_call(peel(q[0][2][2][0]), ["Quantile::quantile", "get_quantile"]) \
                and is_call(sm[0][3], ["sample_sum", "get_sample_sum"]) and not sm[0][4] and is_call(ct[0][3], ["sample_count", "get_sample_count"]) and ct[0][4]
        if ok:
            from . import hash_common as hc
            qc = [c for c, d in zip(ws, ds) if d[0] is None and d[1] is not None][0]
            eq = elem_of(peel(q[0][3][2][0]))
            ok = bool(eq) and is_call(peel(eq[0], transparent=tc.DEREFS), ["get_quantile", "Summary::quantile"]) and not [a for a in eq[1] if a not in ("into_iter", "iter")] and hc.every_element(b, qc) is True
        ctx.ob(rid, "SUMMARY|layout", ok, "a summary is quantile lines (label QUANTILE = quantile.to_string(), value), then _sum, then _count as f64", site=b.span_of_block(arms["SUMMARY"]))


def rule_R5(ctx, f):
    rid = "R5"
    ctx.rule(rid, "value formatting path: in write_sample the f64 value reaches the sink only through <f64 as ToString>::to_string (no format precision, no cast), "
                  "the timestamp through <i64 as ToString>::to_string on the `timestamp != 0` edge; the line is name [postfix] labels ' ' value [' ' ts] '\\n'")
    b = ctx.anchor(rid, "write_sample", f.body(T + "write_sample"))
    if not b:
        return
    sinks = sink_calls(b)
    seq = []
    for c in sinks:
        t = peel(c.args[1], transparent=tc.DEREFS)
        if tc.const_str(t) is not None:
            seq.append((tc.const_str(t), c))
        elif t == P(2):
            seq.append(("NAME", c))
        elif t == ("field", ("downcast", P(3), "Some"), "0"):
            seq.append(("POSTFIX", c))
        elif t[0] == "call" and t[1].startswith("<f64 as std::string::ToString>::to_string") and peel(t[2][0]) == P(6):
            seq.append(("VALUE", c))
        elif t[0] == "call" and t[1].startswith("<i64 as std::string::ToString>::to_string") and is_call(peel(t[2][0]), ["Metric::timestamp_ms", "get_timestamp_ms"]):
            seq.append(("TS", c))
        else:
            seq.append(("?" + show(t), c))
    lp = b.calls_to("label_pairs_to_text")
    kinds = [k for k, _ in seq]
    ctx.ob(rid, "write_sample|pieces", kinds == ["NAME", "POSTFIX", '" "', "VALUE", '" "', "TS", '"\\n"'] and len(lp) == 1,
           "write_sample must write name, optional postfix, labels, ' ', value.to_string(), optional ' ' timestamp.to_string(), '\\n' (found %s)" % kinds, site=b.raw["span"]["at"])
    if kinds != ["NAME", "POSTFIX", '" "', "VALUE", '" "', "TS", '"\\n"'] or len(lp) != 1:
        return
    cs = [c for _, c in seq]
    order = all(b.dominates(cs[i].bb, cs[j].bb) for i, j in ((0, 2), (2, 3), (3, 6))) and b.dominates(cs[0].bb, lp[0].bb) and b.dominates(lp[0].bb, cs[2].bb)
    once = all(count_range(b, [cs[i].bb])[1] == 1 for i in range(7)) and all(count_range(b, [cs[i].bb])[0] == 1 or True for i in (0, 2, 3, 6))
    ctx.ob(rid, "write_sample|order", order and once, "the pieces must be written in order, each at most once", site=b.raw["span"]["at"])
    ok = peel(lp[0].args[0]) == ("call",) or (is_call(peel(lp[0].args[0]), ["get_label"]) and peel(peel(lp[0].args[0])[2][0]) == P(4) and peel(lp[0].args[1]) == P(5))
    ctx.ob(rid, "write_sample|labels", ok, "the labels written are the sample's own labels plus the additional label", site=lp[0].span)
    # timestamp guard
    g = False
    for bi in b.reachable_blocks():
        be = b.bool_edges(bi)
        if be and be[0][0] == "binop" and be[0][1] in ("Ne", "Eq"):
            x, y = be[0][2], be[0][3]
            if (is_call(x, ["Metric::timestamp_ms", "get_timestamp_ms"]) and const_int(y) == 0) or (is_call(y, ["Metric::timestamp_ms", "get_timestamp_ms"]) and const_int(x) == 0):
                edge = be[1] if be[0][1] == "Ne" else be[2]
                g = b.edge_dominates(bi, edge, cs[5].bb) and b.edge_dominates(bi, edge, cs[4].bb) and not b.edge_dominates(bi, edge, cs[6].bb)
    if not g:
        # `match timestamp { 0 => {}, ts => write }`: a switch on the value itself
        for bi in b.reachable_blocks():
            si = b.switch_info(bi)
            if si and si[3] != "bool" and is_call(peel(si[0]), ["Metric::timestamp_ms", "get_timestamp_ms"]):
                zero = [t for v, t in si[1] if v == 0]
                if len(zero) == 1 and len(si[1]) == 1:
                    g = b.edge_dominates(bi, si[2], cs[5].bb) and b.edge_dominates(bi, si[2], cs[4].bb) and not b.edge_dominates(bi, si[2], cs[6].bb)
    ctx.ob(rid, "write_sample|timestamp-guard", g, "the timestamp (with its separating space) is written exactly when it is non-zero", site=cs[5].span)
    # optional postfix guard
    d = False
    for bi in b.reachable_blocks():
        si = b.switch_info(bi)
        if si and si[0] == ("discr", P(3)):
            some_t = [t for v, t in si[1] if v == 1]
            d = bool(some_t) and b.dominates(some_t[0], cs[1].bb)
    ctx.ob(rid, "write_sample|postfix-guard", d, "the postfix is written iff it is Some", site=cs[1].span)


def rule_R6(ctx, f):
    rid = "R6"
    ctx.rule(rid, "one body, append-only: encode, encode_utf8 and encode_to_string each reach encode_impl exactly once with the caller's families and perform no other write; "
                  "WriteUtf8 for W only calls Write::write_all(text.as_bytes()); StringBuf only calls String::push_str(text); no clear/truncate/insert on an output buffer")
    enc = ctx.anchor(rid, "Encoder::encode", f.body("<prometheus::encoder::text::TextEncoder as prometheus::encoder::Encoder>::encode"))
    if enc:
        ctx.saw(enc)
        cs = enc.calls_to("TextEncoder::encode_impl")
        eff = effect_calls(enc)
        fi, wi = tc.impl_param(f, "families"), tc.impl_param(f, "writer")     # positions in encode_impl's own signature (with or without `&self`)
        ok = len(cs) == 1 and len(eff) == 1 and fi is not None and wi is not None and peel(cs[0].args[fi - 1]) == P(2) and any(s == P(3) for s in subterms(cs[0].args[wi - 1])) \
            and count_range(enc, [cs[0].bb]) == (1, 1) and enc.term_local(0) == cs[0].result_term()
        ctx.ob(rid, "encode|delegates", ok, "encode must be exactly encode_impl(families, writer)", site=enc.raw["span"]["at"])
    eu = ctx.anchor(rid, "encode_utf8", f.body(T + "TextEncoder::encode_utf8"))
    if eu:
        ctx.saw(eu)
        cs = eu.calls_to("TextEncoder::encode_impl")
        eff = [c for c in effect_calls(eu)]
        fi, wi = tc.impl_param(f, "families"), tc.impl_param(f, "writer")
        ok = len(cs) == 1 and len(eff) == 1 and fi is not None and wi is not None and peel(cs[0].args[fi - 1]) == P(2) and count_range(eu, [cs[0].bb]) == (1, 1)
        if ok:
            w = [s for s in subterms(cs[0].args[wi - 1]) if isinstance(s, tuple) and s and s[0] == "agg" and s[2].endswith("StringBuf::StringBuf")]
            ok = len(w) == 1 and peel(w[0][3][0]) == P(3)
        ctx.ob(rid, "encode_utf8|delegates", ok, "encode_utf8 must be exactly encode_impl(families, StringBuf(buf)) on the caller's buffer", site=eu.raw["span"]["at"])
    es = ctx.anchor(rid, "encode_to_string", f.body(T + "TextEncoder::encode_to_string"))
    if es:
        ctx.saw(es)
        cs = es.calls_to(["TextEncoder::encode_utf8", "TextEncoder::encode_impl"])
        eff = [c for c in effect_calls(es, PURE + ["String::new", "Try::branch", "FromResidual::from_residual"])]
        ok = len(cs) == 1 and len(eff) == 1 and peel(cs[0].args[1]) == P(2) and count_range(es, [cs[0].bb]) == (1, 1)
        if ok:
            buf = peel(cs[0].args[2])
            from pvrules.rules import ok_payloads
            oks = ok_payloads(es)
            ok = is_call(buf, "String::new") and len(oks) == 1 and peel(oks[0]) == buf
        ctx.ob(rid, "encode_to_string|delegates", ok, "encode_to_string must encode into a fresh String and return that String", site=es.raw["span"]["at"])
    w = ctx.anchor(rid, "WriteUtf8 for W", f.body("<W as prometheus::encoder::text::WriteUtf8>::write_all"))
    if w:
        ctx.saw(w)
        eff = effect_calls(w, PURE + ["str::as_bytes"])
        ok = len(eff) == 1 and eff[0].matches("Write::write_all") and peel(eff[0].args[0]) == P(1) and peel(eff[0].args[1], transparent=["str::as_bytes"]) == P(2) and w.term_local(0) == eff[0].result_term()
        ctx.ob(rid, "WriteUtf8<W>|append-only", ok, "WriteUtf8 for W must be Write::write_all(self, text.as_bytes())", site=w.raw["span"]["at"])
    s = ctx.anchor(rid, "WriteUtf8 for StringBuf", f.body("<prometheus::encoder::text::StringBuf<'_> as prometheus::encoder::text::WriteUtf8>::write_all"))
    if s:
        ctx.saw(s)
        eff = effect_calls(s)
        ok = len(eff) == 1 and eff[0].matches("String::push_str") and peel(eff[0].args[0]) == ("field", ("deref", P(1)), "0") and peel(eff[0].args[1]) == P(2) and count_range(s, [eff[0].bb]) == (1, 1)
        ctx.ob(rid, "StringBuf|append-only", ok, "StringBuf::write_all must be exactly self.0.push_str(text)", site=s.raw["span"]["at"])
    bad = []
    for k in f.order:
        b = f.bodies[k]
        if "encoder::text" not in b.path:
            continue
        for c in b.calls():
            if c.matches(["String::clear", "String::truncate", "String::insert", "String::insert_str", "String::remove", "String::pop", "String::replace_range", "String::drain", "Vec::clear", "Vec::truncate"]):
                bad.append((b, c))
    for b, c in bad:
        ctx.ob(rid, "%s|non-append" % strip_generics(b.path), False, "the text encoder must only append to its output (found %s)" % strip_generics(c.callee), site=c.span)
    if not bad:
        ctx.ob(rid, "no-non-append-ops", True, "no clear/truncate/insert/remove on strings in the text encoder")


def rule_R7(ctx, f):
    rid = "R7"
    ctx.rule(rid, "header shape: per family `check_metric_family(mf)?` dominates every write; '# HELP ' name ' ' escaped-help '\\n' is written iff help is non-empty; "
                  "'# TYPE ' name ' ' type-word '\\n' always; all families of the slice are visited in order")
    b = f.body(T + "TextEncoder::encode_impl")
    if not b:
        return
    FAMS = P(tc.impl_param(f, "families") or 2)
    fnext = [c for c in b.calls_to("Iterator::next") if (lambda e: e and e[0] == FAMS)(elem_of(("field", ("downcast", c.result_term(), "Some"), "0")))]
    ctx.ob(rid, "encode_impl|family-loop", len(fnext) == 1 and not [a for a in elem_of(("field", ("downcast", fnext[0].result_term(), "Some"), "0"))[1] if a not in ("into_iter", "iter")],
           "all families of the slice must be visited in order", site=b.raw["span"]["at"])
    if len(fnext) != 1:
        return
    fam = ("field", ("downcast", fnext[0].result_term(), "Some"), "0")
    cm = b.calls_to("check_metric_family")
    ok = len(cm) == 1 and peel(cm[0].args[0]) == fam
    cont = try_continue_block(b, cm[0]) if ok else None
    sinks = sink_calls(b) + b.calls_to("write_sample")
    ctx.ob(rid, "encode_impl|check-first", ok and cont is not None and all(b.dominates(cont, c.bb) for c in sinks), "check_metric_family(mf)? must dominate every write of the family", site=cm[0].span if cm else b.raw["span"]["at"])
    seq = []
    for c in sink_calls(b):
        t = peel(c.args[1], transparent=tc.DEREFS)
        s = tc.const_str(t)
        if s is not None:
            seq.append(s)
        elif is_call(t, ["MetricFamily::name", "get_name"]):
            seq.append("NAME")
        elif is_call(t, "escape_string"):
            seq.append("HELP")
        elif is_call(t, "str::to_lowercase") or tc.type_word_table(b, f, c.args[1]):
            seq.append("TYPE")
        else:
            seq.append("?")
    want = ['"# HELP "', "NAME", '" "', "HELP", '"\\n"', '"# TYPE "', "NAME", '" "', "TYPE", '"\\n"']
    ctx.ob(rid, "encode_impl|header-pieces", seq == want, "header pieces must be %s (found %s)" % (want, seq), site=b.raw["span"]["at"])
    if seq == want:
        cs = sink_calls(b)
        # (path-sensitive: when the header is written by an expanded helper, its early error returns meet its Ok in one block before the caller's `?`)
        chain = all(b.dominates_ps(cs[i].bb, cs[i + 1].bb) for i in list(range(0, 4)) + list(range(5, 9)))
        ctx.ob(rid, "encode_impl|header-order", chain and all(b.dominates_ps(cs[i].bb, c.bb) for i in range(5, 10) for c in b.calls_to("write_sample")),
               "the pieces of each header line are written in order and the TYPE line precedes all samples", site=cs[5].span)
        # HELP guarded by !help.is_empty(); TYPE unconditional
        g = False
        for bi in b.reachable_blocks():
            be = b.bool_edges(bi)
            if be:
                cnd, neg = be[0], False
                if cnd[0] == "unop" and cnd[1] == "Not":
                    cnd, neg = cnd[2], True
                if is_call(cnd, ["str::is_empty", "String::is_empty"]) and is_call(peel(cnd[2][0]), ["MetricFamily::help", "get_help"]):
                    edge = be[2] if not neg else be[1]
                    g = all(b.edge_dominates(bi, edge, cs[i].bb) for i in range(0, 5)) and not b.edge_dominates(bi, edge, cs[5].bb)
        ctx.ob(rid, "encode_impl|help-guard", g, "the HELP line is written iff the help text is non-empty; the TYPE line always", site=cs[0].span)
        tgt_loop = b.switch_info(fnext[0].target)
        body_entry = [t for v, t in tgt_loop[1] if v == 1][0]
        ctx.ob(rid, "encode_impl|type-always", b.all_paths_pass(cont, [cs[5].bb], dst_set={fnext[0].bb}) if cont is not None else False, "every accepted family gets a TYPE line", site=cs[5].span)


def rule_R8(ctx, f):
    rid = "R8"
    ctx.rule(rid, "label block: label_pairs_to_text renders every pair of the slice (no filter, no path through the loop body that skips the name or the value), the additional "
                  "label exactly when it is Some, and closes the block on every path on which it opened it (the only way past the closing brace is the empty-input early return)")
    from . import hash_common as hc
    from .C13 import real_guards
    b = ctx.anchor(rid, "label_pairs_to_text", f.body(T + "label_pairs_to_text"))
    if not b:
        return
    ctx.saw(b)
    nx = b.calls_to("Iterator::next")
    e = elem_of(("field", ("downcast", nx[0].result_term(), "Some"), "0")) if len(nx) == 1 else None
    ok = bool(e) and peel(e[0]) == P(1) and not [a for a in e[1] if a not in ("into_iter", "iter")]
    ctx.ob(rid, "label_pairs_to_text|all-pairs", ok, "the loop must run over every element of `pairs`, in order", site=b.raw["span"]["at"])
    if not ok:
        return
    elem = ("field", ("downcast", nx[0].result_term(), "Some"), "0")
    ws = b.calls_to("WriteUtf8::write_all")
    per_pair = [w for w in ws if elem in list(subterms(w.args[1]))]
    kinds = set()
    for w in per_pair:
        t = peel(w.args[1], transparent=tc.DEREFS + ["escape_string", "Cow::deref"])
        kinds.add("name" if is_call(t, ["LabelPair::name", "get_name"]) else "value" if is_call(t, ["LabelPair::value", "get_value"]) else "?")
        ctx.ob(rid, "label_pairs_to_text|pair-write#%d|every-element" % per_pair.index(w), hc.every_element(b, w) is True,
               "every pair must be rendered: no path through the loop body may reach the next pair without this write (an empty value is still a label)", site=w.span)
    ctx.ob(rid, "label_pairs_to_text|pair-pieces", kinds == {"name", "value"} and len(per_pair) == 2, "per pair exactly the name and the (escaped) value are written (found %s)" % sorted(kinds), site=b.raw["span"]["at"])
    close = [w for w in ws if tc.const_str(peel(w.args[1])) == '"}"']
    okc = len(close) == 1
    bad = []
    if okc:
        # every successful return that wrote anything wrote the closing brace afterwards
        from pvrules.rules import result_assign_blocks
        _, okb = result_assign_blocks(b)
        for w in ws:
            if w is not close[0] and not b.all_paths_pass(w.bb, [close[0].bb], dst_set=okb):
                bad.append("after " + show(w.args[1])[:60])
        okc = bool(okb)
    ctx.ob(rid, "label_pairs_to_text|closing-brace", okc and not bad,
           "the closing brace must be written on every successful path on which anything was written; paths that skip it: %s" % bad[:3], site=close[0].span if close else b.raw["span"]["at"])
    # the additional label: written under discr(additional_label) == Some only
    add = [w for w in ws if w not in per_pair and [s_ for s_ in subterms(w.args[1]) if s_ == ("downcast", P(2), "Some")]]
    oka = len(add) == 2
    for w in add:
        gs = [g for g in real_guards(b, w.bb) if not is_call(g[1] if g[0] == "discr" else g, ["Try::branch", "Iterator::next", "slice::is_empty", "Option::is_none"])]
        oka = oka and gs == [("discr", P(2))]
    ctx.ob(rid, "label_pairs_to_text|additional-label", oka, "the additional label (name and escaped value) is written exactly when it is Some", site=b.raw["span"]["at"])


def run(ctx):
    f = ctx.facts("default")
    ctx.run_rule("R1", rule_R1, f)
    ctx.run_rule("R2", rule_R2, f)
    ctx.run_rule("R3", lambda c: tc.rule_arm_payload(c, f, "R3"))
    ctx.run_rule("R4", rule_R4, f)
    ctx.run_rule("R5", rule_R5, f)
    ctx.run_rule("R6", rule_R6, f)
    ctx.run_rule("R7", rule_R7, f)
    ctx.run_rule("R8", rule_R8, f)
    if ctx.tier == "thorough":
        g = ctx.facts("plain")
        ctx.run_rule("R1@plain", lambda c: rule_R1(c, g))
        ctx.run_rule("R3@plain", lambda c: tc.rule_arm_payload(c, g, "R3@plain"))
        ctx.run_rule("R4@plain", lambda c: rule_R4(c, g))
