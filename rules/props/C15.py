"""C15 — Descriptor identity is structural (DESIGN §4.C15)."""
import re

from pvrules.mir import is_call, peel, show, strip_generics, subterms
from pvrules.rules import elem_of, ok_payloads
from . import hash_common as hc
from . import unordered as un
from . import controls

LEVEL = "other"
EXPLANATION = ("Static MIR rules over Desc::new and Describer for Opts: a non-UTF-8 separator follows every hashed component (R1); no hasher is fed from an "
               "unordered iteration — the id hasher iterates a Vec filled from the name and from values looked up in sorted-name (BTreeSet) order, the dim "
               "hasher iterates the BTreeSet; every HashMap iteration in Desc::new only feeds a set or a Vec that is sorted (R2); required/forbidden sources: "
               "id ⊇ {fq_name, const label values} and excludes help, names and variable labels; dim ⊇ {help, const names, '$'-prefixed variable names} and "
               "excludes fq_name and const values; the two fields are assigned only from the respective finish() (R3); Opts::describe passes fq_name(), help, "
               "variable labels and const labels positionally (R4). Equality is up to collisions of the 64-bit hash.")
ASSUMPTIONS = ["no collisions of 64-bit FNV-1a between distinct byte sequences", "BTreeSet iterates in sorted order"]
D = "prometheus::desc::Desc::new"
P = lambda i: ("param", i)  # noqa: E731
BYTES_T = ["String::as_bytes", "str::as_bytes", "AsRef::as_ref", "Deref::deref", "String::as_str"]


def hashers(b):
    """[(hasher term, writes, finish call)]"""
    res = []
    for h, evs in hc.hasher_events(b).items():
        ws = [c for k, c in evs if k in ("write", "write_str")]
        fin = [c for k, c in evs if k == "finish"]
        res.append((h, ws, fin))
    return res


def field_assigned_from(b, name):
    """Terms assigned to the `name` field of the descriptor under construction: partial assignments `desc.id = ..`, or the field operand of a
    `Desc { .. }` aggregate whose value is not a placeholder constant that is assigned later."""
    res = []
    for bi, si, pl, rv in b.stores():
        if pl["p"] and pl["p"][-1][0] == "field" and pl["p"][-1][2] == name:
            res.append(b.term_rvalue(rv))
    if not res:
        from pvrules.rules import agg_field, find_aggs
        for bi in sorted(b.reachable_blocks()):
            for st in b.blocks[bi]["stmts"]:
                if st["k"] == "assign" and st["rv"].get("k") == "agg" and st["rv"].get("agg") == "adt" and st["rv"]["adt"].endswith("desc::Desc"):
                    t = b.term_rvalue(st["rv"])
                    v = agg_field(t, name)
                    if v is not None:
                        res.append(peel(v, transparent=[]))
    return res


def classify_hashers(ctx, rid, b):
    idh = dimh = None
    for h, ws, fin in hashers(b):
        if len(fin) != 1:
            continue
        ft = fin[0].result_term()
        if ft in field_assigned_from(b, "id"):
            idh = (h, ws, fin[0])
        if ft in field_assigned_from(b, "dim_hash"):
            dimh = (h, ws, fin[0])
    return idh, dimh


def pushes_into(b, vec):
    return [c for c in b.calls_to(["Vec::push", "Vec::insert", "Vec::extend", "Extend::extend"]) if peel(c.args[0]) == vec]


def ordered_container(b, t):
    """'btree' / 'vec' / 'hash' / None for the collection term t (looks at the type of the local that holds it)."""
    t = peel(t)
    ty = None
    if t[0] == "call":
        for c in b.calls():
            if c.bb == t[3] and not c.dest["p"]:
                ty = b.local_ty(c.dest["l"])
    elif t[0] == "param":
        ty = b.local_ty(t[1])
    elif t[0] == "var":
        ty = b.local_ty(t[1])
    if ty is None:
        return None
    if re.search(r"BTree(Set|Map)<", ty):
        return "btree"
    if re.search(r"Hash(Set|Map)<", ty):
        return "hash"
    if re.search(r"Vec<|\[", ty):
        return "vec"
    return None


def rule_R1(ctx, f, b):
    rid = "R1"
    ctx.rule(rid, "separators: every Hasher::write of a variable-length component in Desc::new is followed on every path, before the next write/finish on that "
                  "hasher, by write_u8(SEPARATOR_BYTE), and the separator byte cannot occur in UTF-8")
    n = hc.rule_separators(ctx, f, b, rid, "Desc::new")
    hc.rule_hasher_init(ctx, f, b, rid, "Desc::new")
    ctx.floor(rid, "Hasher::write sites in Desc::new", n, 2)
    c = f.consts.get("prometheus::metrics::SEPARATOR_BYTE")
    ctx.ob(rid, "SEPARATOR_BYTE", c is not None and int(c.get("bits", -1)) in hc.NON_UTF8, "SEPARATOR_BYTE must be a byte that cannot occur in UTF-8 (found %s)" % (c or {}).get("bits"))


def _hash_seqs(b):
    """{hasher term: (write sites, finish site, symbolic sequence of hashed components)}.  A literal byte written right before a component
    (hash_common.literal_prefixes) becomes the projection step ("prefix", byte) of that component."""
    from pvrules import seqeval
    out = {}
    pref = hc.literal_prefixes(b.facts, b)
    for h, ws, fin in hashers(b):
        seq = seqeval.sink_seq(b, ws, lambda s_: s_.args[1])
        if seq is not None and any(w.bb in pref for w in ws):
            seq = []
            def anchor(c):
                lp_ = hc.innermost_loop(b, c)
                return lp_[0].bb if lp_ is not None else c.bb
            for w in sorted(ws, key=lambda c: len([d for d in ws if d is not c and (b.dominates(anchor(d), anchor(c)) if anchor(d) != anchor(c) else b.dominates(d.bb, c.bb))])):
                part = seqeval.sink_seq(b, [w], lambda s_: s_.args[1])
                if part is None:
                    seq = None
                    break
                if w.bb in pref:
                    step = (("prefix", pref[w.bb][1]),)
                    part = [("each", sg[1], sg[2] + step, sg[3]) if sg[0] == "each" else ("elem", ("prefixed", pref[w.bb][1], sg[1])) for sg in part]
                seq.extend(part)
        out[h] = (ws, fin, seq)
    return out


def rule_R2(ctx, f, b):
    rid = "R2"
    from pvrules import seqeval
    ctx.rule(rid, "order independence: the sequence of components fed to each hasher in Desc::new (evaluated symbolically, whatever mix of loops, iterator chains, helper "
                  "functions and intermediate Vecs produces it) consists of parameters and of the elements of ORDERED containers in iteration order; every HashMap iteration "
                  "in Desc::new is order-insensitive or sorted before it escapes; every element is hashed")
    for s, o in un.enumerate_sites(f, only=lambda bb: bb.path == b.path):
        ctx.ob(rid, s.key(o), s.cls in ("insensitive", "sorted"), "hash-container iteration in Desc::new must not determine any order (%s) %s" % (s.cls, s.detail), site=s.call.span)
    for hi, (h, (ws, fin, seq)) in enumerate(sorted(_hash_seqs(b).items(), key=lambda kv: min([c.bb for c in kv[1][0]] or [0]))):
        hname = "hasher%d" % hi
        ctx.ob(rid, "%s|sequence" % hname, seq is not None, "the components fed to this hasher must form a sequence the evaluator understands (writes: %s)" % [show(w.args[1])[:60] for w in ws],
               site=ws[0].span if ws else b.raw["span"]["at"])
        if seq is None:
            continue
        for k, seg in enumerate(seq):
            if seg[0] == "each":
                kind = ordered_container(b, seg[1])
                ctx.ob(rid, "%s#%d|ordered" % (hname, k), kind == "btree", "a hashed run of elements must come from an ordered container (found %s over %s)" % (show(seg[1])[:80], kind), site=ws[0].span)
        for i, w in enumerate(ws):
            ee = hc.every_element(b, w)
            ctx.ob(rid, "write@%s#%d|every-element" % (hname, i), ee is not False, "every element of the iterated container must be hashed: no path through the loop body may skip the write", site=w.span)
        # values collected in an intermediate Vec: every push unconditional as well
        for c in b.calls_to("Vec::push"):
            if [w for w in ws if peel(c.args[0]) in [peel(x) for x in subterms(w.args[1]) if isinstance(x, tuple)]] or True:
                pass


def rule_R3(ctx, f, b):
    rid = "R3"
    ctx.rule(rid, "required / forbidden sources: id = hash(fq_name, const label VALUES in name order); dim_hash = hash(help, const NAMES and '$'-prefixed variable names); "
                  "id and dim_hash are assigned only from the finish() of the respective hasher")
    idh, dimh = classify_hashers(ctx, rid, b)
    ctx.ob(rid, "id-hasher", idh is not None, "desc.id must be assigned from a hasher's finish()", site=b.raw["span"]["at"])
    ctx.ob(rid, "dim-hasher", dimh is not None, "desc.dim_hash must be assigned from a hasher's finish()", site=b.raw["span"]["at"])
    ctx.ob(rid, "id|single-assignment", len(field_assigned_from(b, "id")) == 1 and len(field_assigned_from(b, "dim_hash")) == 1 and (idh is None or dimh is None or idh[0] != dimh[0]),
           "id and dim_hash are each assigned once, from two different hashers", site=b.raw["span"]["at"])
    if not idh or not dimh:
        return
    # the sets of label names and what each of them holds: raw const names (keys of param 4), raw variable names (elements of param 3 / desc.variable_labels),
    # variable names with a '$' put in front by format!
    sets = {}
    for c in b.calls_to("BTreeSet::insert"):
        from pvrules import seqeval as _sq
        S = peel(_sq._resolve_join(c.args[0], b))
        v = c.args[1]
        pv = peel(v)
        if isinstance(pv, tuple) and pv and pv[0] == "agg" and (pv[2].endswith("Cow::Borrowed") or pv[2].endswith("Cow::Owned")) and pv[3]:
            pv = peel(pv[3][0])       # a set of Cow<str>: the same strings
        e = elem_of(pv)
        fm = [s_ for s_ in subterms(v) if isinstance(s_, tuple) and s_ and s_[0] == "const" and s_[1] and s_[1].startswith('b"')]
        disp = [s_ for s_ in subterms(v) if isinstance(s_, tuple) and s_ and s_[0] == "call" and is_call(s_, "Argument::new_display")]
        if fm and disp:
            ee = elem_of(peel(disp[0][2][0]))
            if ee and peel(ee[0]) in (P(3),) and fm[0][1] == 'b"\\x01$\\xc0\\x00"':
                kind = "$variable-name"
            else:
                kind = "?fmt" + fm[0][1]
        elif e and peel(e[0]) == P(4) and e[1] and "keys" in e[1]:
            kind = "const-name"
        elif e and peel(e[0]) == P(3) and not [a for a in e[1] if a not in ("iter", "into_iter")] and not e[2]:
            kind = "variable-name"
        else:
            kind = "?" + show(v)
        sets.setdefault(S, []).append((kind, c))
    kinds_of = {S: {k for k, _ in v} for S, v in sets.items()}

    seqs = _hash_seqs(b)
    ids, dims = seqs.get(idh[0], (None, None, None))[2], seqs.get(dimh[0], (None, None, None))[2]
    from pvrules import seqeval

    def is_help(t):
        t = peel(t)
        return t == P(2) or (isinstance(t, tuple) and len(t) == 3 and t[0] == "field" and t[2] == "help")
    # id: the name, then the const label values in the order of a sorted set that holds the const names (it may later also receive the '$'-prefixed variable names)
    id_set = peel(ids[1][1]) if (ids is not None and len(ids) == 2 and ids[1][0] == "each") else None
    id_ok = id_set is not None and ids[0] == ("elem", P(1)) and ids[1][2] == (("lookup", P(4)),) and "const-name" in kinds_of.get(id_set, set()) \
        and kinds_of.get(id_set, set()) <= {"const-name", "$variable-name"}
    ctx.ob(rid, "id|sources", id_ok,
           "the id must hash exactly the fully-qualified name and then the const label values taken in label-name order (found %s)" % seqeval.show_seq(ids), site=idh[2].span)
    # dim: the help text, then every const name as it is and every variable name with '$' in front: one sorted set holding both, or one sorted set each (the '$' is then
    # either part of the stored string or a literal byte hashed right before the name); a const name cannot start with '$', so the two kinds cannot alias
    dim_form = None
    if dims is not None and len(dims) >= 2 and dims[0][0] == "elem" and is_help(dims[0][1]) and all(sg[0] == "each" for sg in dims[1:]):
        parts = sorted(((tuple(sorted(kinds_of.get(peel(sg[1]), {"?"}))), sg[2]) for sg in dims[1:]), key=str)
        if parts == [(("$variable-name", "const-name"), ())]:
            dim_form = "one-set"
        elif parts == sorted([(("const-name",), ()), (("variable-name",), (("prefix", 0x24),))], key=str) or parts == sorted([(("const-name",), ()), (("$variable-name",), ())], key=str):
            dim_form = "two-sets"
    ctx.ob(rid, "dim|sources", dim_form is not None, "the dim hash must hash exactly the help text and then the sorted label-name set(s) (found %s)" % seqeval.show_seq(dims), site=dimh[2].span)
    # the const values are looked up while the name set holds the const names only (the '$'-prefixed variable names are inserted later)
    if id_ok:
        var_ins = [c for k, c in sets.get(id_set, []) if k == "$variable-name"]
        it_bb = ids[1][3]
        ok_order = it_bb is not None and all(it_bb not in b.reach(v.bb) for v in var_ins)
        ctx.ob(rid, "id|values-before-variable-names", ok_order, "the const label values must be collected before the '$'-prefixed variable names enter the name set", site=idh[2].span)
    used = set()
    for sg in (dims or [])[1:]:
        if sg[0] == "each":
            used |= kinds_of.get(peel(sg[1]), {"?"})
            if ("prefix", 0x24) in sg[2]:
                used = (used - {"variable-name"}) | ({"$variable-name"} if "variable-name" in kinds_of.get(peel(sg[1]), set()) else set())
    ctx.ob(rid, "dim|name-set-content", used == {"const-name", "$variable-name"},
           "the hashed label names must be the raw const label names and the variable label names prefixed with '$' (so a const/variable mix cannot alias) — found %s" % sorted(used),
           site=b.raw["span"]["at"])
    # all const names / variable names are inserted (loops over the whole collections)
    ctx.floor(rid, "BTreeSet::insert sites", len(b.calls_to("BTreeSet::insert")), 2)


def rule_R4(ctx, f):
    rid = "R4"
    ctx.rule(rid, "Describer for Opts passes (fq_name(), help, variable_labels, const_labels) positionally to Desc::new; HistogramOpts delegates to it; "
                  "fq_name() is build_fq_name(namespace, subsystem, name)")
    b = ctx.anchor(rid, "Opts::describe", f.body("<prometheus::metrics::Opts as prometheus::desc::Describer>::describe"))
    if b:
        ctx.saw(b)
        cs = b.calls_to("Desc::new")
        ok = len(cs) == 1
        if ok:
            a = cs[0].args
            sf = lambda n: ("field", ("deref", P(1)), n)  # noqa: E731
            ok = is_call(peel(a[0], transparent=[]), "Opts::fq_name") and peel(peel(a[0], transparent=[])[2][0]) == P(1) and peel(a[1]) == sf("help") and peel(a[2]) == sf("variable_labels") and peel(a[3]) == sf("const_labels")
            ok = ok and b.term_local(0) == cs[0].result_term()
        ctx.ob(rid, "Opts::describe|args", ok, "Opts::describe must be Desc::new(self.fq_name(), self.help, self.variable_labels, self.const_labels)", site=b.raw["span"]["at"])
    h = ctx.anchor(rid, "HistogramOpts::describe", f.body("<prometheus::histogram::HistogramOpts as prometheus::desc::Describer>::describe"))
    if h:
        ctx.saw(h)
        cs = h.calls_to("Describer::describe")
        ok = len(cs) == 1 and peel(cs[0].args[0]) == ("field", ("deref", P(1)), "common_opts") and h.term_local(0) == cs[0].result_term()
        ctx.ob(rid, "HistogramOpts::describe|delegates", ok, "HistogramOpts::describe must delegate to its common_opts", site=h.raw["span"]["at"])
    q = ctx.anchor(rid, "Opts::fq_name", f.body("prometheus::metrics::Opts::fq_name"))
    if q:
        ctx.saw(q)
        cs = q.calls_to("build_fq_name")
        ok = len(cs) == 1
        if ok:
            sf = lambda n: ("field", ("deref", P(1)), n)  # noqa: E731
            ok = [peel(x) for x in cs[0].args] == [sf("namespace"), sf("subsystem"), sf("name")] and q.term_local(0) == cs[0].result_term()
        ctx.ob(rid, "Opts::fq_name|args", ok, "fq_name() must be build_fq_name(namespace, subsystem, name)", site=q.raw["span"]["at"])


def run(ctx):
    f = ctx.facts("default")
    b = ctx.anchor("R1", "Desc::new", f.body(D))
    if b:
        ctx.saw(b)
        ctx.run_rule("R1", rule_R1, f, b)
        ctx.run_rule("R2", rule_R2, f, b)
        ctx.run_rule("R3", rule_R3, f, b)
    ctx.run_rule("R4", rule_R4, f)
    ctx.run_rule("R2", lambda c: controls.control_unordered(c, "R2"))
    if ctx.tier == "thorough":
        g = ctx.facts("plain")
        gb = g.body(D)
        if gb:
            ctx.run_rule("R1@plain", lambda c: hc.rule_separators(c, g, gb, "R1@plain", "Desc::new"))
            ctx.run_rule("R3@plain", lambda c: rule_R3(c, g, gb))
