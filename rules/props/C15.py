"""C15 — Descriptor identity is structural (DESIGN §4.C15)."""
import re

from pvrules.mir import is_call, peel, show, strip_generics, subterms
from pvrules.rules import elem_of, ok_payloads
from . import hash_common as hc
from . import unordered as un
from . import controls

LEVEL = "other"
EXPLANATION = ("Static MIR rules over Desc::new and Describer for Opts: a non-UTF-8 separator follows every hashed component (R1); no hasher is fed from an "
               "unordered iteration — the id hasher iterates a Vec filled from the name and from values looked up in sorted-name (BTreeSet) order, the dim "
               "hasher iterates the BTreeSet; every HashMap iteration in Desc::new only feeds a set or a Vec that is sorted (R2); required/forbidden sources: "
               "id ⊇ {fq_name, const label values} and excludes help, names and variable labels; dim ⊇ {help, const names, '$'-prefixed variable names} and "
               "excludes fq_name and const values; the two fields are assigned only from the respective finish() (R3); Opts::describe passes fq_name(), help, "
               "variable labels and const labels positionally (R4). Equality is up to collisions of the 64-bit hash.")
ASSUMPTIONS = ["no collisions of 64-bit FNV-1a between distinct byte sequences", "BTreeSet iterates in sorted order"]
D = "prometheus::desc::Desc::new"
P = lambda i: ("param", i)  # noqa: E731
BYTES_T = ["String::as_bytes", "str::as_bytes", "AsRef::as_ref", "Deref::deref", "String::as_str"]


def hashers(b):
    """[(hasher term, writes, finish call)]"""
    res = []
    for h, evs in hc.hasher_events(b).items():
        ws = [c for k, c in evs if k in ("write", "write_str")]
        fin = [c for k, c in evs if k == "finish"]
        res.append((h, ws, fin))
    return res


def field_assigned_from(b, name):
    """Terms assigned to the `name` field of the descriptor under construction (partial assignments)."""
    res = []
    for bi, si, pl, rv in b.stores():
        if pl["p"] and pl["p"][-1][0] == "field" and pl["p"][-1][2] == name:
            res.append(b.term_rvalue(rv))
    return res


def classify_hashers(ctx, rid, b):
    idh = dimh = None
    for h, ws, fin in hashers(b):
        if len(fin) != 1:
            continue
        ft = fin[0].result_term()
        if ft in field_assigned_from(b, "id"):
            idh = (h, ws, fin[0])
        if ft in field_assigned_from(b, "dim_hash"):
            dimh = (h, ws, fin[0])
    return idh, dimh


def pushes_into(b, vec):
    return [c for c in b.calls_to(["Vec::push", "Vec::insert", "Vec::extend", "Extend::extend"]) if peel(c.args[0]) == vec]


def ordered_container(b, t):
    """'btree' / 'vec' / 'hash' / None for the collection term t (looks at the type of the local that holds it)."""
    t = peel(t)
    ty = None
    if t[0] == "call":
        for c in b.calls():
            if c.bb == t[3] and not c.dest["p"]:
                ty = b.local_ty(c.dest["l"])
    elif t[0] == "param":
        ty = b.local_ty(t[1])
    elif t[0] == "var":
        ty = b.local_ty(t[1])
    if ty is None:
        return None
    if re.search(r"BTree(Set|Map)<", ty):
        return "btree"
    if re.search(r"Hash(Set|Map)<", ty):
        return "hash"
    if re.search(r"Vec<|\[", ty):
        return "vec"
    return None


def rule_R1(ctx, f, b):
    rid = "R1"
    ctx.rule(rid, "separators: every Hasher::write of a variable-length component in Desc::new is followed on every path, before the next write/finish on that "
                  "hasher, by write_u8(SEPARATOR_BYTE), and the separator byte cannot occur in UTF-8")
    n = hc.rule_separators(ctx, f, b, rid, "Desc::new")
    hc.rule_hasher_init(ctx, f, b, rid, "Desc::new")
    ctx.floor(rid, "Hasher::write sites in Desc::new", n, 3)
    c = f.consts.get("prometheus::metrics::SEPARATOR_BYTE")
    ctx.ob(rid, "SEPARATOR_BYTE", c is not None and int(c.get("bits", -1)) in hc.NON_UTF8, "SEPARATOR_BYTE must be a byte that cannot occur in UTF-8 (found %s)" % (c or {}).get("bits"))


def rule_R2(ctx, f, b):
    rid = "R2"
    ctx.rule(rid, "order independence: each hasher in Desc::new is fed only from parameters or from iterating an ordered container (BTreeSet, or a Vec whose pushes "
                  "come from parameters / BTreeSet iteration); every HashMap iteration in Desc::new is order-insensitive or sorted before it escapes")
    for s, o in un.enumerate_sites(f, only=lambda bb: bb.path == b.path):
        ctx.ob(rid, s.key(o), s.cls in ("insensitive", "sorted"), "hash-container iteration in Desc::new must not determine any order (%s) %s" % (s.cls, s.detail), site=s.call.span)
    for hi, (h, ws, fin) in enumerate(hashers(b)):
        hname = "hasher%d" % hi
        for i, w in enumerate(ws):
            v = peel(w.args[1], transparent=BYTES_T)
            e = elem_of(v)
            if e is None:
                ok = v[0] == "param" or (v[0] == "call" and is_call(v, "Clone::clone") and peel(v)[0] == "param") or peel(v)[0] == "param"
                ctx.ob(rid, "write@%s#%d|source" % (hname, i), ok, "a hashed component must be a parameter or an element of an ordered container (found %s)" % show(w.args[1]), site=w.span)
                continue
            kind = ordered_container(b, e[0])
            ok = kind in ("btree", "vec") and not [a for a in e[1] if a not in ("into_iter", "iter")]
            if kind == "vec":
                for pi, p in enumerate(pushes_into(b, peel(e[0]))):
                    pv = peel(p.args[1], transparent=["Option::unwrap", "Option::cloned", "Clone::clone", "Option::expect", "Option::unwrap_or_default"])
                    ok2 = True
                    for s_ in subterms(pv):
                        ee = elem_of(s_) if isinstance(s_, tuple) and s_ and s_[0] == "field" else None
                        if ee and ordered_container(b, ee[0]) == "hash":
                            ok2 = False
                    ctx.ob(rid, "write@%s#%d|push#%d|ordered-source" % (hname, i, pi), ok2,
                           "a value pushed into a hashed Vec must not come from iterating a hash container (found %s)" % show(p.args[1]), site=p.span)
            # every element is hashed: no path through the loop body reaches the next iteration without passing the write
            nx = [c for c in b.calls_to("Iterator::next") if c.result_term() in list(subterms(w.args[1]))]
            okall = len(nx) == 1
            if okall:
                msi = b.switch_info(nx[0].target)
                okall = bool(msi) and b.all_paths_pass([t for v_, t in msi[1] if v_ == 1][0], [w.bb], dst_set={nx[0].bb})
            ctx.ob(rid, "write@%s#%d|every-element" % (hname, i), okall, "every element of the iterated container must be hashed: no path through the loop body may skip the write", site=w.span)
            if kind == "vec":
                for pi, p in enumerate(pushes_into(b, peel(e[0]))):
                    pnx = [c for c in b.calls_to("Iterator::next") if c.result_term() in list(subterms(p.args[1]))]
                    if not pnx:
                        okp = b.dominates(p.bb, w.bb)
                    else:
                        psi = b.switch_info(pnx[0].target)
                        okp = len(pnx) == 1 and bool(psi) and b.all_paths_pass([t for v_, t in psi[1] if v_ == 1][0], [p.bb], dst_set={pnx[0].bb})
                    ctx.ob(rid, "write@%s#%d|push#%d|every-element" % (hname, i, pi), okp, "every value must be pushed into the hashed Vec: unconditionally, and for every element of the name set", site=p.span)
            ctx.ob(rid, "write@%s#%d|ordered" % (hname, i), ok, "the hasher must iterate an ordered container without reordering adapters (found %s over %s)" % (e[1], kind), site=w.span)


def rule_R3(ctx, f, b):
    rid = "R3"
    ctx.rule(rid, "required / forbidden sources: id = hash(fq_name, const label VALUES in name order); dim_hash = hash(help, const NAMES and '$'-prefixed variable names); "
                  "id and dim_hash are assigned only from the finish() of the respective hasher")
    idh, dimh = classify_hashers(ctx, rid, b)
    ctx.ob(rid, "id-hasher", idh is not None, "desc.id must be assigned from a hasher's finish()", site=b.raw["span"]["at"])
    ctx.ob(rid, "dim-hasher", dimh is not None, "desc.dim_hash must be assigned from a hasher's finish()", site=b.raw["span"]["at"])
    ctx.ob(rid, "id|single-assignment", len(field_assigned_from(b, "id")) == 1 and len(field_assigned_from(b, "dim_hash")) == 1 and (idh is None or dimh is None or idh[0] != dimh[0]),
           "id and dim_hash are each assigned once, from two different hashers", site=b.raw["span"]["at"])
    if not idh or not dimh:
        return
    # the set of label names
    nameset = None
    for c in b.calls_to("BTreeSet::insert"):
        nameset = peel(c.args[0])

    def sources(ws):
        src = set()
        for w in ws:
            v = peel(w.args[1], transparent=BYTES_T)
            e = elem_of(v)
            if e is None:
                pv = peel(v)
                if pv == P(1):
                    src.add("fq_name")
                elif pv == P(2):
                    src.add("help")
                else:
                    src.add("?" + show(pv))
                continue
            cont = peel(e[0])
            if cont == nameset:
                src.add("label-names-set")
            elif ordered_container(b, cont) == "vec":
                for p in pushes_into(b, cont):
                    pv = peel(p.args[1], transparent=["Option::unwrap", "Option::cloned", "Clone::clone", "Option::expect"])
                    if pv == P(1):
                        src.add("fq_name")
                    elif pv == P(2):
                        src.add("help")
                    elif is_call(pv, "HashMap::get") and peel(pv[2][0]) == P(4):
                        k = elem_of(peel(pv[2][1]))
                        if k and peel(k[0]) == nameset:
                            src.add("const-values-in-name-order")
                        else:
                            src.add("const-values-unordered")
                    else:
                        ee = elem_of(pv)
                        if ee and peel(ee[0]) == P(3):
                            src.add("variable-labels")
                        elif ee and peel(ee[0]) == P(4):
                            src.add("const-labels-iter:" + ",".join(ee[2]))
                        else:
                            src.add("?" + show(pv))
            elif cont == P(3):
                src.add("variable-labels")
            else:
                src.add("?" + show(cont))
        return src
    ids = sources(idh[1])
    dims = sources(dimh[1])
    ctx.ob(rid, "id|sources", ids == {"fq_name", "const-values-in-name-order"},
           "the id must hash exactly the fully-qualified name and the const label values taken in label-name order (found %s)" % sorted(ids), site=idh[2].span)
    ctx.ob(rid, "dim|sources", dims == {"help", "label-names-set"}, "the dim hash must hash exactly the help text and the sorted label-name set (found %s)" % sorted(dims), site=dimh[2].span)
    # what the name set holds: raw const names (keys of param4) and '$'+variable names (elements of param3 / desc.variable_labels)
    kinds = set()
    for c in b.calls_to("BTreeSet::insert"):
        v = c.args[1]
        pv = peel(v)
        e = elem_of(pv)
        if e and peel(e[0]) == P(4) and e[1] and "keys" in e[1]:
            kinds.add("const-name")
            continue
        fm = [s for s in subterms(v) if isinstance(s, tuple) and s and s[0] == "const" and s[1] and s[1].startswith('b"')]
        disp = [s for s in subterms(v) if isinstance(s, tuple) and s and s[0] == "call" and is_call(s, "Argument::new_display")]
        if fm and disp:
            ee = elem_of(peel(disp[0][2][0]))
            if ee and peel(ee[0]) in (P(3),) and fm[0][1] == 'b"\\x01$\\xc0\\x00"':
                kinds.add("$variable-name")
                continue
            kinds.add("?fmt" + fm[0][1])
            continue
        kinds.add("?" + show(v))
    ctx.ob(rid, "dim|name-set-content", kinds == {"const-name", "$variable-name"},
           "the label-name set must hold the raw const label names and the variable label names prefixed with '$' (so a const/variable mix cannot alias) — found %s" % sorted(kinds),
           site=b.raw["span"]["at"])
    # all const names / variable names are inserted (loops over the whole collections)
    ctx.floor(rid, "BTreeSet::insert sites", len(b.calls_to("BTreeSet::insert")), 2)


def rule_R4(ctx, f):
    rid = "R4"
    ctx.rule(rid, "Describer for Opts passes (fq_name(), help, variable_labels, const_labels) positionally to Desc::new; HistogramOpts delegates to it; "
                  "fq_name() is build_fq_name(namespace, subsystem, name)")
    b = ctx.anchor(rid, "Opts::describe", f.body("<prometheus::metrics::Opts as prometheus::desc::Describer>::describe"))
    if b:
        ctx.saw(b)
        cs = b.calls_to("Desc::new")
        ok = len(cs) == 1
        if ok:
            a = cs[0].args
            sf = lambda n: ("field", ("deref", P(1)), n)  # noqa: E731
            ok = is_call(peel(a[0], transparent=[]), "Opts::fq_name") and peel(peel(a[0], transparent=[])[2][0]) == P(1) and peel(a[1]) == sf("help") and peel(a[2]) == sf("variable_labels") and peel(a[3]) == sf("const_labels")
            ok = ok and b.term_local(0) == cs[0].result_term()
        ctx.ob(rid, "Opts::describe|args", ok, "Opts::describe must be Desc::new(self.fq_name(), self.help, self.variable_labels, self.const_labels)", site=b.raw["span"]["at"])
    h = ctx.anchor(rid, "HistogramOpts::describe", f.body("<prometheus::histogram::HistogramOpts as prometheus::desc::Describer>::describe"))
    if h:
        ctx.saw(h)
        cs = h.calls_to("Describer::describe")
        ok = len(cs) == 1 and peel(cs[0].args[0]) == ("field", ("deref", P(1)), "common_opts") and h.term_local(0) == cs[0].result_term()
        ctx.ob(rid, "HistogramOpts::describe|delegates", ok, "HistogramOpts::describe must delegate to its common_opts", site=h.raw["span"]["at"])
    q = ctx.anchor(rid, "Opts::fq_name", f.body("prometheus::metrics::Opts::fq_name"))
    if q:
        ctx.saw(q)
        cs = q.calls_to("build_fq_name")
        ok = len(cs) == 1
        if ok:
            sf = lambda n: ("field", ("deref", P(1)), n)  # noqa: E731
            ok = [peel(x) for x in cs[0].args] == [sf("namespace"), sf("subsystem"), sf("name")] and q.term_local(0) == cs[0].result_term()
        ctx.ob(rid, "Opts::fq_name|args", ok, "fq_name() must be build_fq_name(namespace, subsystem, name)", site=q.raw["span"]["at"])


def run(ctx):
    f = ctx.facts("default")
    b = ctx.anchor("R1", "Desc::new", f.body(D))
    if b:
        ctx.saw(b)
        ctx.run_rule("R1", rule_R1, f, b)
        ctx.run_rule("R2", rule_R2, f, b)
        ctx.run_rule("R3", rule_R3, f, b)
    ctx.run_rule("R4", rule_R4, f)
    ctx.run_rule("R2", lambda c: controls.control_unordered(c, "R2"))
    if ctx.tier == "thorough":
        g = ctx.facts("plain")
        gb = g.body(D)
        if gb:
            ctx.run_rule("R1@plain", lambda c: hc.rule_separators(c, g, gb, "R1@plain", "Desc::new"))
            ctx.run_rule("R3@plain", lambda c: rule_R3(c, g, gb))
