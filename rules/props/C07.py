"""C07 — gather() is complete, canonically ordered and deterministic (DESIGN §4.C07)."""
from pvrules.mir import is_call, peel, show, strip_generics, subterms
from pvrules.rules import const_int, SELF_FIELD, count_range, elem_of
from . import unordered as un
from . import vec_common as vc
from . import controls

LEVEL = "other"
EXPLANATION = ("Static MIR rules: every iteration over a hash container in the crate is enumerated and classified from what the loop / iterator chain "
               "does with the elements — order-insensitive, sanitised by a sort before the data escapes, or deferred to gather's own sort (R1); gather "
               "sorts every family's samples by label values after the last merge and emits families from a BTreeMap keyed by name (R2); the merge of "
               "two same-name families keeps the first header, which is order-insensitive only if the types agree (R3, known finding D4 shared with C14); "
               "all collectors and families are visited, empty ones are the only ones skipped, samples are moved not cloned, MetricVecCore::collect emits "
               "one sample per child (R4); prefix and common labels are applied to every family and sample (R5).")
ASSUMPTIONS = ["std BTreeMap iterates in key order; slice::sort_by is a correct sort", "collectors are this library's metric types (their label pairs are sorted by name: C05.R5)"]
RC = "prometheus::registry::RegistryCore::"
P1, P2 = ("param", 1), ("param", 2)

# site key -> reason (frozen table of deferred sites; everything else must classify as insensitive or sorted)
DEFERRED = {
    "prometheus::vec::MetricVecCore::collect|values#0":
        "the samples of one vector are returned in map order from Collector::collect; gather sorts every family after the last merge (R2)",
}


def rule_R1(ctx, f):
    rid = "R1"
    ctx.rule(rid, "unordered-iteration table: every iteration over a HashMap/HashSet in the crate is order-insensitive (len, insertion into a set/map, "
                  "commutative fold/effect, early Err), or fills a sequence that is sorted before it escapes, or is a frozen deferred site discharged by R2")
    sites = un.enumerate_sites(f, only=lambda b: "process_collector" not in b.path and "::push::" not in b.path)
    ctx.floor(rid, "unordered iteration sites in the crate", len(sites), 6)
    classes = {}
    for s, o in sites:
        key = s.key(o)
        ctx.saw(s.body)
        classes[key] = s.cls
        if s.cls in ("insensitive", "sorted"):
            ctx.ob(rid, key, True, "unordered iteration classified as %s" % s.cls, site=s.call.span)
        elif s.cls == "escapes-unsorted" and key in DEFERRED:
            ctx.ob(rid, key, True, "deferred: " + DEFERRED[key], site=s.call.span)
        else:
            ctx.ob(rid, key, False,
                   "iteration over a hash container whose order reaches an order-sensitive sink without a sort (%s): the result depends on the per-process hash seed — %s" % (s.cls, s.detail),
                   site=s.call.span)
    ctx.extra["unordered_sites"] = classes
    return sites


def _nonempty_family_filter(b, filt):
    """`.filter(|mf| !mf.get_metric().is_empty())`: the pruning of empty families written as an adapter."""
    if not (is_call(filt, "Iterator::filter") and len(filt[2]) == 2):
        return False
    c = filt[2][1]
    cl = b.facts.closure(c[2]) if (isinstance(c, tuple) and c and c[0] == "agg" and c[1] == "closure") else None
    if cl is None:
        return False
    r = cl.term_local(0)
    neg = 0
    while isinstance(r, tuple) and len(r) == 3 and r[0] == "unop" and r[1] == "Not":
        r, neg = r[2], neg + 1
    if neg % 2 != 1 or not is_call(r, ["slice::is_empty", "Vec::is_empty"]):
        return False
    g = peel(r[2][0])
    return is_call(g, ["get_metric"]) and peel(g[2][0]) == ("param", 2) and len(cl.calls()) <= 3


def _merge_loop(b):
    """(outer next call, inner next call) of the merge loops in gather."""
    outer = inner = None
    for c in b.calls_to("Iterator::next"):
        e = elem_of(("field", ("downcast", c.result_term(), "Some"), "0"), filter_ok=lambda t: _nonempty_family_filter(b, t))
        if not e:
            continue
        if e[0] == SELF_FIELD("collectors_by_id"):
            outer = c
        elif is_call(e[0], "Collector::collect"):
            inner = c
    return outer, inner


def rule_R2(ctx, f):
    rid = "R2"
    ctx.rule(rid, "gather sorts every family after the last merge: a loop over all values of the by-name map calls sort_by on mut_metric() of each; it is "
                  "entered only when the merge loop is finished and no sample is pushed afterwards; the comparator compares label values pairwise in position "
                  "order and falls back to the timestamp; families are emitted by BTreeMap::into_values of a map keyed by the family name")
    b = ctx.anchor(rid, "gather", f.body(RC + "gather"))
    if not b:
        return
    ctx.saw(b)
    sorts = [c for c in b.calls_to(un.SORTS) if is_call(peel(c.args[0]), ["mut_metric"])]
    sb = b          # the body that holds the sort call
    in_closure = False
    if not sorts:
        # the samples may be sorted per family inside the closure that emits the families (`into_values().map(|mut mf| { mf.mut_metric().sort_by(..); .. mf })`)
        ret0 = b.term_local(0)
        if is_call(ret0, "Iterator::collect") and is_call(ret0[2][0], "Iterator::map"):
            a0 = ret0[2][0][2][1]
            oc = f.closure(a0[2]) if (a0[0] == "agg" and a0[1] == "closure") else None
            if oc is not None:
                fam_ = ("field", ("param", 2), "1") if oc.local_ty(2).startswith("(") else ("param", 2)
                cs_ = [c for c in oc.calls_to(un.SORTS) if is_call(peel(c.args[0]), ["mut_metric"]) and peel(peel(c.args[0])[2][0]) == fam_]
                if cs_:
                    sorts, sb, in_closure = cs_, oc, True
    ctx.ob(rid, "gather|one-sort", len(sorts) == 1, "gather must sort the samples of each family exactly at one place (found %d sort calls)" % len(sorts), site=b.raw["span"]["at"])
    if len(sorts) != 1:
        return
    s = sorts[0]
    outer, inner = _merge_loop(b)
    bymap = None
    if in_closure:
        # every emitted family passes through the closure: the sort must be on every path through it; the by-name map is what the merge loop files families in
        ok = count_range(sb, [s.bb]) == (1, 1)
        if inner is not None:
            fam_in = ("field", ("downcast", inner.result_term(), "Some"), "0")
            for c in b.calls_to(["BTreeMap::entry", "BTreeMap::insert", "HashMap::entry", "HashMap::insert", "BTreeMap::get_mut", "HashMap::get_mut"]):
                k = peel(c.args[1])
                if is_call(k, ["MetricFamily::name", "get_name"]) and peel(k[2][0]) == fam_in and not [x for x in subterms(c.args[0]) if x == ("param", 1)]:
                    bymap = peel(c.args[0])
        ok = ok and bymap is not None
    else:
        recv = peel(s.args[0], transparent=["DerefMut::deref_mut", "Deref::deref"])
        ok = is_call(recv, ["mut_metric"])
        e = elem_of(peel(recv[2][0])) if ok else None
        if e:
            bymap = e[0]
            ok = e[1] and e[1][-1] in ("values_mut", "iter_mut") and not [a for a in e[1] if a not in ("values_mut", "iter_mut", "into_iter")] and (not e[2] or e[2] == ["1"])
        else:
            ok = False
    ctx.ob(rid, "gather|sort-all-families", ok, "the sort must be applied to mut_metric() of every value of the by-name map (no filter/skip/take) (found %s)" % show(s.args[0]), site=s.span)
    ctx.ob(rid, "gather|merge-loop", outer is not None and inner is not None, "gather must iterate all collectors and all families they return", site=b.raw["span"]["at"])
    if outer is None or inner is None or not ok:
        return
    # sort loop entered only from the exit edge of the outer merge loop
    si = b.switch_info(outer.target)
    exit_t = [t for v, t in si[1] if v == 0][0]
    if in_closure:
        # the closure runs when the emission chain is consumed, which starts after the merge loop (checked with the emission below); nothing is merged in the closure
        merges_in_cl = [c for c in sb.calls() if c.matches(["VacantEntry::insert", "BTreeMap::insert", "HashMap::insert", "Vec::push", "Vec::append", "Vec::extend", "Extend::extend"])
                        and is_call(peel(c.args[0]), ["mut_metric"])]
        ctx.ob(rid, "gather|sort-after-merge", outer.bb not in b.reach(exit_t), "the families must be sorted only after the merge loop has finished", site=s.span)
        ctx.ob(rid, "gather|no-merge-after-sort", not merges_in_cl, "no sample or family may be added after the sort", site=s.span)
        ctx.ob(rid, "gather|sort-on-every-path", count_range(sb, [s.bb]) == (1, 1), "every emitted family must be sorted", site=s.span)
    else:
        ctx.ob(rid, "gather|sort-after-merge", b.dominates(exit_t, s.bb) and outer.bb not in b.reach(exit_t),
               "the sort loop must start only after the merge loop has finished", site=s.span)
        pushes_after = [c for c in b.calls() if c.matches(["Vec::push", "Vec::extend", "Vec::append", "Vec::insert", "VacantEntry::insert", "BTreeMap::insert", "HashMap::insert"]) and c.bb in b.reach(exit_t)
                        and not (c.matches(["Vec::push", "Vec::extend", "Vec::append", "Vec::insert"]) and peel(c.args[0]) != bymap and not is_call(peel(c.args[0]), ["mut_metric"]))]
        ctx.ob(rid, "gather|no-merge-after-sort", not pushes_after, "no sample or family may be added after the sort loop", site=s.span)
        # every path from the merge-loop exit to the return passes through the sort loop header (the `next` of the sort loop)
        snext = [c for c in b.calls_to("Iterator::next") if c.bb in b.reach(exit_t)]
        ctx.ob(rid, "gather|sort-on-every-path", bool(snext) and b.all_paths_pass(exit_t, [snext[0].bb]), "every path from the merge to the return must run the sort loop", site=s.span)
    # by-name map is a BTreeMap keyed by the family name, emitted with into_values
    ents = [c for c in b.calls_to(["BTreeMap::entry", "BTreeMap::insert", "HashMap::entry", "HashMap::insert"]) if peel(c.args[0]) == bymap]
    hashed = bool(ents) and ents[0].matches(["HashMap::entry", "HashMap::insert"])
    # a fresh map of this call (a local, possibly a field of a local helper value), never something reached through `self`
    fresh = not [x for x in subterms(bymap) if x == ("param", 1)] and (is_call(bymap, ["BTreeMap::new", "HashMap::new", "HashMap::with_capacity", "Default::default"]) or
                                                                     (isinstance(bymap, tuple) and bymap[0] == "field" and is_call(peel(bymap[1]), ["Default::default", "new"])))
    ok = len(ents) == 1 and fresh
    if ok:
        k = peel(ents[0].args[1])
        ei = elem_of(peel(k[2][0]), filter_ok=lambda t: _nonempty_family_filter(b, t)) if is_call(k, ["MetricFamily::name", "get_name"]) else None
        ok = bool(ei) and is_call(ei[0], "Collector::collect")
    ctx.ob(rid, "gather|by-name-btreemap", ok, "families must be merged in a map keyed by the family's own name (a BTreeMap, or a HashMap whose entries are sorted by name before they are emitted)",
           site=ents[0].span if ents else b.raw["span"]["at"])
    ret = b.term_local(0)
    chain_ok = False
    if not hashed:
        outv = b.calls_to(["BTreeMap::into_values", "BTreeMap::into_iter", "BTreeMap::values"])
        ok = len(outv) == 1 and peel(outv[0].args[0]) == bymap and outv[0].bb in b.reach(exit_t)
        if ok and is_call(ret, "Iterator::collect"):
            t = ret[2][0]
            names = []
            while t[0] == "call" and t != outv[0].result_term():
                names.append(strip_generics(t[1]).split("::")[-1])
                t = t[2][0]
            chain_ok = t == outv[0].result_term() and all(n in ("map", "into_iter") for n in names)
        elif ok:
            # emitted by a loop over the map's values that pushes every one of them, in that order, into the result (R5 `closure|returns-family` checks the push)
            lp = emission_loop(b)
            if lp is not None:
                src = peel(lp[0].args[0], transparent=["IntoIterator::into_iter"])
                chain_ok = src == outv[0].result_term()
    else:
        # HashMap: all (name, family) entries are moved into a Vec, that Vec is sorted by the name component (unique keys: a total order), and emitted in that order
        ok = False
        named = [c for c in b.calls_to("Iterator::collect") if peel(c.args[0], transparent=["IntoIterator::into_iter", "HashMap::into_iter", "HashMap::drain"]) == bymap and c.bb in b.reach(exit_t)]
        if len(named) == 1:
            V = named[0].result_term()
            srt = [c for c in b.calls_to(["slice::sort_by", "slice::sort_unstable_by", "slice::sort_by_key", "slice::sort_unstable_by_key", "slice::sort_by_cached_key"])
                   if peel(c.args[0], transparent=["DerefMut::deref_mut"]) == V]
            if len(srt) == 1 and count_range(b, [srt[0].bb]) == (1, 1) and _sorts_by_first(f, srt[0]):
                ok = True
                if is_call(ret, "Iterator::collect"):
                    t = ret[2][0]
                    names = []
                    while t[0] == "call" and peel(t, transparent=[]) != V and t[2]:
                        names.append(strip_generics(t[1]).split("::")[-1])
                        t = t[2][0]
                    chain_ok = peel(t, transparent=[]) == V and all(n in ("map", "into_iter") for n in names) and b.dominates(srt[0].bb, [c for c in b.calls() if c.result_term() == ret][0].bb)
    ctx.ob(rid, "gather|emit-in-name-order", ok and chain_ok, "the result must be the by-name map's values in key order, transformed only by order-preserving `map` (found %s)" % show(ret), site=b.raw["span"]["at"])
    # comparator
    cl = None
    a = s.args[1]
    PA, PB = ("param", 2), ("param", 3)
    if a[0] == "agg" and a[1] == "closure":
        cl = f.closure(a[2])
    elif a[0] == "fn":
        # a named comparison function: its parameters are m1, m2 themselves
        cl = f.body(a[1]) or f.body(strip_generics(a[1]))
        PA, PB = ("param", 1), ("param", 2)
    ctx.ob(rid, "gather|comparator", cl is not None, "sort_by must take a comparator closure or function of this crate", site=s.span)
    if cl:
        ctx.saw(cl)
        gl = cl.calls_to(["get_label"])
        zips = cl.calls_to("Iterator::zip")
        vals = cl.calls_to(["LabelPair::value", "get_value"])
        cmps = [c for c in cl.calls_to("Ord::cmp")]
        ts = cl.calls_to(["Metric::timestamp_ms", "get_timestamp_ms"])
        ok = len(gl) == 2 and {peel(gl[0].args[0]), peel(gl[1].args[0])} == {PA, PB} and len(zips) == 1
        # the zip pairs the label lists of m1 and m2 in that order
        if ok:
            z = zips[0]
            za = peel(z.args[0], transparent=["slice::iter", "IntoIterator::into_iter", "Deref::deref"])
            zb = peel(z.args[1], transparent=["slice::iter", "IntoIterator::into_iter", "Deref::deref"])
            ok = is_call(za, "get_label") and is_call(zb, "get_label") and peel(za[2][0]) == PA and peel(zb[2][0]) == PB
        # a cmp of value(lp1) with value(lp2)
        valcmp = False
        for c in cmps:
            x, y = peel(c.args[0]), peel(c.args[1])
            if is_call(x, ["LabelPair::value", "get_value"]) and is_call(y, ["LabelPair::value", "get_value"]):
                ex, ey = elem_of(peel(x[2][0])), elem_of(peel(y[2][0]))
                valcmp = bool(ex) and bool(ey) and ex[2] == ["0"] and ey[2] == ["1"] and "zip" in ex[1]
        tscmp = False
        for c in cmps:
            x, y = peel(c.args[0]), peel(c.args[1])
            if is_call(x, ["Metric::timestamp_ms", "get_timestamp_ms"]) and is_call(y, ["Metric::timestamp_ms", "get_timestamp_ms"]):
                tscmp = peel(x[2][0]) == PA and peel(y[2][0]) == PB
        if ok and not valcmp and _value_cmp_find_form(f, cl, zips[0]):
            valcmp = True
            vals = vals + [None, None]
        if not (ok and valcmp and tscmp):
            ch = _comparator_chain(f, cl, PA, PB)
            if ch:
                ok = valcmp = tscmp = True
                vals = vals + [None, None]
        ctx.ob(rid, "comparator|labels-zipped", ok, "the comparator must walk the label lists of both samples pairwise (m1's first)", site=cl.raw["span"]["at"])
        ctx.ob(rid, "comparator|compares-values", valcmp, "the comparator must order by value(lp1).cmp(value(lp2)) of the zipped pair", site=cl.raw["span"]["at"])
        ctx.ob(rid, "comparator|timestamp-fallback", tscmp, "equal label values must fall back to m1.timestamp.cmp(m2.timestamp)", site=cl.raw["span"]["at"])
        # values compared by != before cmp must be the same pair (no early Equal on other data)
        ctx.floor(rid, "LabelPair::value reads in the comparator", len(vals), 2)


def _sorts_by_first(f, c):
    """The sort call orders (name, family) pairs by the name alone: sort_by(|a, b| a.0.cmp(&b.0)) or sort_by_key(|p| p.0 ...)."""
    a = peel(c.args[1], transparent=[])
    cl = f.closure(a[2]) if (isinstance(a, tuple) and a and a[0] == "agg" and a[1] == "closure") else None
    if cl is None:
        return False
    r = peel(cl.term_local(0), transparent=[])
    own = ["Clone::clone", "String::as_str", "Deref::deref", "ToOwned::to_owned", "AsRef::as_ref", "String::clone"]

    def first_of(t, p):
        t = peel(t, transparent=own)
        return t in (("field", ("param", p), "0"), ("field", ("deref", ("param", p)), "0"))
    if c.matches(["slice::sort_by", "slice::sort_unstable_by"]):
        return is_call(r, ["Ord::cmp"]) and first_of(r[2][0], 2) and first_of(r[2][1], 3)
    return first_of(r, 2)


def _value_cmp_find_form(f, cl, z):
    """`zip.map(|(lp1, lp2)| lp1.value().cmp(lp2.value())).find(|o| o.is_ne())` with the found ordering returned: the first difference in position order decides."""
    def closure_of(t):
        t = peel(t, transparent=[])
        return f.closure(t[2]) if (isinstance(t, tuple) and t and t[0] == "agg" and t[1] == "closure") else None
    r0 = cl.term_local(0)
    rets = cl.var_alts(r0[1]) if isinstance(r0, tuple) and r0 and r0[0] == "var" else [r0]
    for c in cl.calls_to("Iterator::find"):
        src = peel(c.args[0], transparent=[])
        if not is_call(src, "Iterator::map") or peel(src[2][0], transparent=[]) != z.result_term():
            continue
        mc, pc = closure_of(src[2][1]), closure_of(c.args[1])
        if mc is None or pc is None:
            continue
        r = peel(mc.term_local(0), transparent=[])
        if not (is_call(r, "Ord::cmp") and len(mc.calls()) == 3):
            continue
        x, y = peel(r[2][0]), peel(r[2][1])
        if not (is_call(x, ["LabelPair::value", "get_value"]) and is_call(y, ["LabelPair::value", "get_value"])
                and peel(x[2][0]) == ("field", ("param", 2), "0") and peel(y[2][0]) == ("field", ("param", 2), "1")):
            continue
        rp = peel(pc.term_local(0), transparent=[])
        isne = is_call(rp, "Ordering::is_ne") and peel(rp[2][0]) in (("param", 2), ("deref", ("param", 2))) and len(pc.calls()) == 1
        if not isne:
            continue
        found = ("field", ("downcast", c.result_term(), "Some"), "0")
        if any(peel(a) == found for a in rets):
            return True
    return False


def _comparator_chain(f, cl, P2_=("param", 2), P3_=("param", 3)):
    """The same order written as `len1.cmp(&len2).then_with(|| values1.cmp(values2)).then_with(|| ts1.cmp(&ts2))` where valuesN =
    get_label(mN).iter().map(|lp| lp.value()): lexicographic on (number of labels, label values in position order, timestamp)."""
    r = peel(cl.term_local(0), transparent=[])
    if not (is_call(r, "Ordering::then_with") and is_call(peel(r[2][0], transparent=[]), "Ordering::then_with")):
        return False
    inner = peel(r[2][0], transparent=[])
    first, c1, c2 = peel(inner[2][0], transparent=[]), inner[2][1], r[2][1]

    def labels_of(t, m):
        t = peel(t, transparent=["slice::iter", "IntoIterator::into_iter", "Deref::deref"])
        return is_call(t, ["get_label"]) and peel(t[2][0]) == m
    # 1. number of labels
    if not (is_call(first, "Ord::cmp") and all(is_call(peel(x), ["slice::len", "Vec::len"]) for x in first[2])
            and labels_of(peel(first[2][0])[2][0], P2_) and labels_of(peel(first[2][1])[2][0], P3_)):
        return False

    def closure_of(t):
        return f.closure(t[2]) if (isinstance(t, tuple) and t and t[0] == "agg" and t[1] == "closure") else None
    k1, k2 = closure_of(c1), closure_of(c2)
    if k1 is None or k2 is None:
        return False

    def cap_index(t):
        t = peel(t)
        while isinstance(t, tuple) and t and t[0] in ("deref", "ref"):
            t = t[1]
        if isinstance(t, tuple) and t and t[0] == "field" and peel(t[1]) == ("param", 1) and str(t[2]).isdigit():
            return int(t[2])
        return None
    # 2. the label values, in position order: Iterator::cmp(values1, values2)
    ic = k1.calls_to("Iterator::cmp")
    caps1 = c1[3]

    def subst(t):
        """the closure's captured variables replaced by what was captured where the closure was made"""
        if isinstance(t, tuple) and len(t) == 3 and t[0] == "field" and str(t[2]).isdigit() and peel(t[1]) == ("param", 1) and int(t[2]) < len(caps1):
            return caps1[int(t[2])]
        if isinstance(t, tuple):
            return tuple(subst(u) if isinstance(u, tuple) else u for u in t)
        return t
    if len(ic) != 1:
        return False
    if len(k1.calls()) != 1:
        # the two value iterators built inside the closure from captured label lists: `lps1.iter().map(|lp| lp.value()).cmp(lps2.iter().map(|lp| lp.value()))`
        if not all(c_.matches(["Iterator::cmp", "Iterator::map", "slice::iter", "IntoIterator::into_iter", "Deref::deref"]) for c_ in k1.calls()):
            return False

    def values_of(t, m):
        t = peel(t, transparent=[])
        if not is_call(t, "Iterator::map"):
            return False
        vc = closure_of(t[2][1])
        if vc is None or not labels_of(t[2][0], m):
            return False
        rr = peel(vc.term_local(0), transparent=[])
        return is_call(rr, ["LabelPair::value", "get_value"]) and peel(rr[2][0]) == ("param", 2) and len(vc.calls()) == 1
    ia, ib = cap_index(ic[0].args[0]), cap_index(ic[0].args[1])
    if ia is not None and ib is not None and max(ia, ib) < len(caps1):
        va, vb = caps1[ia], caps1[ib]
    else:
        va, vb = subst(ic[0].args[0]), subst(ic[0].args[1])
    if not (values_of(va, P2_) and values_of(vb, P3_)):
        return False
    # 3. the timestamps
    oc = k2.calls_to("Ord::cmp")
    ts_ = k2.calls_to(["Metric::timestamp_ms", "get_timestamp_ms"])
    if len(oc) != 1 or len(ts_) != 2:
        return False
    x, y = peel(oc[0].args[0]), peel(oc[0].args[1])
    if not (is_call(x, ["Metric::timestamp_ms", "get_timestamp_ms"]) and is_call(y, ["Metric::timestamp_ms", "get_timestamp_ms"])):
        return False
    xa, ya = cap_index(x[2][0]), cap_index(y[2][0])
    caps2 = c2[3]
    return xa is not None and ya is not None and max(xa, ya) < len(caps2) and peel(caps2[xa]) == P2_ and peel(caps2[ya]) == P3_


def merge_sites(b):
    """Call sites that append samples to the family already stored under the same name: push / extend / append on mut_metric(X) where X comes out
    of the by-name map (OccupiedEntry::get_mut / into_mut, BTreeMap::get_mut)."""
    res = []
    for c in b.calls_to(["Vec::push", "Vec::extend", "Vec::append", "Extend::extend"]):
        r = peel(c.args[0])
        if is_call(r, ["mut_metric"]) and [s_ for s_ in subterms(r[2][0]) if isinstance(s_, tuple) and s_ and s_[0] == "call" and is_call(s_, ["OccupiedEntry::get_mut", "OccupiedEntry::into_mut", "BTreeMap::get_mut", "HashMap::get_mut"])]:
            res.append(c)
    return res


def rule_R3(ctx, f, rid="R3", prop_text=None):
    """Shared with C14.R1: merging same-name families needs a type comparison (or types must be part of admission)."""
    ctx.rule(rid, "first-wins merge is order-insensitive only if headers agree: the edge that appends the samples of a family to an existing same-name "
                  "family must be guarded by a comparison of the two families' types (help is equal by admission: dim hash), or the metric type must be "
                  "part of what register compares")
    b = ctx.anchor(rid, "gather", f.body(RC + "gather"))
    if not b:
        return
    pushes = merge_sites(b)
    ctx.ob(rid, "gather|merge-site", len(pushes) == 1, "exactly one site appends samples to an existing family (found %d)" % len(pushes), site=b.raw["span"]["at"])
    if len(pushes) != 1:
        return
    p = pushes[0]
    # a comparison of field types dominating the push, with the unequal edge avoiding it
    guarded = False
    for bi in b.reachable_blocks():
        be = b.bool_edges(bi)
        if not be or not b.dominates(bi, p.bb):
            continue
        cond = be[0]
        ts = [s for s in subterms(cond) if isinstance(s, tuple) and s and s[0] == "call" and is_call(s, ["get_field_type", "MetricFamily::type_", "field_type"])]
        if len(ts) >= 2:
            guarded = True
    # or admission compares the type: Desc carries a type that feeds dim_hash / a type table in register
    admission = False
    desc = f.adt("prometheus::desc::Desc")
    if desc and any("MetricType" in x["ty"] or x["name"] in ("metric_type", "kind") for x in desc["variants"][0]["fields"]):
        admission = True
    rc = f.adt("prometheus::registry::RegistryCore")
    if rc and any("MetricType" in x["ty"] for x in rc["variants"][0]["fields"]):
        admission = True
    ctx.ob(rid, "gather|merge-type-check", guarded or admission,
           prop_text or ("samples of a second same-name family are appended to the first one without comparing the families' types and admission does not "
                         "compare types either: a Counter x{k=\"1\"} and a Gauge x{k=\"2\"} both register, and the gathered family's declared type is "
                         "whichever collector the hash map yields first"), site=p.span)


def rule_R4(ctx, f):
    rid = "R4"
    ctx.rule(rid, "completeness / exactly-once: the merge visits all collectors (values of collectors_by_id, no adapter) and all families each returns; "
                  "the only way a family is dropped is the `get_metric().is_empty()` edge; a new name inserts the whole family, an existing name receives "
                  "every sample moved out of the family (take_metric -> push), nothing is cloned; MetricVecCore::collect emits one sample per child")
    b = f.body(RC + "gather")
    if not b:
        return
    outer, inner = _merge_loop(b)
    if outer is None or inner is None:
        ctx.ob(rid, "gather|loops", False, "merge loops not recognised", site=b.raw["span"]["at"])
        return
    eo = elem_of(("field", ("downcast", outer.result_term(), "Some"), "0"))
    ei = elem_of(("field", ("downcast", inner.result_term(), "Some"), "0"), filter_ok=lambda t: _nonempty_family_filter(b, t))
    ctx.ob(rid, "gather|all-collectors", eo[1] in (["into_iter", "values"], ["values"]), "all collectors must be visited: plain values() of collectors_by_id (found adapters %s)" % eo[1], site=outer.span)
    ctx.ob(rid, "gather|all-families", [a for a in ei[1] if a not in ("into_iter", "filter")] == [], "all families returned by a collector must be visited (found adapters %s)" % ei[1], site=inner.span)
    cc = b.calls_to("Collector::collect")
    ctx.ob(rid, "gather|collect-once-per-collector", len(cc) == 1 and count_range(b, [cc[0].bb])[0] >= 0 and b.dominates(cc[0].bb, inner.bb), "each collector is collected exactly once per gather", site=cc[0].span if cc else None)
    si = b.switch_info(inner.target)
    body_entry = [t for v, t in si[1] if v == 1][0]
    # the lookup of the family's name in the by-name map: entry(name) or get_mut(name)
    ents = [c for c in b.calls_to(["BTreeMap::entry", "BTreeMap::get_mut", "HashMap::entry", "HashMap::get_mut"]) if c.bb in b.reach(body_entry, avoid_blocks=[inner.bb])
            and peel(c.args[0]) != ("field", ("deref", ("param", 1)), "collectors_by_id")]
    skip_edges = []
    for bi in b.reach(body_entry):
        be = b.bool_edges(bi)
        if be and is_call(be[0], ["slice::is_empty", "Vec::is_empty"]):
            g = peel(be[0][2][0])
            if is_call(g, ["get_metric"]):
                skip_edges.append((bi, be[1]))
    ok = len(ents) == 1
    if ok:
        # without the is_empty edge every path from the loop body back to the header passes the lookup
        # (path-sensitive: a predicate that is the constant `true` in this caller, e.g. `gather_with(|_| true)`, skips nothing)
        r = b.reach_ps(body_entry, avoid_blocks=[ents[0].bb], avoid_edges=set(skip_edges))
        ok = inner.bb not in r
    ctx.ob(rid, "gather|only-empty-skipped", ok and len(skip_edges) + ei[1].count("filter") == 1, "a family may bypass the merge only on the `get_metric().is_empty()` edge", site=inner.span)
    fam = ("field", ("downcast", inner.result_term(), "Some"), "0")
    # new name: the whole family is inserted (VacantEntry::insert(fam) or map.insert(name_of(fam), fam))
    vi = b.calls_to("VacantEntry::insert")
    okv = len(vi) == 1 and peel(vi[0].args[1]) == fam
    if not vi:
        bi_ = [c for c in b.calls_to(["BTreeMap::insert", "HashMap::insert"]) if c.bb in b.reach(body_entry, avoid_blocks=[inner.bb])]
        okv = len(bi_) == 1 and peel(bi_[0].args[2]) == fam and (lambda k: is_call(k, ["MetricFamily::name", "get_name"]) and peel(k[2][0]) == fam)(
            peel(bi_[0].args[1], transparent=["ToOwned::to_owned", "str::to_owned", "ToString::to_string", "String::from", "Into::into", "Deref::deref"]))
        vi = bi_
    ctx.ob(rid, "gather|vacant-inserts-family", okv, "a new name must insert the family itself (under its own name)", site=vi[0].span if vi else None)
    # existing name: every sample moved out of the family and appended: push loop over take_metric(fam), or append/extend of take_metric(fam)
    pushes = merge_sites(b)
    ok = len(pushes) == 1
    moved_whole = False
    if ok and not pushes[0].matches("Vec::push"):
        src = peel(pushes[0].args[1], transparent=["IntoIterator::into_iter"])
        moved_whole = is_call(src, ["take_metric"]) and peel(src[2][0]) == fam
        ok = moved_whole
    elif ok:
        ep = elem_of(peel(pushes[0].args[1]))
        ok = bool(ep) and is_call(ep[0], ["take_metric"]) and peel(ep[0][2][0]) == fam and [a for a in ep[1] if a != "into_iter"] == []
    if ok and ents:
        # the arm for an existing name is the one from which the append is reached; it must reach it on every path (no `continue` for a family the registry does not like)
        sw = [bi for bi in b.reach(ents[0].bb, avoid_blocks=[inner.bb]) if (lambda si_: si_ and si_[0][0] == "discr" and peel(si_[0][1], transparent=[]) == ents[0].result_term())(b.switch_info(bi))]
        ok = len(sw) == 1
        if ok:
            si_ = b.switch_info(sw[0])
            arms_ = [t for v, t in si_[1]] + ([si_[2]] if b.blocks[si_[2]]["term"]["k"] != "unreachable" else [])
            occ = [t for t in arms_ if pushes[0].bb in b.reach(t, avoid_blocks=[inner.bb]) or t == pushes[0].bb]
            ok = len(occ) == 1
            if ok and moved_whole:
                ok = b.all_paths_pass(occ[0], [pushes[0].bb], dst_set={inner.bb})
            elif ok:
                mnx = [c for c in b.calls_to("Iterator::next") if (lambda e: e and is_call(e[0], ["take_metric"]))(elem_of(("field", ("downcast", c.result_term(), "Some"), "0")))]
                ok = len(mnx) == 1 and b.all_paths_pass(occ[0], [mnx[0].bb], dst_set={inner.bb})
                if ok:
                    msi = b.switch_info(mnx[0].target)
                    mbody = [t for v, t in msi[1] if v == 1][0]
                    ok = b.all_paths_pass(mbody, [pushes[0].bb], dst_set={mnx[0].bb})
    ctx.ob(rid, "gather|occupied-moves-all-samples", ok, "for an existing name every sample of take_metric() must be appended, unconditionally (no filter, no de-duplication, no clone)", site=pushes[0].span if pushes else None)
    loop_blocks = b.reach(body_entry, avoid_blocks=[outer.bb])
    clones = [c for c in b.calls_to("Clone::clone") if c.bb in loop_blocks and ("Metric" in c.callee_args)]
    ctx.ob(rid, "gather|no-clone", not clones, "samples and families are moved, never cloned, in the merge loop", site=clones[0].span if clones else None)
    vc.rule_single_critical_section(ctx, f, rid)


class RegionView:
    """A body restricted to a set of blocks (the body of one loop): calls / calls_to / reachable_blocks see only the region, everything else is the body's."""
    def __init__(self, body, region):
        self._b, self._r = body, set(region)

    def __getattr__(self, name):
        return getattr(self._b, name)

    def calls(self):
        return [c for c in self._b.calls() if c.bb in self._r]

    def calls_to(self, names):
        return [c for c in self._b.calls_to(names) if c.bb in self._r]

    def reachable_blocks(self):
        return set(self._r)


def emission_loop(b):
    """The families emitted by a `for` loop instead of a map closure: `let mut out = Vec::..; for mut m in <by-name map>.into_values() { ..decorate m..; out.push(m) } out`.
    Returns (next call, family element term, loop body blocks, the push, result vec term) or None."""
    ret = peel(b.term_local(0))
    for pu in b.calls_to("Vec::push"):
        if peel(pu.args[0]) != ret:
            continue
        fam = peel(pu.args[1])
        if not (isinstance(fam, tuple) and len(fam) == 3 and fam[0] == "field" and isinstance(fam[1], tuple) and fam[1][0] == "downcast" and fam[1][2] == "Some"):
            # a (name, family) pair's second half
            if isinstance(fam, tuple) and len(fam) == 3 and fam[0] == "field" and str(fam[2]) == "1":
                inner_ = fam[1]
            else:
                continue
        else:
            inner_ = fam
        nx_t = peel(inner_[1][1], transparent=[]) if (isinstance(inner_, tuple) and len(inner_) == 3 and isinstance(inner_[1], tuple) and len(inner_[1]) == 3) else None
        if not is_call(nx_t, "Iterator::next"):
            continue
        nx = [c for c in b.calls_to("Iterator::next") if c.bb == nx_t[3]]
        if not nx:
            continue
        si = b.switch_info(nx[0].target)
        some = [t for v, t in si[1] if v == 1] if si else []
        if not some:
            continue
        region = b.reach(some[0], avoid_blocks=[nx[0].bb])
        # the loop body ends at the next iteration: blocks only reachable through the loop exit are not part of it
        ex = [t for v, t in si[1] if v == 0]
        if ex:
            region -= (b.reach(ex[0], avoid_blocks=[nx[0].bb]) - b.reach(some[0], avoid_blocks=[nx[0].bb, ex[0]]))
        return nx[0], fam, region, pu, ret
    return None


def rule_R5(ctx, f):
    rid = "R5"
    ctx.rule(rid, "prefix and common labels reach every family and sample: the output closure has no filter; with a prefix the name becomes "
                  "format(\"{}_{}\", prefix, name) for every family; with common labels the sorted pairs are appended to the labels of every sample")
    b = f.body(RC + "gather")
    if not b:
        return
    ret = b.term_local(0)
    cl = None
    if is_call(ret, "Iterator::collect") and is_call(ret[2][0], "Iterator::map"):
        a = ret[2][0][2][1]
        if a[0] == "agg" and a[1] == "closure":
            cl = f.closure(a[2])
    loop = emission_loop(b) if cl is None else None
    ctx.ob(rid, "gather|output-closure", cl is not None or loop is not None, "the emitted families must go through one map closure (or one loop that pushes every family into the result)", site=b.raw["span"]["at"])
    if not cl and not loop:
        return
    if cl:
        ctx.saw(cl)
        # the closure receives the family itself, or a (name, family) pair when the by-name map's entries were sorted in a Vec
        fam = ("field", ("param", 2), "1") if cl.local_ty(2).startswith("(") else ("param", 2)
        caps = a[3]
    else:
        nx_l, fam, region_l, push_l, out_l = loop
        cl = RegionView(b, region_l)
        caps = ()

    def outer_terms(t):
        """Subterms of t plus, for every captured variable mentioned in t, the subterms of the term captured in gather's own body."""
        out = []
        seen0 = set()
        todo0 = [t]
        while todo0:
            t0 = todo0.pop()
            for s_ in subterms(t0):
                out.append(s_)
                # a local with several definitions (e.g. `match self.labels { Some(..) => pairs, None => Vec::new() }`)
                if isinstance(s_, tuple) and len(s_) == 2 and s_[0] == "var" and s_[1] not in seen0 and len(seen0) < 40:
                    seen0.add(s_[1])
                    todo0.extend(cl.var_alts(s_[1]))
        for s_ in list(out):
            if isinstance(s_, tuple) and len(s_) == 3 and s_[0] == "field" and str(s_[2]).isdigit() and peel(s_[1]) == ("param", 1) and int(s_[2]) < len(caps):
                todo, seen = [caps[int(s_[2])]], set()
                while todo:
                    u = todo.pop()
                    for w in subterms(u):
                        out.append(w)
                        # a local of gather with several definitions (e.g. the result of an inlined helper with two returns)
                        if isinstance(w, tuple) and len(w) == 2 and w[0] == "var" and w[1] not in seen and len(seen) < 40:
                            seen.add(w[1])
                            todo.extend(b.var_alts(w[1]))
        return out

    def mentions(t, fld):
        return any(isinstance(s_, tuple) and len(s_) == 3 and s_[0] == "field" and s_[2] == fld for s_ in outer_terms(t))
    # prefix
    sn = [c for c in cl.calls_to(["MetricFamily::set_name", "set_name"]) if peel(c.args[0]) == fam]
    ok = len(sn) == 1 and peel(sn[0].args[0]) == fam
    fmt_ok = False
    if ok:
        v = sn[0].args[1]
        consts = [s for s in subterms(v) if isinstance(s, tuple) and s and s[0] == "const" and s[1] and s[1].startswith("b\"")]
        names = [s for s in subterms(v) if isinstance(s, tuple) and s and s[0] == "call" and is_call(s, ["MetricFamily::name", "get_name"])]
        pref = mentions(v, "prefix")     # (also when the prefix was bound to a local of gather first and captured)
        fmt_ok = bool(consts) and consts[0][1] == 'b"\\xc0\\x01_\\xc0\\x00"' and len(names) == 1 and peel(names[0][2][0]) == fam and bool(pref)
        # display arguments in order (prefix, name)
        nd = [c for c in cl.calls_to("Argument::new_display")]
        if fmt_ok and len(nd) == 2:
            fmt_ok = mentions(nd[0].args[0], "prefix")
        if not fmt_ok:
            # the same string assembled by hand: String::with_capacity(..); push_str(prefix); push('_'); push_str(name)
            S = peel(v)
            parts = [c for c in cl.calls_to(["String::push_str", "String::push"]) if peel(c.args[0]) == S]
            others = [c for c in cl.calls() if c.args and peel(c.args[0]) == S and c.matches(["String::insert", "String::insert_str", "String::clear", "String::truncate", "String::pop",
                                                                                                 "String::remove", "String::retain", "String::extend", "String::replace_range"])]
            if is_call(S, ["String::with_capacity", "String::new"]) and len(parts) == 3 and not others:
                parts.sort(key=lambda c: len([d for d in parts if cl.dominates(d.bb, c.bb)]))
                p0, p1, p2 = parts
                sep = peel(p1.args[1])
                sep_ok = (p1.matches("String::push") and isinstance(sep, tuple) and sep[0] == "const" and const_int(sep) == 0x5F) or \
                         (p1.matches("String::push_str") and isinstance(sep, tuple) and sep[0] == "const" and sep[1] == '"_"')
                nm = peel(p2.args[1])
                fmt_ok = p0.matches("String::push_str") and mentions(p0.args[1], "prefix") and sep_ok and p2.matches("String::push_str") and \
                    is_call(nm, ["MetricFamily::name", "get_name"]) and peel(nm[2][0]) == fam and \
                    cl.dominates(p0.bb, p1.bb) and cl.dominates(p1.bb, p2.bb) and cl.dominates(p2.bb, sn[0].bb) and \
                    all(cl.all_paths_pass(p0.bb, [x.bb]) for x in (p1, p2, sn[0]))
    ctx.ob(rid, "prefix|format", ok and fmt_ok, "with a prefix every family must be renamed to \"{prefix}_{name}\" (prefix first, '_' separator)", site=sn[0].span if sn else cl.raw["span"]["at"])
    if sn:
        # set_name is guarded only by `prefix is Some`
        guards = []
        for bi in cl.reachable_blocks():
            si = cl.switch_info(bi)
            if si and cl.dominates(bi, sn[0].bb) and bi != sn[0].bb:
                guards.append(si[0])
        ok = all(g[0] == "discr" and mentions(g, "prefix") for g in guards) and len(guards) == 1
        ctx.ob(rid, "prefix|unconditional", ok, "the renaming may depend only on whether the registry has a prefix (found guards %s)" % [show(g) for g in guards], site=sn[0].span)
    # labels
    sl = cl.calls_to(["set_label"])
    ap = cl.calls_to(["Vec::append", "Vec::extend", "Vec::extend_from_slice", "Extend::extend"])
    tl = cl.calls_to(["take_label", "mut_label"])
    ok = len(sl) == 1 and len(ap) == 1 and len(tl) == 1
    if ok:
        em = elem_of(peel(sl[0].args[0]))
        okm = bool(em) and is_call(em[0], ["mut_metric"]) and peel(em[0][2][0]) == fam and not [a for a in em[1] if a not in ("iter_mut", "into_iter")]
        same = peel(tl[0].args[0]) == peel(sl[0].args[0]) and peel(ap[0].args[0]) == tl[0].result_term() and peel(sl[0].args[1]) == tl[0].result_term()
        pairs = peel(ap[0].args[1])
        src = un.enumerate_sites(f, only=lambda bb: bb.path == cl.path)
        from_common = mentions(pairs, "labels")
        ok = okm and same and from_common
    ctx.ob(rid, "labels|appended-to-every-sample", ok, "with common labels, every sample of every family must get its own labels followed by all common pairs", site=sl[0].span if sl else cl.raw["span"]["at"])
    if sl:
        guards = []
        for bi in cl.reachable_blocks():
            si = cl.switch_info(bi)
            if si and cl.dominates(bi, sl[0].bb) and si[0][0] == "discr" and not is_call(peel(si[0][1], transparent=[]), "Iterator::next"):
                guards.append(si[0])
            elif si and cl.dominates(bi, sl[0].bb) and bi != sl[0].bb and si[3] == "bool":
                guards.append(si[0])
        ok = all(mentions(g, "labels") or mentions(g, "prefix") for g in guards)
        ctx.ob(rid, "labels|unconditional", ok, "the label append may depend only on whether the registry has common labels", site=sl[0].span)
    # the closure returns the family it received
    if loop:
        si_l = b.switch_info(nx_l.target)
        entry_l = [t for v, t in si_l[1] if v == 1][0]
        pushes_l = [c for c in b.calls_to(["Vec::push", "Vec::insert", "Vec::extend", "Vec::append", "Vec::pop", "Vec::remove", "Vec::clear", "Vec::truncate", "Vec::retain", "Vec::swap_remove"])
                    if peel(c.args[0]) == out_l]
        okr = len(pushes_l) == 1 and pushes_l[0] is push_l or (len(pushes_l) == 1 and pushes_l[0].bb == push_l.bb)
        okr = okr and b.all_paths_pass(entry_l, [push_l.bb], dst_set={nx_l.bb}) and is_call(out_l, ["Vec::with_capacity", "Vec::new"])
        ctx.ob(rid, "closure|returns-family", okr, "every family of the by-name map must be pushed into the result exactly once, and nothing else", site=push_l.span)
    else:
        r = cl.term_local(0)
        ctx.ob(rid, "closure|returns-family", peel(r) == fam, "the output closure must return the (modified) family itself (found %s)" % show(r), site=cl.raw["span"]["at"])
    # pair construction closure: name <- key, value <- value
    npair = 0
    cands = f.closures_of(cl)
    from pvrules.rules import field_sets
    if not [c2 for c2 in cands if field_sets(c2, "LabelPair", "name", ["LabelPair::set_name"])]:
        # the pairs may be built once outside the per-family closure (in gather itself or in a helper of the registry), or by a `for` loop in this closure
        cands = [bd for bd in f.bodies.values() if "::registry::" in bd.path and "{closure" in bd.path and bd.path != cl.path] + [cl, b]
    T_ = ["ToString::to_string", "Clone::clone", "ToOwned::to_owned", "String::clone", "str::to_owned"]
    for c2 in cands:
        sn2 = [c for c in field_sets(c2, "LabelPair", "name", ["LabelPair::set_name"]) if peel(c.args[0]) != fam]
        sv2 = field_sets(c2, "LabelPair", "value", ["LabelPair::set_value"])
        if not sn2 and not sv2:
            continue
        npair += 1
        ctx.saw(c2)
        ok = len(sn2) == 1 and len(sv2) == 1
        if ok:
            n_, v_ = peel(sn2[0].args[1], transparent=T_), peel(sv2[0].args[1], transparent=T_)
            if n_ == ("field", ("param", 2), "0") and v_ == ("field", ("param", 2), "1"):
                pass        # |(k, v)| of a map over the label map
            else:
                # for (k, v) in hmap.iter(): both from the same iteration over the registry's label map, nothing skipped
                en, ev = elem_of(n_), elem_of(v_)
                ok = bool(en) and bool(ev) and en[0] == ev[0] and en[2] == ["0"] and ev[2] == ["1"] and not [x for x in en[1] if x not in ("iter", "into_iter")] \
                    and (mentions_in(c2, en[0], "labels") or _param_is_label_map(f, c2, en[0]))
                if ok:
                    from . import hash_common as hc_
                    pu = [c for c in c2.calls_to("Vec::push") if peel(c.args[1]) == peel(sn2[0].args[0])]
                    ok = len(pu) == 1 and hc_.every_element(c2, pu[0], via=sn2[0]) is True
        ctx.ob(rid, "labels|pair-from-entry", ok, "a common pair must be (key, value) of the registry's label map entry, for every entry", site=c2.raw["span"]["at"])
    ctx.floor(rid, "places building common label pairs", npair, 1)


def _param_is_label_map(f, c2, t):
    """t is the parameter of closure c2 and c2 is the function of `self.labels.as_ref().map(|hmap| ..)` (or and_then / map_or..): the parameter is the label map."""
    if peel(t) != ("param", 2) or not c2.is_closure:
        return False
    for bd in f.bodies.values():
        if not c2.path.startswith(bd.path + "::") or bd is c2:
            continue
        for c in bd.calls():
            if not c.matches(["Option::map", "Option::and_then", "Option::map_or", "Option::map_or_else", "Option::into_iter", "Option::iter"]):
                continue
            for a in c.args[1:]:
                a0 = peel(a, transparent=[])
                if isinstance(a0, tuple) and a0 and a0[0] == "agg" and a0[1] == "closure" and f.closure(a0[2]) is c2:
                    return mentions_in(bd, c.args[0], "labels")
    return False


def mentions_in(body, t, fld):
    """A field named fld occurs in t (captured variables of a closure body are not followed here: the label map is reached through `self`)."""
    return any(isinstance(s_, tuple) and len(s_) == 3 and s_[0] == "field" and s_[2] == fld for s_ in subterms(t))


def rule_R7(ctx, f):
    rid = "R7"
    ctx.rule(rid, "declared metadata is carried: every collect() of the library's metric types sets the family's name and help from clones of its descriptor's fq_name and help, "
                  "unconditionally, and Desc::new stores the caller's name and help unchanged (shared with C09.R2 `stores-validated`)")
    n = 0
    for k in f.order:
        b = f.bodies[k]
        if "::push::" in b.path or "process_collector" in b.path or "registry" in b.path:
            continue
        if b.path.startswith("<prometheus::proto::") or b.path.startswith("<prometheus::plain_model::") or b.path.startswith("prometheus::proto::") or b.path.startswith("prometheus::plain_model::"):
            continue        # the model's own (derived) Clone / Default
        from pvrules.rules import field_sets
        sn = field_sets(b, "MetricFamily", "name", ["MetricFamily::set_name"])
        sh = field_sets(b, "MetricFamily", "help", ["MetricFamily::set_help"])
        if not sn and not sh:
            continue
        ctx.saw(b)
        n += 1
        key = strip_generics(b.path).replace("prometheus::", "")
        for cs, fld, what in ((sn, "fq_name", "name"), (sh, "help", "help")):
            ok = len(cs) == 1 and count_range(b, [cs[0].bb]) == (1, 1)
            if ok:
                v = cs[0].args[1]
                ok = is_call(v, "Clone::clone") and (lambda t: isinstance(t, tuple) and t[0] == "field" and t[2] == fld and isinstance(t[1], tuple) and t[1][0] in ("field", "deref") and
                                                     (t[1][-1] == "desc" or (t[1][0] == "deref" and isinstance(t[1][1], tuple) and t[1][1][-1] == "desc")))(peel(v))
            ctx.ob(rid, "%s|%s" % (key, what), ok, "%s must set the family's %s to a clone of its descriptor's %s, once, on every path (found %s)" % (key, what, fld, [show(c.args[1])[:80] for c in cs]),
                   site=cs[0].span if cs else b.raw["span"]["at"])
    ctx.floor(rid, "collect bodies that build a family", n, 4)


def run(ctx):
    f = ctx.facts("default")
    ctx.run_rule("R1", rule_R1, f)
    ctx.run_rule("R1", lambda c: controls.control_unordered(c, "R1"))
    ctx.run_rule("R2", rule_R2, f)
    ctx.run_rule("R3", rule_R3, f)
    ctx.run_rule("R4", rule_R4, f)
    ctx.run_rule("R5", rule_R5, f)
    # positional comparison of label values (R2) and "every sample carries its labels" need make_label_pairs to emit every declared label, sorted by name
    from . import C05, C06
    ctx.rule("R6", "every sample carries all its declared labels sorted by name (shared with C05.R5): make_label_pairs pairs variable_labels[i] with label_values[i] for all i, appends all const pairs, sorts")
    ctx.run_rule("R6", lambda c: C06._as(c, "R6", lambda s: C05.rule_R5(s, f)))
    ctx.run_rule("R7", rule_R7, f)
    from . import C09
    ctx.run_rule("R7", lambda c: C06._as(c, "R7", lambda s: C09.rule_R2(s, f), keep=lambda k: "stores-validated" in k))
    if ctx.tier == "thorough":
        for cfgname in ("plain", "nightlyproc"):
            g = ctx.facts(cfgname)
            ctx.run_rule("R1@" + cfgname, lambda c, _f: [c.ob("R1@" + cfgname, s.key(o), s.cls in ("insensitive", "sorted") or s.key(o) in DEFERRED,
                                                              "unordered iteration (%s) %s" % (s.cls, s.detail), site=s.call.span)
                                                         for s, o in un.enumerate_sites(g, only=lambda b: "process_collector" not in b.path and "::push::" not in b.path)], None)
            ctx.run_rule("R2@" + cfgname, lambda c, _f: rule_R2(c, g), None)
