"""Histogram rules shared by C02, C03, C08, C12, C18 (src/histogram.rs)."""
from pvrules.mir import is_call, peel, show, strip_generics, subterms
from pvrules.rules import SELF_FIELD, const_int, count_range, elem_of, ordering_of, ord_ge

H = "prometheus::histogram::"
P = lambda i: ("param", i)  # noqa: E731


def cap(cl_term, t):
    """Resolve a closure-body term that is an upvar `(*_1).k` to the captured term in the parent; else None."""
    t = peel(t)
    if t[0] == "field" and peel(t[1]) == P(1) and str(t[2]).isdigit():
        caps = cl_term[3]
        k = int(t[2])
        if k < len(caps):
            return peel(caps[k])
    return None


def _cmp_case_eval(cl, closure_term, t, value_term, case, depth=0):
    """Truth value of the boolean term t of closure body `cl` (a predicate on one bound b, capturing the observed value v) when v relates to b as `case`:
    'lt' (v < b), 'eq', 'gt', 'un' (v is NaN; stored bounds never are).  None when t is not understood."""
    if depth > 8 or not isinstance(t, tuple) or not t:
        return None
    t = peel(t, transparent=[])

    def side(x):
        x = peel(x)
        cx = cap(closure_term, x)
        if cx is not None and cx == value_term:
            return "v"
        y = x
        while isinstance(y, tuple) and y and y[0] in ("field",) and peel(y[1]) != P(2) and y[1] != P(2):
            y = peel(y[1])
        if y == P(2) or (isinstance(y, tuple) and y and y[0] == "field" and peel(y[1]) == P(2)):
            return "b"
        return None
    TRUE = {"lt": {"Lt", "Le", "Ne"}, "eq": {"Le", "Ge", "Eq"}, "gt": {"Gt", "Ge", "Ne"}, "un": {"Ne"}}
    SWAP = {"Lt": "Gt", "Le": "Ge", "Gt": "Lt", "Ge": "Le", "Eq": "Eq", "Ne": "Ne"}
    if t[0] == "const" and t[1] in ("true", "false"):
        return t[1] == "true"
    if t[0] == "unop" and t[1] == "Not":
        x = _cmp_case_eval(cl, closure_term, t[2], value_term, case, depth + 1)
        return None if x is None else (not x)
    if t[0] == "binop" and t[1] in SWAP:
        a, c_ = side(t[2]), side(t[3])
        if (a, c_) == ("v", "b"):
            return t[1] in TRUE[case]
        if (a, c_) == ("b", "v"):
            return SWAP[t[1]] in TRUE[case]
        return None
    if t[0] == "binop" and t[1] in ("BitAnd", "BitOr"):
        x, y = _cmp_case_eval(cl, closure_term, t[2], value_term, case, depth + 1), _cmp_case_eval(cl, closure_term, t[3], value_term, case, depth + 1)
        if x is None or y is None:
            return None
        return (x and y) if t[1] == "BitAnd" else (x or y)
    if is_call(t, "f64::is_nan") and t[2]:
        sd = side(t[2][0])
        return (case == "un") if sd == "v" else (False if sd == "b" else None)
    if t[0] == "var":
        defs = cl.defs().get(t[1], [])

        def term_of(d):
            return cl.term_rvalue(d[3], (d[1], d[2])) if d[0] == "assign" else cl.term_call(d[1])
        if len(defs) == 1 and defs[0][0] in ("assign", "call"):
            return _cmp_case_eval(cl, closure_term, term_of(defs[0]), value_term, case, depth + 1)
        if len(defs) == 2 and all(d[0] in ("assign", "call") for d in defs):
            d1, d2 = defs
            for bi in cl.reachable_blocks():
                be = cl.bool_edges(bi)
                if not be:
                    continue
                for (x, y) in ((d1, d2), (d2, d1)):
                    if cl.edge_dominates(bi, be[1], x[1]) and cl.edge_dominates(bi, be[2], y[1]):
                        c0 = _cmp_case_eval(cl, closure_term, be[0], value_term, case, depth + 1)
                        if c0 is None:
                            return None
                        return _cmp_case_eval(cl, closure_term, term_of(x if c0 else y), value_term, case, depth + 1)
    return None


class _NoEval(Exception):
    pass


def _cmp_case_run(cl, closure_term, value_term, case):
    """The same question answered by running the predicate's MIR for one case: the observed value v and the bound b are two symbols whose comparisons are decided
    by `case`, everything else (`partial_cmp`, `matches!` on its result, `&&`/`||`, negation) is computed.  No library code is executed: this is an evaluation of
    the closure's blocks over the four-element domain {v<b, v==b, v>b, v NaN}.  None when something is not modelled."""
    import re as _re
    REL = {"lt": -1, "eq": 0, "gt": 1, "un": None}[case]          # ordering of v relative to b

    def cmp(op, x, y):
        if {x, y} != {"V", "B"}:
            raise _NoEval("comparison of %r and %r" % (x, y))
        if REL is None:
            return op == "Ne"
        r = REL if x == "V" else -REL
        return {"Lt": r < 0, "Le": r <= 0, "Gt": r > 0, "Ge": r >= 0, "Eq": r == 0, "Ne": r != 0}[op]

    def load(env, pl):
        if pl["l"] == 1 and pl["p"]:
            # a captured variable: (*_1).k / _1.k
            pr = [q for q in pl["p"] if q[0] != "deref"]
            if len(pr) == 1 and pr[0][0] == "field":
                k = pr[0][1]
                caps = closure_term[3]
                if k < len(caps) and peel(caps[k]) == value_term:
                    return "V"
            raise _NoEval("capture")
        if pl["l"] not in env:
            raise _NoEval("unset local")
        v = env[pl["l"]]
        for q in pl["p"]:
            if q[0] == "deref":
                continue
            if q[0] == "downcast":
                continue
            if q[0] == "field":
                if isinstance(v, tuple) and v[0] == "opt" and v[1] is not None:
                    v = v[1]
                elif isinstance(v, tuple) and v[0] == "tuple":
                    v = v[1][q[1]]
                else:
                    raise _NoEval("field of %r" % (v,))
            else:
                raise _NoEval("projection")
        return v

    def operand(env, op):
        if op["k"] in ("copy", "move"):
            return load(env, op["pl"])
        if op["k"] == "const":
            if op.get("ty") == "bool":
                return op.get("val") == "true"
            if op.get("bits") is not None and op.get("ty") in ("i8", "isize", "u8", "i32", "usize"):
                b_ = int(op["bits"])
                return ("int", b_ - 256 if op.get("ty") == "i8" and b_ > 127 else b_)
            if "Ordering" in (op.get("ty") or ""):
                for nm, k in (("Less", -1), ("Equal", 0), ("Greater", 1)):
                    if nm in (op.get("val") or ""):
                        return ("ord", k)
        raise _NoEval("operand")

    def rvalue(env, rv):
        k = rv["k"]
        if k == "use" or k == "cast":
            return operand(env, rv["ops"][0])
        if k == "ref" or k == "rawptr":
            return load(env, rv["pl"])
        if k == "binop":
            x, y = operand(env, rv["ops"][0]), operand(env, rv["ops"][1])
            if rv["op"] in ("Lt", "Le", "Gt", "Ge", "Eq", "Ne"):
                if isinstance(x, str) or isinstance(y, str):
                    return cmp(rv["op"], x, y)
                if isinstance(x, tuple) and isinstance(y, tuple) and x[0] == y[0] and x[0] in ("int", "ord"):
                    return {"Lt": x[1] < y[1], "Le": x[1] <= y[1], "Gt": x[1] > y[1], "Ge": x[1] >= y[1], "Eq": x[1] == y[1], "Ne": x[1] != y[1]}[rv["op"]]
                if isinstance(x, bool) and isinstance(y, bool) and rv["op"] in ("Eq", "Ne"):
                    return (x == y) == (rv["op"] == "Eq")
            if rv["op"] in ("BitAnd", "BitOr") and isinstance(x, bool) and isinstance(y, bool):
                return (x and y) if rv["op"] == "BitAnd" else (x or y)
            raise _NoEval("binop")
        if k == "unop":
            x = operand(env, rv["ops"][0])
            if rv["op"] == "Not" and isinstance(x, bool):
                return not x
            raise _NoEval("unop")
        if k == "discr":
            v = load(env, rv["pl"])
            if isinstance(v, tuple) and v[0] == "opt":
                return ("int", 0 if v[1] is None else 1)
            if isinstance(v, tuple) and v[0] == "ord":
                return ("int", v[1])
            raise _NoEval("discriminant")
        if k == "agg":
            ops = [operand(env, o) for o in rv["ops"]]
            if rv.get("agg") == "tuple":
                return ("tuple", ops)
            if rv.get("agg") == "adt" and rv["adt"].endswith("option::Option"):
                return ("opt", ops[0] if rv["variant"] == "Some" else None)
            if rv.get("agg") == "adt" and rv["adt"].endswith("cmp::Ordering"):
                return ("ord", {"Less": -1, "Equal": 0, "Greater": 1}[rv["variant"]])
        raise _NoEval("rvalue %s" % k)
    try:
        env = {2: "B"}
        bi, steps = 0, 0
        while True:
            steps += 1
            if steps > 200:
                raise _NoEval("loop")
            bb = cl.blocks[bi]
            for st in bb["stmts"]:
                if st["k"] == "assign":
                    if st["pl"]["p"] and not all(q[0] == "deref" for q in st["pl"]["p"]):
                        raise _NoEval("store to projection")
                    env[st["pl"]["l"]] = rvalue(env, st["rv"])
            t = bb["term"]
            if t["k"] in ("goto", "drop", "assert"):
                bi = t["target"]
            elif t["k"] == "return":
                r = env.get(0)
                return r if isinstance(r, bool) else None
            elif t["k"] == "switch":
                d = operand(env, t["discr"])
                val = (1 if d else 0) if isinstance(d, bool) else (d[1] if isinstance(d, tuple) and d[0] == "int" else None)
                if val is None:
                    raise _NoEval("switch")
                nxt = None
                for a in t["arms"]:
                    av = int(a[0])
                    if av in (val, val & 0xff, val & 0xffffffffffffffff, val & ((1 << 128) - 1)):
                        nxt = a[1]
                bi = nxt if nxt is not None else t["otherwise"]
            elif t["k"] == "call":
                nm = (t.get("callee_args") or t.get("callee") or "")
                args = [operand(env, a) for a in t["args"]]
                m = _re.search(r"Partial(Ord|Eq)(<[^>]*>)?>::(lt|le|gt|ge|eq|ne|partial_cmp)$", nm) or _re.search(r"<impl f64>::(total_cmp)$", nm)
                if m and m.group(m.lastindex) in ("lt", "le", "gt", "ge", "eq", "ne") and len(args) == 2:
                    v = cmp(m.group(3).capitalize(), args[0], args[1])
                elif m and m.group(m.lastindex) == "partial_cmp" and len(args) == 2 and {args[0], args[1]} == {"V", "B"}:
                    v = ("opt", None) if REL is None else ("opt", ("ord", REL if args[0] == "V" else -REL))
                elif _re.search(r"<impl f64>::is_nan$", nm) and len(args) == 1 and args[0] in ("V", "B"):
                    v = (REL is None) if args[0] == "V" else False
                elif _re.search(r"Option::<.*>::(is_some|is_none)$", nm) and isinstance(args[0], tuple) and args[0][0] == "opt":
                    v = (args[0][1] is not None) == nm.endswith("is_some")
                elif _re.search(r"cmp::Ordering::(is_lt|is_le|is_gt|is_ge|is_eq|is_ne)$", nm) and isinstance(args[0], tuple) and args[0][0] == "ord":
                    o_ = args[0][1]
                    v = {"is_lt": o_ < 0, "is_le": o_ <= 0, "is_gt": o_ > 0, "is_ge": o_ >= 0, "is_eq": o_ == 0, "is_ne": o_ != 0}[nm.rsplit("::", 1)[1]]
                else:
                    raise _NoEval("call %s" % nm)
                if t["dest"]["p"] or t.get("target") is None:
                    raise _NoEval("call dest")
                env[t["dest"]["l"]] = v
                bi = t["target"]
            else:
                raise _NoEval("terminator")
    except (_NoEval, KeyError, IndexError, TypeError):
        return None


def _partition_point_scan(f, b, value_term):
    """`bounds.partition_point(|b| !(v <= *b))`: on bounds that are strictly increasing and NaN-free (C08.R1/R2/R7: every stored list passed the gate) the
    index of the first bound with v <= b, found by binary search.  The predicate is evaluated for the four ways v can relate to a bound."""
    for c in b.calls_to(["slice::partition_point"]):
        closure = peel(c.args[1], transparent=[])
        if not (isinstance(closure, tuple) and closure and closure[0] == "agg" and closure[1] == "closure"):
            continue
        cl = f.closure(closure[2])
        if cl is None:
            continue
        bounds = peel(c.args[0], transparent=["Deref::deref", "Vec::as_slice"])
        r = cl.term_local(0)
        vals = {case: _cmp_case_eval(cl, closure, r, value_term, case) for case in ("lt", "eq", "gt", "un")}
        if None in vals.values():
            vals = {case: _cmp_case_run(cl, closure, value_term, case) for case in ("lt", "eq", "gt", "un")}
        ok = vals == {"lt": False, "eq": False, "gt": True, "un": True}
        nan_guard = None
        if vals == {"lt": False, "eq": False, "gt": True, "un": False}:
            # `if v.is_nan() { return None }` in front of a search by `bound < v`: NaN never reaches the search (what the NaN edge does instead is the caller's to check: "nan_guard")
            for bi in b.reachable_blocks():
                be = b.bool_edges(bi)
                if be and is_call(be[0], "f64::is_nan") and peel(be[0][2][0]) == value_term and b.edge_dominates(bi, be[2], c.bb) and c.bb not in b.reach(be[1]):
                    nan_guard = (bi, be[1])
                    ok = True
        return {"ok": ok, "nan_guard": nan_guard, "pred": "v<=b" if ok else "?%s" % vals, "bounds": bounds, "call": c, "kind": "partition_point", "closure": cl, "adapters": [],
                "why": "binary search whose predicate is true for %s" % sorted(k for k, v_ in vals.items() if v_) + " (wanted: exactly the bounds with !(v <= b): gt and NaN)"}
    return None


def first_match_scan(f, b, value_term):
    """Recognise `upper_bounds.iter().enumerate().filter(|&(_, f)| v <= *f).next()` (or find/position forms) in body b.
    Returns dict(bounds=collection term, pred=('Le'|...), ok=bool, call=next/find call, index_term, why)"""
    res = {"ok": False, "why": "no first-match scan over the bounds found"}
    pp = _partition_point_scan(f, b, value_term)
    if pp is not None:
        return pp
    for c in b.calls():
        if not c.matches(["Iterator::next", "Iterator::find", "Iterator::position"]):
            continue
        it = peel(c.args[0], transparent=[])
        closure = None
        kind = None
        if c.matches("Iterator::next") and is_call(it, "Iterator::filter"):
            closure = it[2][1]
            src = it[2][0]
            kind = "filter-next"
        elif c.matches(["Iterator::find", "Iterator::position"]):
            closure = c.args[1]
            src = it
            kind = "find" if c.matches("Iterator::find") else "position"
        else:
            continue
        if not (closure[0] == "agg" and closure[1] == "closure"):
            continue
        cl = f.closure(closure[2])
        if cl is None:
            continue
        # source chain: iter()/enumerate() only
        names = []
        s = src
        while True:
            s = peel(s, transparent=["Deref::deref"])
            if is_call(s, ["Iterator::enumerate", "slice::iter", "IntoIterator::into_iter", "Vec::iter"]):
                names.append(strip_generics(s[1]).split("::")[-1])
                s = s[2][0]
                continue
            break
        bounds = s
        r = cl.term_local(0)
        pred = None
        if r[0] == "binop" and r[1] in ("Le", "Ge", "Lt", "Gt"):
            x, y = r[2], r[3]
            cx, cy = cap(closure, x), cap(closure, y)

            def is_elem(t):
                t = peel(t)
                # element of (idx, &f64) or &f64
                while t[0] in ("field",) and t[1] != P(2) and peel(t[1]) != P(2):
                    t = peel(t[1])
                return t == P(2) or (t[0] == "field" and peel(t[1]) == P(2))
            if cx is not None and cx == value_term and is_elem(y):
                pred = {"Le": "v<=b", "Lt": "v<b", "Ge": "v>=b", "Gt": "v>b"}[r[1]]
            elif cy is not None and cy == value_term and is_elem(x):
                pred = {"Ge": "v<=b", "Gt": "v<b", "Le": "v>=b", "Lt": "v>b"}[r[1]]
        res = {"ok": pred == "v<=b" and all(n in ("enumerate", "iter", "into_iter") for n in names), "pred": pred, "bounds": bounds, "call": c, "kind": kind,
               "closure": cl, "adapters": names,
               "why": "bucket predicate is %s over %s via %s" % (pred, show(bounds), kind)}
        return res
    return res
