"""Histogram rules shared by C02, C03, C08, C12, C18 (src/histogram.rs)."""
from pvrules.mir import is_call, peel, show, strip_generics, subterms
from pvrules.rules import SELF_FIELD, const_int, count_range, elem_of, ordering_of, ord_ge

H = "prometheus::histogram::"
P = lambda i: ("param", i)  # noqa: E731


def cap(cl_term, t):
    """Resolve a closure-body term that is an upvar `(*_1).k` to the captured term in the parent; else None."""
    t = peel(t)
    if t[0] == "field" and peel(t[1]) == P(1) and str(t[2]).isdigit():
        caps = cl_term[3]
        k = int(t[2])
        if k < len(caps):
            return peel(caps[k])
    return None


def _cmp_case_eval(cl, closure_term, t, value_term, case, depth=0):
    """Truth value of the boolean term t of closure body `cl` (a predicate on one bound b, capturing the observed value v) when v relates to b as `case`:
    'lt' (v < b), 'eq', 'gt', 'un' (v is NaN; stored bounds never are).  None when t is not understood."""
    if depth > 8 or not isinstance(t, tuple) or not t:
        return None
    t = peel(t, transparent=[])

    def side(x):
        x = peel(x)
        cx = cap(closure_term, x)
        if cx is not None and cx == value_term:
            return "v"
        y = x
        while isinstance(y, tuple) and y and y[0] in ("field",) and peel(y[1]) != P(2) and y[1] != P(2):
            y = peel(y[1])
        if y == P(2) or (isinstance(y, tuple) and y and y[0] == "field" and peel(y[1]) == P(2)):
            return "b"
        return None
    TRUE = {"lt": {"Lt", "Le", "Ne"}, "eq": {"Le", "Ge", "Eq"}, "gt": {"Gt", "Ge", "Ne"}, "un": {"Ne"}}
    SWAP = {"Lt": "Gt", "Le": "Ge", "Gt": "Lt", "Ge": "Le", "Eq": "Eq", "Ne": "Ne"}
    if t[0] == "const" and t[1] in ("true", "false"):
        return t[1] == "true"
    if t[0] == "unop" and t[1] == "Not":
        x = _cmp_case_eval(cl, closure_term, t[2], value_term, case, depth + 1)
        return None if x is None else (not x)
    if t[0] == "binop" and t[1] in SWAP:
        a, c_ = side(t[2]), side(t[3])
        if (a, c_) == ("v", "b"):
            return t[1] in TRUE[case]
        if (a, c_) == ("b", "v"):
            return SWAP[t[1]] in TRUE[case]
        return None
    if t[0] == "binop" and t[1] in ("BitAnd", "BitOr"):
        x, y = _cmp_case_eval(cl, closure_term, t[2], value_term, case, depth + 1), _cmp_case_eval(cl, closure_term, t[3], value_term, case, depth + 1)
        if x is None or y is None:
            return None
        return (x and y) if t[1] == "BitAnd" else (x or y)
    if is_call(t, "f64::is_nan") and t[2]:
        sd = side(t[2][0])
        return (case == "un") if sd == "v" else (False if sd == "b" else None)
    if t[0] == "var":
        defs = cl.defs().get(t[1], [])

        def term_of(d):
            return cl.term_rvalue(d[3], (d[1], d[2])) if d[0] == "assign" else cl.term_call(d[1])
        if len(defs) == 1 and defs[0][0] in ("assign", "call"):
            return _cmp_case_eval(cl, closure_term, term_of(defs[0]), value_term, case, depth + 1)
        if len(defs) == 2 and all(d[0] in ("assign", "call") for d in defs):
            d1, d2 = defs
            for bi in cl.reachable_blocks():
                be = cl.bool_edges(bi)
                if not be:
                    continue
                for (x, y) in ((d1, d2), (d2, d1)):
                    if cl.edge_dominates(bi, be[1], x[1]) and cl.edge_dominates(bi, be[2], y[1]):
                        c0 = _cmp_case_eval(cl, closure_term, be[0], value_term, case, depth + 1)
                        if c0 is None:
                            return None
                        return _cmp_case_eval(cl, closure_term, term_of(x if c0 else y), value_term, case, depth + 1)
    return None


def _partition_point_scan(f, b, value_term):
    """`bounds.partition_point(|b| !(v <= *b))`: on bounds that are strictly increasing and NaN-free (C08.R1/R2/R7: every stored list passed the gate) the
    index of the first bound with v <= b, found by binary search.  The predicate is evaluated for the four ways v can relate to a bound."""
    for c in b.calls_to(["slice::partition_point"]):
        closure = peel(c.args[1], transparent=[])
        if not (isinstance(closure, tuple) and closure and closure[0] == "agg" and closure[1] == "closure"):
            continue
        cl = f.closure(closure[2])
        if cl is None:
            continue
        bounds = peel(c.args[0], transparent=["Deref::deref", "Vec::as_slice"])
        r = cl.term_local(0)
        vals = {case: _cmp_case_eval(cl, closure, r, value_term, case) for case in ("lt", "eq", "gt", "un")}
        ok = vals == {"lt": False, "eq": False, "gt": True, "un": True}
        return {"ok": ok, "pred": "v<=b" if ok else "?%s" % vals, "bounds": bounds, "call": c, "kind": "partition_point", "closure": cl, "adapters": [],
                "why": "binary search whose predicate is true for %s" % sorted(k for k, v_ in vals.items() if v_) + " (wanted: exactly the bounds with !(v <= b): gt and NaN)"}
    return None


def first_match_scan(f, b, value_term):
    """Recognise `upper_bounds.iter().enumerate().filter(|&(_, f)| v <= *f).next()` (or find/position forms) in body b.
    Returns dict(bounds=collection term, pred=('Le'|...), ok=bool, call=next/find call, index_term, why)"""
    res = {"ok": False, "why": "no first-match scan over the bounds found"}
    pp = _partition_point_scan(f, b, value_term)
    if pp is not None:
        return pp
    for c in b.calls():
        if not c.matches(["Iterator::next", "Iterator::find", "Iterator::position"]):
            continue
        it = peel(c.args[0], transparent=[])
        closure = None
        kind = None
        if c.matches("Iterator::next") and is_call(it, "Iterator::filter"):
            closure = it[2][1]
            src = it[2][0]
            kind = "filter-next"
        elif c.matches(["Iterator::find", "Iterator::position"]):
            closure = c.args[1]
            src = it
            kind = "find" if c.matches("Iterator::find") else "position"
        else:
            continue
        if not (closure[0] == "agg" and closure[1] == "closure"):
            continue
        cl = f.closure(closure[2])
        if cl is None:
            continue
        # source chain: iter()/enumerate() only
        names = []
        s = src
        while True:
            s = peel(s, transparent=["Deref::deref"])
            if is_call(s, ["Iterator::enumerate", "slice::iter", "IntoIterator::into_iter", "Vec::iter"]):
                names.append(strip_generics(s[1]).split("::")[-1])
                s = s[2][0]
                continue
            break
        bounds = s
        r = cl.term_local(0)
        pred = None
        if r[0] == "binop" and r[1] in ("Le", "Ge", "Lt", "Gt"):
            x, y = r[2], r[3]
            cx, cy = cap(closure, x), cap(closure, y)

            def is_elem(t):
                t = peel(t)
                # element of (idx, &f64) or &f64
                while t[0] in ("field",) and t[1] != P(2) and peel(t[1]) != P(2):
                    t = peel(t[1])
                return t == P(2) or (t[0] == "field" and peel(t[1]) == P(2))
            if cx is not None and cx == value_term and is_elem(y):
                pred = {"Le": "v<=b", "Lt": "v<b", "Ge": "v>=b", "Gt": "v>b"}[r[1]]
            elif cy is not None and cy == value_term and is_elem(x):
                pred = {"Ge": "v<=b", "Gt": "v<b", "Le": "v>=b", "Lt": "v>b"}[r[1]]
        res = {"ok": pred == "v<=b" and all(n in ("enumerate", "iter", "into_iter") for n in names), "pred": pred, "bounds": bounds, "call": c, "kind": kind,
               "closure": cl, "adapters": names,
               "why": "bucket predicate is %s over %s via %s" % (pred, show(bounds), kind)}
        return res
    return res
