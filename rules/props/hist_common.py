"""Histogram rules shared by C02, C03, C08, C12, C18 (src/histogram.rs)."""
from pvrules.mir import is_call, peel, show, strip_generics, subterms
from pvrules.rules import SELF_FIELD, const_int, count_range, elem_of, ordering_of, ord_ge

H = "prometheus::histogram::"
P = lambda i: ("param", i)  # noqa: E731


def cap(cl_term, t):
    """Resolve a closure-body term that is an upvar `(*_1).k` to the captured term in the parent; else None."""
    t = peel(t)
    if t[0] == "field" and peel(t[1]) == P(1) and str(t[2]).isdigit():
        caps = cl_term[3]
        k = int(t[2])
        if k < len(caps):
            return peel(caps[k])
    return None


def first_match_scan(f, b, value_term):
    """Recognise `upper_bounds.iter().enumerate().filter(|&(_, f)| v <= *f).next()` (or find/position forms) in body b.
    Returns dict(bounds=collection term, pred=('Le'|...), ok=bool, call=next/find call, index_term, why)"""
    res = {"ok": False, "why": "no first-match scan over the bounds found"}
    for c in b.calls():
        if not c.matches(["Iterator::next", "Iterator::find", "Iterator::position"]):
            continue
        it = peel(c.args[0], transparent=[])
        closure = None
        kind = None
        if c.matches("Iterator::next") and is_call(it, "Iterator::filter"):
            closure = it[2][1]
            src = it[2][0]
            kind = "filter-next"
        elif c.matches(["Iterator::find", "Iterator::position"]):
            closure = c.args[1]
            src = it
            kind = "find" if c.matches("Iterator::find") else "position"
        else:
            continue
        if not (closure[0] == "agg" and closure[1] == "closure"):
            continue
        cl = f.closure(closure[2])
        if cl is None:
            continue
        # source chain: iter()/enumerate() only
        names = []
        s = src
        while True:
            s = peel(s, transparent=["Deref::deref"])
            if is_call(s, ["Iterator::enumerate", "slice::iter", "IntoIterator::into_iter", "Vec::iter"]):
                names.append(strip_generics(s[1]).split("::")[-1])
                s = s[2][0]
                continue
            break
        bounds = s
        r = cl.term_local(0)
        pred = None
        if r[0] == "binop" and r[1] in ("Le", "Ge", "Lt", "Gt"):
            x, y = r[2], r[3]
            cx, cy = cap(closure, x), cap(closure, y)

            def is_elem(t):
                t = peel(t)
                # element of (idx, &f64) or &f64
                while t[0] in ("field",) and t[1] != P(2) and peel(t[1]) != P(2):
                    t = peel(t[1])
                return t == P(2) or (t[0] == "field" and peel(t[1]) == P(2))
            if cx is not None and cx == value_term and is_elem(y):
                pred = {"Le": "v<=b", "Lt": "v<b", "Ge": "v>=b", "Gt": "v>b"}[r[1]]
            elif cy is not None and cy == value_term and is_elem(x):
                pred = {"Ge": "v<=b", "Gt": "v<b", "Le": "v>=b", "Lt": "v>b"}[r[1]]
        res = {"ok": pred == "v<=b" and all(n in ("enumerate", "iter", "into_iter") for n in names), "pred": pred, "bounds": bounds, "call": c, "kind": kind,
               "closure": cl, "adapters": names,
               "why": "bucket predicate is %s over %s via %s" % (pred, show(bounds), kind)}
        return res
    return res
