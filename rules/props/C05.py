"""C05 — A metric vector keeps exactly one child per distinct label-value tuple (DESIGN §4.C05)."""
from pvrules.mir import is_call, peel, show, strip_generics, subterms
from pvrules.rules import (SELF_FIELD, callsite_of, const_int, count_range, elem_of, rejecting, result_assign_blocks,
                           try_continue_block)
from . import hash_common as hc
from . import vec_common as vc

LEVEL = "other"
EXPLANATION = ("Static MIR rules over src/vec.rs, src/value.rs and the local vector forms: the hash input of a label-value tuple is injective "
               "(a non-UTF-8 separator after every value, R1); the slice form and the map form hash the same values in declared-label order (R2); "
               "the child is built from exactly the values that were hashed (R3); cardinality/name errors are returned before any map access and "
               "a failed build inserts nothing (R4); make_label_pairs pairs label i with value i, appends all constant pairs and sorts (R5); "
               "local vector caches use the same hash as key and the same values for the shared child (R6). 64-bit FNV collisions are assumed away.")
ASSUMPTIONS = ["no collision of the 64-bit FNV-1a hash between distinct byte sequences (children are keyed by hash only)",
               "user AsRef<str> impls are deterministic"]
MV = "prometheus::vec::MetricVecCore::"
P1, P2, P3 = ("param", 1), ("param", 2), ("param", 3)
VARLABELS = ("field", ("field", ("deref", P1), "desc"), "variable_labels")


def rule_R1(ctx, f):
    rid = "R1"
    ctx.rule(rid, "injective hash input: in hash_label_values and hash_labels every Hasher::write(value bytes) is followed on every path, "
                  "before the next write/finish, by write_u8(SEPARATOR) with a byte that cannot occur in UTF-8")
    n = 0
    for m in ("hash_label_values", "hash_labels"):
        b = ctx.anchor(rid, m, f.body(MV + m))
        if b:
            ctx.saw(b)
            n += hc.rule_separators(ctx, f, b, rid, m)
            hc.rule_hasher_init(ctx, f, b, rid, m)
    ctx.floor(rid, "Hasher::write sites in vec.rs", n, 2)


def _lookup_by_name(b, t):
    """t is the Some-payload of HashMap::get(labels, &name.as_ref()) where name iterates self.desc.variable_labels."""
    t = peel(t)
    if not (t[0] == "field" and t[1][0] == "downcast" and t[1][2] == "Some"):
        return False
    g = peel(t[1][1], transparent=[])
    if not is_call(g, "HashMap::get"):
        return False
    if peel(g[2][0]) != P2:
        return False
    e = elem_of(peel(g[2][1]))
    return bool(e) and e[0] == VARLABELS and not e[2]


def rule_R2(ctx, f):
    rid = "R2"
    ctx.rule(rid, "sibling agreement: hash_labels and get_label_values iterate self.desc.variable_labels in order and look each name up in the "
                  "same map; hash_label_values iterates the slice positionally; all hash/push `val.as_ref()` of the value found")
    b = ctx.anchor(rid, "hash_label_values", f.body(MV + "hash_label_values"))
    if b:
        ws = b.calls_to("Hasher::write")
        ctx.floor(rid, "writes in hash_label_values", len(ws), 1)
        for i, w in enumerate(ws):
            e = elem_of(peel(w.args[1], transparent=["str::as_bytes", "AsRef::as_ref", "String::as_bytes"]))
            ok = bool(e) and e[0] == P2 and not e[2] and not [a for a in e[1] if a not in ("into_iter", "iter")]
            ctx.ob(rid, "hash_label_values|write#%d" % i, ok,
                   "hash_label_values must hash each element of `vals` in slice order (found %s)" % show(w.args[1]), site=w.span)
            ctx.ob(rid, "hash_label_values|write#%d|every-element" % i, hc.every_element(b, w) is True,
                   "hash_label_values must hash every element of `vals`: no path through the loop body may skip the write (an empty or otherwise special value is still a value)", site=w.span)
    from pvrules import seqeval
    want_seq = [("each", VARLABELS, (("lookup", P2),))]

    def seq_ok(seq):
        return seq is not None and [sg[:3] for sg in seq] == want_seq
    b = ctx.anchor(rid, "hash_labels", f.body(MV + "hash_labels"))
    if b:
        ws = b.calls_to("Hasher::write")
        ctx.floor(rid, "writes in hash_labels", len(ws), 1)
        seq = seqeval.sink_seq(b, ws, lambda s_: s_.args[1]) if ws else None
        ctx.ob(rid, "hash_labels|write#0", seq_ok(seq),
               "hash_labels must hash labels[name] for each declared variable label name in declared order (found %s)" % seqeval.show_seq(seq), site=ws[0].span if ws else b.raw["span"]["at"])
        for i, w in enumerate(ws):
            ctx.ob(rid, "hash_labels|write#%d|every-element" % i, hc.every_element(b, w) is True,
                   "hash_labels must hash the value of every declared name: no path through the loop body may reach the next name without the write", site=w.span)
    if f.body(MV + "get_label_values") is None and seq_ok(_values_seq_in_get_metric_with(f)):
        # the helper is gone, its only caller collects the values itself (checked at the call of get_or_create_metric, R3 `get_metric_with|values`)
        ctx.ob(rid, "get_label_values|push#0", True, "get_metric_with collects labels[name] for each declared variable label name in declared order", site=f.body(MV + "get_metric_with").raw["span"]["at"])
        return
    b = ctx.anchor(rid, "get_label_values", f.body(MV + "get_label_values"))
    if b:
        # what is returned on success: the Vec that was filled, or a collect::<Result<Vec<_>>>() of the per-name lookups
        _, okb = result_assign_blocks(b)
        ok_val = None
        for bi in okb:
            for st in b.blocks[bi]["stmts"]:
                if st["k"] == "assign" and st["pl"]["l"] == 0 and st["rv"]["k"] == "agg":
                    ok_val = b.term_operand(st["rv"]["ops"][0])
        seq = None
        r0 = peel(b.term_local(0), transparent=[])
        if ok_val is not None and seqeval.is_vec_local(b, peel(ok_val)):
            seq = seqeval.vec_seq(b, peel(ok_val))
        elif is_call(r0, "Iterator::collect") and "Result<" in r0[1]:
            seq = seqeval.iter_seq(b, r0[2][0])
        ctx.ob(rid, "get_label_values|push#0", seq_ok(seq),
               "get_label_values must collect labels[name] for each declared variable label name in declared order (found %s)" % seqeval.show_seq(seq), site=b.raw["span"]["at"])
        ctx.ob(rid, "get_label_values|returns-collected", seq is not None, "get_label_values must return the values it collected", site=b.raw["span"]["at"])


def _values_seq_in_get_metric_with(f):
    """The sequence of values get_metric_with hands to get_or_create_metric when it collects them itself (no get_label_values helper); None when it cannot be evaluated."""
    from pvrules import seqeval
    b = f.body(MV + "get_metric_with")
    if b is None:
        return None
    gs = b.calls_to("MetricVecCore::get_or_create_metric")
    if len(gs) != 1:
        return None
    t = peel(seqeval._unwrap_payload(gs[0].args[2], None, b), transparent=["Deref::deref", "Vec::as_slice", "AsRef::as_ref"])
    if is_call(t, "Iterator::collect"):
        return seqeval.iter_seq(b, t[2][0])
    if seqeval.is_vec_local(b, t):
        return seqeval.vec_seq(b, t)
    return None


def _hash_then_create(ctx, rid, f, m, hashfn, vals_pred, what):
    b = ctx.anchor(rid, m, f.body(MV + m))
    if not b:
        return
    ctx.saw(b)
    hs = b.calls_to("MetricVecCore::" + hashfn)
    gs = b.calls_to("MetricVecCore::get_or_create_metric")
    ok = len(hs) == 1 and len(gs) == 1
    ctx.ob(rid, m + "|shape", ok, "%s must hash once (%s) and create through get_or_create_metric once (found %d/%d)" % (m, hashfn, len(hs), len(gs)),
           site=b.raw["span"]["at"])
    if not ok:
        return
    h, g = hs[0], gs[0]
    ctx.ob(rid, m + "|hash-input", peel(h.args[0]) == P1 and peel(h.args[1]) == P2, "%s must hash the caller's labels unchanged (found %s)" % (m, show(h.args[1])), site=h.span)
    hv = peel(g.args[1])
    ctx.ob(rid, m + "|key-is-hash", hv == h.result_term(), "the key passed to get_or_create_metric must be the computed hash (found %s)" % show(g.args[1]), site=g.span)
    ctx.ob(rid, m + "|values", vals_pred(b, peel(g.args[2])), "the values passed to get_or_create_metric must be %s (found %s)" % (what, show(g.args[2])), site=g.span)
    # the fast path looks up the same key
    gets = b.calls_to("HashMap::get")
    for i, c in enumerate(gets):
        ctx.ob(rid, m + "|lookup-key#%d" % i, peel(c.args[1]) == h.result_term(), "the fast-path lookup must use the computed hash (found %s)" % show(c.args[1]), site=c.span)
    # R4: `?` on the hash dominates all map accesses
    cont = try_continue_block(b, h)
    acc = [c for c in b.calls() if c.matches(["RwLock::read", "RwLock::write", "MetricVecCore::get_or_create_metric", "MetricVecBuilder::build"])]
    ok = cont is not None and all(b.dominates(cont, c.bb) for c in acc)
    ctx.ob("R4", m + "|error-before-map", ok, "the `?` on the hash result must dominate every access to the children map in %s" % m, site=h.span)
    return b


def rule_R3(ctx, f):
    rid = "R3"
    ctx.rule(rid, "the child is built from what was hashed: get_metric_with_label_values hashes `vals` and passes the same `vals` on; "
                  "get_metric_with hashes `labels` and passes get_label_values(labels); get_or_create_metric passes its values to build unchanged "
                  "and inserts under the given hash")
    _hash_then_create(ctx, rid, f, "get_metric_with_label_values", "hash_label_values", lambda b, t: t == P2, "the caller's `vals`")

    def vals_from_labels(b, t):
        if is_call(t, "MetricVecCore::get_label_values") and peel(t[2][0]) == P1 and peel(t[2][1]) == P2:
            return True
        seq = _values_seq_in_get_metric_with(f)
        return seq is not None and [sg[:3] for sg in seq] == [("each", VARLABELS, (("lookup", P2),))]
    _hash_then_create(ctx, rid, f, "get_metric_with", "hash_labels", vals_from_labels, "get_label_values(labels)")
    b = ctx.anchor(rid, "get_or_create_metric", f.body(MV + "get_or_create_metric"))
    if b:
        ctx.saw(b)
        bs = b.calls_to("MetricVecBuilder::build")
        ins = b.calls_to(["HashMap::insert", "VacantEntry::insert"])
        ok = len(bs) == 1 and len(ins) == 1
        ctx.ob(rid, "get_or_create_metric|shape", ok, "get_or_create_metric must build once and insert once (found %d/%d)" % (len(bs), len(ins)), site=b.raw["span"]["at"])
        if ok:
            bc, ic = bs[0], ins[0]
            ctx.ob(rid, "get_or_create_metric|build-args",
                   peel(bc.args[0]) == SELF_FIELD("new_metric") and peel(bc.args[1]) == SELF_FIELD("opts") and peel(bc.args[2]) == P3,
                   "build must receive self.opts and the requested label values unchanged (found %s)" % [show(a) for a in bc.args], site=bc.span)
            if ic.matches("VacantEntry::insert"):
                # children.entry(hash) ... Vacant(e) => e.insert(child): the key is the entry's
                ents = [c for c in b.calls_to("HashMap::entry") if c.result_term() in list(subterms(ic.args[0]))]
                key_t, val_t = (ents[0].args[1] if len(ents) == 1 else None), ic.args[1]
            else:
                key_t, val_t = ic.args[1], ic.args[2]
            ctx.ob(rid, "get_or_create_metric|insert-key", key_t is not None and peel(key_t) == P2, "the child must be inserted under the given hash (found %s)" % (show(key_t) if key_t else None), site=ic.span)
            ctx.ob(rid, "get_or_create_metric|insert-value", peel(val_t) == bc.result_term(), "the inserted child must be the built one (found %s)" % show(val_t), site=ic.span)
            cont = try_continue_block(b, bc)
            ctx.ob("R4", "get_or_create_metric|build-error-inserts-nothing", cont is not None and b.dominates(cont, ic.bb),
                   "the `?` on build must dominate the insert (a failed build creates nothing)", site=ic.span)


def rule_R4(ctx, f):
    rid = "R4"
    ctx.rule(rid, "errors create nothing: both hash functions compare the number of supplied values with variable_labels.len() and return "
                  "InconsistentCardinality on the not-equal edge before hashing; hash_labels/get_label_values return Err for a missing name; "
                  "the `?` on the hash dominates every children.read()/write(); the `?` on build dominates insert")
    for m, lenfn in (("hash_label_values", "slice::len"), ("hash_labels", "HashMap::len")):
        b = f.body(MV + m)
        if not b:
            continue
        found = False
        for bi in b.reachable_blocks():
            be = b.bool_edges(bi)
            if not be:
                continue
            cond, tt, tf = be
            if cond[0] == "binop" and cond[1] in ("Ne", "Eq"):
                x, y = cond[2], cond[3]
                def is_vl(t):
                    return is_call(t, "Vec::len") and peel(t[2][0]) == VARLABELS
                def is_in(t):
                    return is_call(t, ["slice::len", "HashMap::len", "Vec::len"]) and peel(t[2][0]) == P2
                if (is_vl(x) and is_in(y)) or (is_vl(y) and is_in(x)):
                    bad_edge = tt if cond[1] == "Ne" else tf
                    good_edge = tf if cond[1] == "Ne" else tt
                    found = True
                    ctx.ob(rid, m + "|cardinality-rejects", rejecting(b, bad_edge), "a wrong number of values must lead to Err on every path", site=b.span_of_block(bi))
                    ws = b.calls_to(["Hasher::write", "Hasher::finish"])
                    ctx.ob(rid, m + "|cardinality-first", not [w for w in ws if w.bb in b.reach_ps(bad_edge)] and all(w.bb in b.reach(good_edge) for w in ws), "no hashing may happen once the cardinality test has failed (and all of it after the test passed)", site=b.span_of_block(bi))
        ctx.ob(rid, m + "|cardinality-test", found, "%s must compare the number of supplied values with variable_labels.len()" % m, site=b.raw["span"]["at"])
    for m in ("hash_labels", "get_label_values"):
        b = f.body(MV + m)
        if not b:
            continue
        # None arm of labels.get(name) -> Err
        n = 0
        for bd in [b] + f.closures_of(b):
            for c in bd.calls_to("HashMap::get"):
                si = bd.switch_info(c.target) if c.target is not None else None
                if si and si[0][0] == "discr":
                    # the None arm: listed, or the `otherwise` of a switch that lists only Some (`let Some(v) = .. else { .. }`)
                    none_t = [t for v, t in si[1] if v == 0] or ([si[2]] if si[2] is not None and [v for v, t in si[1]] == [1] else [])
                    if none_t:
                        n += 1
                        ctx.ob(rid, m + "|missing-name-rejects", rejecting(bd, none_t[0]), "a missing label name must lead to Err", site=c.span)
        # the same with combinators: labels.get(name).ok_or_else(|| Err)?  (in the body or in the closure of a map(..).collect::<Result<_>>())
        for bd in [b] + f.closures_of(b):
            for c in bd.calls_to(["Option::ok_or_else", "Option::ok_or"]):
                src = c.args[0]
                while is_call(peel(src, transparent=[]), ["Option::map", "Option::copied", "Option::cloned"]):
                    src = peel(src, transparent=[])[2][0]
                if not is_call(peel(src, transparent=[]), "HashMap::get"):
                    continue
                propagated = try_continue_block(bd, c) is not None or (bd is not b and peel(bd.term_local(0), transparent=[]) == c.result_term())
                n += 1
                ctx.ob(rid, m + "|missing-name-rejects", propagated, "a missing label name must lead to Err (the Err of ok_or_else must be propagated)", site=c.span)
        ctx.floor(rid, "missing-name tests in " + m, n, 1)


def _label_pairs_cardinality(ctx, rid, b):
    # cardinality test
    found = False
    for bi in b.reachable_blocks():
        be = b.bool_edges(bi)
        if be and be[0][0] == "binop" and be[0][1] in ("Ne", "Eq"):
            x, y = be[0][2], be[0][3]
            if {strip_generics(t[1]).split("::")[-1] for t in (x, y) if t[0] == "call"} == {"len"}:
                args = {peel(t[2][0]) for t in (x, y)}
                if args == {("field", ("deref", P1), "variable_labels"), P2}:
                    bad = be[1] if be[0][1] == "Ne" else be[2]
                    found = found or rejecting(b, bad)      # (a later debug_assert_eq! of the same lengths is not the test)
    ctx.ob(rid, "cardinality", found, "make_label_pairs must return Err when the number of values differs from the number of variable labels", site=b.raw["span"]["at"])


_CHAIN_MEMO = {}


def _label_pairs_chain_form(ctx, rid, f, b, record=True):
    """`names.iter().zip(values).map(|(n, v)| pair(n, v)).chain(consts.iter().cloned()).collect::<Vec<_>>()` followed by one sort: the same sequence of pairs as the two
    push loops.  Records the R5 obligations (once) and returns True when the body has this form."""
    key = (id(ctx), id(b))
    if key in _CHAIN_MEMO:
        return _CHAIN_MEMO[key]
    _CHAIN_MEMO[key] = False
    from pvrules.rules import field_sets
    P1_, P2_ = ("param", 1), ("param", 2)
    for c in b.calls_to("Iterator::collect"):
        src = peel(c.args[0], transparent=[])
        if not is_call(src, "Iterator::chain") or len(src[2]) != 2:
            continue
        A, B = peel(src[2][0], transparent=[]), peel(src[2][1], transparent=["Iterator::cloned", "slice::iter", "Vec::iter", "IntoIterator::into_iter", "Deref::deref"])
        if not is_call(A, "Iterator::map"):
            continue
        z = peel(A[2][0], transparent=[])
        a_ = peel(A[2][1], transparent=[])
        cl = f.closure(a_[2]) if (isinstance(a_, tuple) and a_ and a_[0] == "agg" and a_[1] == "closure") else None
        if cl is None or not is_call(z, "Iterator::zip"):
            continue
        za = peel(z[2][0], transparent=["slice::iter", "Vec::iter", "IntoIterator::into_iter", "Deref::deref"])
        zb = peel(z[2][1], transparent=["slice::iter", "Vec::iter", "IntoIterator::into_iter", "Deref::deref"])
        names_ok = za == ("field", ("deref", P1_), "variable_labels") and zb == P2_
        consts_ok = B == ("field", ("deref", P1_), "const_label_pairs")
        sn = field_sets(cl, "LabelPair", "name", "LabelPair::set_name")
        sv = field_sets(cl, "LabelPair", "value", "LabelPair::set_value")
        T_ = ["AsRef::as_ref", "ToOwned::to_owned", "str::to_owned", "ToString::to_string", "String::from", "Into::into", "Clone::clone", "Deref::deref", "String::as_str"]
        pair_ok = len(sn) == 1 and len(sv) == 1 and peel(sn[0].args[1], transparent=T_) == ("field", ("param", 2), "0") and peel(sv[0].args[1], transparent=T_) == ("field", ("param", 2), "1") \
            and peel(sn[0].args[0]) == peel(sv[0].args[0]) and peel(cl.term_local(0)) == peel(sn[0].args[0]) \
            and count_range(cl, [sn[0].bb]) == (1, 1) and count_range(cl, [sv[0].bb]) == (1, 1)
        V = c.result_term()
        so = [x for x in b.calls_to(["slice::sort", "slice::sort_unstable", "slice::sort_by", "slice::sort_by_key"]) if peel(x.args[0], transparent=["DerefMut::deref_mut"]) == V]
        muts = [x for x in b.calls_to(["Vec::push", "Vec::extend", "Extend::extend", "Vec::extend_from_slice", "Vec::insert", "Vec::remove", "Vec::pop", "Vec::truncate", "Vec::clear",
                                       "Vec::retain", "Vec::dedup", "Vec::swap_remove", "Vec::drain", "slice::reverse"]) if peel(x.args[0], transparent=["DerefMut::deref_mut"]) == V]
        sorted_ok = len(so) == 1 and not muts and b.all_paths_pass(c.bb, [so[0].bb])
        if not (names_ok or consts_ok or pair_ok):
            continue
        if record:
            ctx.ob(rid, "shape", True, "make_label_pairs builds its vector as variable pairs chained with the constant pairs and sorts it once", site=c.span)
            ctx.ob(rid, "name-from-declared", names_ok and pair_ok, "the pair's name must be the element of desc.variable_labels of this step (chain form)", site=c.span)
            ctx.ob(rid, "value-same-index", names_ok and pair_ok, "the pair's value must be the label value at the same position as the name (zip of the two sequences)", site=c.span)
            ctx.ob(rid, "same-pair", pair_ok, "name and value must be set on the pair that is yielded", site=c.span)
            ctx.ob(rid, "every-variable-pair", names_ok and pair_ok, "a pair must be produced for every declared variable label (a map over the whole zip, nothing filtered)", site=c.span)
            ctx.ob(rid, "const-pairs-appended", consts_ok, "every constant label pair must be appended (found %s)" % show(src[2][1])[:120], site=c.span)
            ctx.ob(rid, "sorted", sorted_ok, "the filled vector must be sorted before it is returned", site=so[0].span if so else c.span)
        _CHAIN_MEMO[key] = True
        return True
    return False


def rule_R5(ctx, f):
    rid = "R5"
    ctx.rule(rid, "exposed labels: make_label_pairs rejects a cardinality mismatch, pairs variable_labels[i] with label_values[i] using one index, "
                  "appends every constant pair, and sorts the result")
    b = ctx.anchor(rid, "make_label_pairs", f.body("prometheus::value::make_label_pairs"))
    if not b:
        return
    ctx.saw(b)
    from pvrules.rules import field_sets
    if _label_pairs_chain_form(ctx, rid, f, b):
        pass
    elif not field_sets(b, "LabelPair", "name", "LabelPair::set_name"):
        # the variable pairs built by `iter.map(|..| pair)` and appended with collect / extend: look at the explicit push loop
        from pvrules import inline
        b = inline.desugar_map_collect(f, b) or b
    if _label_pairs_chain_form(ctx, rid, f, b):
        _label_pairs_cardinality(ctx, rid, b)
        return
    # the pair gets its name and value through the setters, or is built with both in place (a constructor of the model expanded here)
    sn = field_sets(b, "LabelPair", "name", "LabelPair::set_name")
    sv = field_sets(b, "LabelPair", "value", "LabelPair::set_value")
    ps = b.calls_to("Vec::push")
    so = b.calls_to(["slice::sort", "slice::sort_unstable", "slice::sort_by", "slice::sort_by_key"])
    from pvrules import seqeval
    exts = [c for c in b.calls_to(["Vec::extend", "Extend::extend", "Vec::extend_from_slice"])]
    shape_ok = len(sn) == 1 and len(sv) == 1 and len(so) == 1 and (len(ps) == 2 or (len(ps) == 1 and len(exts) == 1))
    ctx.ob(rid, "shape", shape_ok,
           "make_label_pairs must have one set_name/set_value pair, one push of the variable pair, one push or extend for the constant pairs and one sort (found %d/%d/%d+%d/%d)" % (
               len(sn), len(sv), len(ps), len(exts), len(so)), site=b.raw["span"]["at"])
    if not shape_ok:
        return
    en = elem_of(peel(sn[0].args[1]))
    zipped = bool(en) and "zip" in en[1]
    ok_n = bool(en) and en[0] == ("field", ("deref", P1), "variable_labels") and ((("enumerate" in en[1]) and en[2] == ["1"]) or (zipped and en[2] == ["0"])) \
        and not [a for a in en[1] if a not in ("iter", "into_iter", "enumerate", "zip")]
    ctx.ob(rid, "name-from-declared", ok_n, "the pair's name must be the element of desc.variable_labels of this iteration (found %s)" % show(sn[0].args[1]), site=sn[0].span)
    v = peel(sv[0].args[1], transparent=["AsRef::as_ref", "ToOwned::to_owned", "str::to_owned", "ToString::to_string", "String::from", "Into::into"])
    ok_v = False
    if v[0] == "index" and peel(v[1]) == P2:
        ei = elem_of(v[2])
        ok_v = bool(ei) and ei[0] == en[0] if en else False
        ok_v = ok_v and ei[2] == ["0"] and peel(sn[0].args[1])[1][1] == v[2][1][1] if ok_v else False
    elif zipped:
        # `for (n, v) in desc.variable_labels.iter().zip(label_values)`: the second half of the same pair, and the zip's second source is the argument
        ev = elem_of(v)
        zs = [z for z in subterms(v) if isinstance(z, tuple) and z and z[0] == "call" and is_call(z, "Iterator::zip")]
        same_next = [x for x in subterms(v) if isinstance(x, tuple) and x and x[0] == "call" and is_call(x, "Iterator::next")] == \
            [x for x in subterms(peel(sn[0].args[1])) if isinstance(x, tuple) and x and x[0] == "call" and is_call(x, "Iterator::next")]
        ok_v = bool(ev) and ev[2] == ["1"] and same_next and len(zs) >= 1 and peel(zs[0][2][1], transparent=["IntoIterator::into_iter", "slice::iter", "Deref::deref"]) == P2
    ctx.ob(rid, "value-same-index", ok_v, "the pair's value must be the label value at the same position as the name (found %s)" % show(sv[0].args[1]), site=sv[0].span)
    ctx.ob(rid, "same-pair", peel(sn[0].args[0]) == peel(sv[0].args[0]) and peel(ps[0].args[1]) == peel(sn[0].args[0]),
           "name and value must be set on the pair that is pushed", site=ps[0].span)
    ctx.ob(rid, "every-variable-pair", hc.every_element(b, ps[0], via=sn[0]) is True and hc.every_element(b, sv[0], via=sn[0]) is True,
           "a pair must be pushed for every declared variable label: no path through the loop body may skip set_value or the push (an empty value is still exposed)", site=ps[0].span)
    CONSTS = ("field", ("deref", P1), "const_label_pairs")
    if len(ps) == 2:
        ctx.ob(rid, "every-const-pair", hc.every_element(b, ps[1]) is True, "every constant pair must be pushed: no path through the loop body may skip the push", site=ps[1].span)
        ec = elem_of(peel(ps[1].args[1]))
        okc = bool(ec) and ec[0] == CONSTS and not [a for a in ec[1] if a not in ("into_iter", "iter")]
        csite = ps[1]
    elif exts[0].matches("Vec::extend_from_slice"):
        okc = peel(exts[0].args[1], transparent=["Deref::deref", "Vec::as_slice", "AsRef::as_ref", "Borrow::borrow"]) == CONSTS and peel(exts[0].args[0]) == peel(ps[0].args[0]) \
            and count_range(b, [exts[0].bb])[0] >= 0
        csite = exts[0]
    else:
        sq = seqeval.iter_seq(b, exts[0].args[1])
        okc = sq is not None and [sg[:3] for sg in sq] == [("each", CONSTS, ())] and peel(exts[0].args[0]) == peel(ps[0].args[0])
        csite = exts[0]
    ctx.ob(rid, "const-pairs-appended", okc, "every constant label pair must be appended (found %s)" % show(csite.args[1]), site=csite.span)
    vec = peel(ps[0].args[0])
    after_sort = b.strictly_after(so[0].bb)
    appenders = ps + ([] if len(ps) == 2 else exts)
    ctx.ob(rid, "sorted", peel(so[0].args[0]) == vec and all(b.all_paths_pass(p.bb, [so[0].bb]) for p in appenders)
           and not any(p.bb in after_sort for p in appenders),
           "the filled vector must be sorted before it is returned", site=so[0].span)
    _label_pairs_cardinality(ctx, rid, b)


def rule_R6(ctx, f):
    rid = "R6"
    ctx.rule(rid, "local vector caches: the key of self.local.entry/remove is hash_label_values(vals) of the wrapped vector and the shared child "
                  "comes from vec.with_label_values(vals) with the same vals")
    for ty, path, childfn in (("GenericLocalCounterVec", "prometheus::counter::GenericLocalCounterVec::", "GenericCounter::local"),
                              ("LocalHistogramVec", "prometheus::histogram::LocalHistogramVec::", "Histogram::local")):
        b = ctx.anchor(rid, ty + "::with_label_values", f.body(path + "with_label_values"))
        if b:
            ctx.saw(b)
            hs = b.calls_to("MetricVecCore::hash_label_values")
            es = b.calls_to("HashMap::entry")
            ok = len(hs) == 1 and len(es) == 1
            ctx.ob(rid, ty + "::with_label_values|shape", ok, "one hash and one entry() expected", site=b.raw["span"]["at"])
            if ok:
                h, e = hs[0], es[0]
                ctx.ob(rid, ty + "::with_label_values|hash-input", peel(h.args[0]) == ("field", ("field", ("deref", P1), "vec"), "v") and peel(h.args[1]) == P2,
                       "the local cache must hash the caller's values with the wrapped vector's hash function (found %s, %s)" % (show(h.args[0]), show(h.args[1])), site=h.span)
                ctx.ob(rid, ty + "::with_label_values|entry-key", peel(e.args[0]) == SELF_FIELD("local") and peel(e.args[1]) == h.result_term(),
                       "the cache key must be that hash (found %s)" % show(e.args[1]), site=e.span)
                oi = b.calls_to("Entry::or_insert_with")
                okc = False
                if len(oi) == 1 and oi[0].args[1][0] == "agg" and oi[0].args[1][1] == "closure":
                    cl = f.closure(oi[0].args[1][2])
                    caps = oi[0].args[1][3]
                    if cl:
                        ctx.saw(cl)
                        w = cl.calls_to(["MetricVec::with_label_values", "MetricVec::get_metric_with_label_values", "MetricVecCore::get_metric_with_label_values"])
                        if len(w) == 1:
                            def cap(t):
                                t = peel(t)
                                if t[0] == "field" and peel(t[1]) == P1:
                                    return peel(caps[int(t[2])])
                                return t
                            from pvrules import seqeval as _sq
                            # (the wrapped vector, or its core for the core's own lookup-or-create)
                            recv_ok = cap(w[0].args[0]) == (("field", SELF_FIELD("vec"), "v") if w[0].matches("MetricVecCore::get_metric_with_label_values") else SELF_FIELD("vec"))
                            okc = recv_ok and cap(w[0].args[1]) == P2 and is_call(cl.term_local(0), ["local"]) and \
                                (peel(cl.term_local(0)[2][0], transparent=[]) == w[0].result_term() or
                                 peel(_sq._unwrap_payload(cl.term_local(0)[2][0], stop=w[0].result_term()), transparent=[]) == w[0].result_term() or
                                 # `get_metric_with_label_values(vals).unwrap()` is what `with_label_values(vals)` is
                                 (not w[0].matches("MetricVec::with_label_values") and peel(cl.term_local(0)[2][0], transparent=["Result::unwrap", "Result::expect"]) == w[0].result_term()))
                if not oi:
                    # `match self.local.entry(hash) { Occupied(e) => e.into_mut(), Vacant(e) => e.insert(self.vec.with_label_values(vals).local()) }`
                    vi = b.calls_to("VacantEntry::insert")
                    w = b.calls_to(["MetricVec::with_label_values", "MetricVec::get_metric_with_label_values"])
                    sw = [bi for bi in b.reachable_blocks() if (lambda si_: si_ and si_[0][0] == "discr" and peel(si_[0][1], transparent=[]) == e.result_term())(b.switch_info(bi))]
                    if len(vi) == 1 and len(w) == 1 and len(sw) == 1:
                        child = peel(vi[0].args[1], transparent=[])
                        from pvrules import seqeval as _sq
                        okc = peel(w[0].args[0]) == SELF_FIELD("vec") and peel(w[0].args[1]) == P2 and is_call(child, ["local"]) and \
                            (peel(child[2][0], transparent=[]) == w[0].result_term() or peel(_sq._unwrap_payload(child[2][0], stop=w[0].result_term()), transparent=[]) == w[0].result_term()) \
                            and e.result_term() in list(subterms(vi[0].args[0]))
                        # the shared lookup happens on the Vacant arm only (a hit must not create or replace anything)
                        si_ = b.switch_info(sw[0])
                        arms_ = [t for v, t in si_[1]] + ([si_[2]] if b.blocks[si_[2]]["term"]["k"] != "unreachable" else [])
                        vac = [t for t in arms_ if vi[0].bb in b.reach(t) or t == vi[0].bb]
                        okc = okc and len(vac) == 1 and all(w[0].bb not in b.reach(t) for t in arms_ if t not in vac)
                ctx.ob(rid, ty + "::with_label_values|child", okc, "on a miss the local must wrap vec.with_label_values(vals).local() for the same vals", site=b.raw["span"]["at"])
        b = ctx.anchor(rid, ty + "::remove_label_values", f.body(path + "remove_label_values"))
        if b:
            ctx.saw(b)
            hs = b.calls_to("MetricVecCore::hash_label_values")
            rs = b.calls_to("HashMap::remove")
            ds = b.calls_to("MetricVecCore::delete_label_values")
            ok = len(hs) == 1 and len(rs) == 1 and len(ds) == 1
            ctx.ob(rid, ty + "::remove_label_values|shape", ok, "one hash, one local remove and one shared delete expected", site=b.raw["span"]["at"])
            if ok:
                ctx.ob(rid, ty + "::remove_label_values|key", peel(rs[0].args[1]) == hs[0].result_term() and peel(hs[0].args[1]) == P2 and peel(ds[0].args[1]) == P2,
                       "local entry and shared child must be removed for the same values", site=rs[0].span)


def run(ctx):
    f = ctx.facts("default")
    for rid, fn in (("R1", rule_R1), ("R2", rule_R2), ("R3", rule_R3), ("R4", rule_R4), ("R5", rule_R5), ("R6", rule_R6)):
        ctx.run_rule(rid, fn, f)
    # one child per tuple also under racing first requests (shared with C10.R2)
    ctx.run_rule("R7", lambda c: vc.rule_double_checked_creation(c, f, "R7"))
    # local vectors: the cache must not outlive the shared child it mirrors (a stale local entry is a second child for the same tuple that does not start from zero)
    from . import C06, C12
    ctx.rule("R8", "local vector caches mirror the shared map (shared with C12.L10): remove_label_values drops the local entry before and independently of the shared delete; "
                   "a cloned / new local vector starts with an empty cache")
    ctx.run_rule("R8", lambda c: C06._as(c, "R8", lambda s: C12.rule_vec_forms(s, f, "L10"),
                                         keep=lambda k: any(x in k for x in ("remove_label_values", "::clone|starts-empty", "::new|empty-map"))))
    if ctx.tier == "thorough":
        g = ctx.facts("plain")
        ctx.run_rule("R1@plain", lambda c, _f: rule_R1(c, g), None)
