"""C20 — Registration macros are faithful shorthands for the explicit calls (translation validation of expansions, DESIGN §4.C20)."""
import importlib.util
import os
import re

from pvrules.mir import is_call, peel, show, strip_generics, subterms
from pvrules.rules import SELF_FIELD, count_range

LEVEL = "translation_validation"
EXPLANATION = ("Translation validation of macro expansions: the harness crate harness/forms (generated from a table of all public forms: 23 macros, every arm, with and without "
               "trailing comma, opts! with 0/1/2 label maps, labels! with 0/2 pairs) contains one function per form whose parameters are the macro arguments; rustc expands the "
               "macros of /repo's current src/macros.rs and the driver dumps the MIR of each function (nothing is executed). Per form the expansion is compared with the spec "
               "derived from the table: exact multiset of calls; constructor = with_opts/new of the metric type the macro names (cell type included) with the caller's label names; "
               "options = the given options value, or Opts::new(NAME, HELP).const_labels(map extended by exactly the given label maps) resp. HistogramOpts::new(NAME, HELP)[.buckets(B)]"
               "[.const_labels(L)]; registration on the registry argument or through prometheus::register (which forwards to DEFAULT_REGISTRY); the boxed collector is a clone of the "
               "constructed metric and the returned handle is that same metric; a refused registration propagates Err. Because arguments are opaque parameters the result holds for all "
               "argument values. The number of arms of each macro in src/macros.rs is compared with the table so that a new arm is reported as uncovered. What `register` itself does "
               "with the collector (exact admission, recording only on success, check and insert inside one write-lock span) is decided by the registry rules C06.R2/R3/R5, run here as F4.")
ASSUMPTIONS = ["rustc's macro expansion of the harness is the expansion a user gets (same crate path `prometheus::`)", "the constructors' own behaviour is the subject of other properties"]
TECHNIQUE = "translation validation: rule-based comparison of the MIR of macro expansions (harness of all public forms) against a spec table; no execution"
P = lambda i: ("param", i)  # noqa: E731


def load_table():
    p = os.path.join(os.path.dirname(os.path.dirname(os.path.dirname(os.path.abspath(__file__)))), "harness", "forms", "forms_table.py")
    spec = importlib.util.spec_from_file_location("forms_table", p)
    m = importlib.util.module_from_spec(spec)
    spec.loader.exec_module(m)
    return m


def callee_short(c):
    n = strip_generics(c.callee)
    parts = n.split("::")
    return "::".join(parts[-2:]) if len(parts) >= 2 else n


def param_index(inst):
    """argument kind -> parameter term"""
    idx = {}
    i = 1
    for a in inst["args"]:
        if "=>" in a:
            k, v = a.split("=>")
            idx[k] = P(i)
            idx[v] = P(i + 1)
            i += 2
        else:
            idx[a] = P(i)
            i += 1
    return idx


def check_opts_term(ctx, key, f, b, t, inst, pidx):
    """t must be the options value the form denotes."""
    args = inst["args"]
    if "OPTS" in args:
        return ctx.ob("F2", key + "|opts", peel(t) == pidx["OPTS"], "the given options value must be passed on unchanged (found %s)" % show(t))
    t = peel(t, transparent=[])
    ok = is_call(t, "Opts::const_labels")
    if ok:
        o, lbs = t[2][0], t[2][1]
        ok = is_call(o, "Opts::new") and peel(o[2][0]) == pidx["NAME"] and peel(o[2][1]) == pidx["HELP"]
        lbs_t = peel(lbs)
        ok = ok and is_call(lbs_t, "HashMap::new")
        maps = [a for a in args if a in ("CL1", "CL2")]
        ext = [c for c in b.calls_to("Extend::extend") if peel(c.args[0]) == lbs_t]
        ok = ok and len(ext) == len(maps)
        for c, mname in zip(ext, maps):
            src = peel(c.args[1], transparent=[])
            okm = is_call(src, "Iterator::map") and is_call(peel(src[2][0], transparent=[]), "HashMap::iter") and peel(peel(src[2][0], transparent=[])[2][0]) == pidx[mname]
            cl = f.closure(src[2][1][2]) if okm and src[2][1][0] == "agg" else None
            if cl is not None:
                r = cl.term_local(0)
                okm = okm and r[0] == "agg" and r[1] == "tuple" and len(r[3]) == 2 and peel(r[3][0], transparent=["Into::into", "From::from", "ToString::to_string", "ToOwned::to_owned"]) == ("field", P(2), "0") \
                    and peel(r[3][1], transparent=["Into::into", "From::from", "ToString::to_string", "ToOwned::to_owned"]) == ("field", P(2), "1")
            else:
                okm = False
            ok = ok and okm
        # all extends happen before const_labels is called
        cl_call = [c for c in b.calls_to("Opts::const_labels")]
        ok = ok and len(cl_call) == 1 and all(b.dominates(c.bb, cl_call[0].bb) for c in ext)
    return ctx.ob("F2", key + "|opts", ok, "options must be Opts::new(NAME, HELP).const_labels(map extended by exactly the given label maps, keys and values converted with into()) — found %s" % show(t))


def check_hopts_term(ctx, key, t, inst, pidx):
    args = inst["args"]
    if "HOPTS" in args:
        return ctx.ob("F2", key + "|hopts", peel(t) == pidx["HOPTS"], "the given histogram options must be passed on unchanged (found %s)" % show(t))
    t = peel(t, transparent=[])
    ok = True
    if "HCL" in args:
        ok = is_call(t, "HistogramOpts::const_labels") and peel(t[2][1]) == pidx["HCL"]
        t = peel(t[2][0], transparent=[]) if ok else t
    if ok and "BUCKETS" in args:
        ok = is_call(t, "HistogramOpts::buckets") and peel(t[2][1]) == pidx["BUCKETS"]
        t = peel(t[2][0], transparent=[]) if ok else t
    ok = ok and is_call(t, "HistogramOpts::new") and peel(t[2][0]) == pidx["NAME"] and peel(t[2][1]) == pidx["HELP"]
    return ctx.ob("F2", key + "|hopts", ok, "histogram options must be HistogramOpts::new(NAME, HELP)%s%s (found %s)" % (
        ".buckets(BUCKETS)" if "BUCKETS" in args else "", ".const_labels(LABELS)" if "HCL" in args else "", show(t)))


def _pure_size(b, t):
    """A usize computed without touching any macro argument: a literal, or the length of a literal array (`<[()]>::len(&[(), ()])`)."""
    t = peel(t, transparent=[])
    if isinstance(t, tuple) and t and t[0] in ("const", "constdef"):
        return True
    if is_call(t, "slice::len") and t[2]:
        a = peel(t[2][0])
        if isinstance(a, tuple) and a and a[0] in ("const", "constdef"):
            return True
        if isinstance(a, tuple) and a and a[0] == "agg" and a[1] in ("array", "tuple"):
            return not [x for x in subterms(a) if isinstance(x, tuple) and x and x[0] in ("param", "call", "var")]
        if isinstance(a, tuple) and a and a[0] == "cast":
            return _pure_size(b, ("call", t[1], (a[2],), t[3]))
    return False


def expected_calls(inst):
    args = inst["args"]
    kind = inst["kind"]
    calls = []
    if kind == "labels":
        return ["HashMap::new"] + ["HashMap::insert"] * len(args)
    if kind in ("opts", "scalar", "vec") and "OPTS" not in args:
        nmaps = len([a for a in args if a in ("CL1", "CL2")])
        calls += ["Opts::new", "HashMap::new", "Opts::const_labels"] + ["HashMap::iter", "Iterator::map", "Extend::extend"] * nmaps
    if kind in ("hopts", "hist", "histvec") and "HOPTS" not in args:
        calls += ["HistogramOpts::new"] + (["HistogramOpts::buckets"] if "BUCKETS" in args else []) + (["HistogramOpts::const_labels"] if "HCL" in args else [])
    if kind in ("scalar", "hist"):
        calls += ["CTOR::with_opts"]
    if kind in ("vec", "histvec"):
        calls += ["CTOR::new"]
    if kind in ("scalar", "vec", "hist", "histvec"):
        calls += ["Result::unwrap", "Clone::clone", "Box::new", "Registry::register" if "REGISTRY" in args else "prometheus::register", "Result::map"]
    return calls


def check_instance(ctx, f, inst):
    key = inst["fn"]
    b = ctx.anchor("F1", key, f.body(f.crate + "::" + inst["fn"]))
    if not b:
        return False
    ctx.saw(b)
    pidx = param_index(inst)
    kind = inst["kind"]
    metric = inst["metric"]
    calls = b.calls()

    def on_default_registry(c_):
        """`default_registry().register(..)`: what prometheus::register itself is (F3 `prometheus::register|default-registry`)"""
        return c_.matches("Registry::register") and is_call(peel(c_.args[0], transparent=["Deref::deref"]), ["default_registry"]) and not peel(c_.args[0], transparent=["Deref::deref"])[2]
    dr_calls = {peel(c_.args[0], transparent=["Deref::deref"])[3] for c_ in calls if on_default_registry(c_)}
    # ---- exact call multiset
    ctor = None
    names = []
    for c in calls:
        s = callee_short(c)
        if on_default_registry(c):
            names.append("prometheus::register")
            continue
        if c.bb in dr_calls and c.matches(["default_registry"]):
            continue
        if c.matches("HashMap::with_capacity") and len(c.args) == 1 and _pure_size(b, c.args[0]):
            names.append("HashMap::new")         # an empty map either way; the capacity is a pure size computed from literals (no macro argument is evaluated for it)
            continue
        if c.matches(["slice::len"]) and _pure_size(b, c.result_term()):
            continue
        if c.matches("Box::new"):
            names.append("Box::new")
        elif metric and ((kind in ("scalar", "hist") and c.matches("with_opts")) or (kind in ("vec", "histvec") and strip_generics(c.callee).endswith("::new") and "MetricVec" in c.callee_args + strip_generics(c.callee))):
            ctor = c if ctor is None else ctor
            names.append("CTOR::" + s.split("::")[-1])
        elif c.matches("Clone::clone"):
            names.append("Clone::clone")
        elif c.matches("Extend::extend"):
            names.append("Extend::extend")
        elif c.matches("Iterator::map"):
            names.append("Iterator::map")
        elif s.endswith("prometheus::register") or strip_generics(c.callee) in ("prometheus::register", "prometheus::registry::register"):
            names.append("prometheus::register")
        else:
            names.append(s)
    want = expected_calls(inst)
    # `.map(|()| metric)` and the same written as a match are the same expansion: the combinator itself is not counted (F4 checks what is returned)
    names = [n_ for n_ in names if n_ != "Result::map"]
    want = [n_ for n_ in want if n_ != "Result::map"]
    ctx.ob("F1", key + "|calls", sorted(names) == sorted(want),
           "%s!(%s): the expansion must consist of exactly the calls %s (found %s)" % (inst["macro"], ", ".join(inst["args"]), sorted(want), sorted(names)), site=b.raw["span"]["at"])
    if sorted(names) != sorted(want):
        return False
    r = b.term_local(0)
    if kind == "labels":
        ins = b.calls_to("HashMap::insert")
        m = peel(r)
        ok = (is_call(m, "HashMap::new") or (is_call(m, "HashMap::with_capacity") and _pure_size(b, m[2][0]))) and all(peel(c.args[0]) == m for c in ins)
        pairs = [(peel(c.args[1]), peel(c.args[2])) for c in ins]
        exp = []
        for a in inst["args"]:
            k, v = a.split("=>")
            exp.append((pidx[k], pidx[v]))
        ok = ok and pairs == exp and all(count_range(b, [c.bb]) == (1, 1) for c in ins)
        return ctx.ob("F2", key + "|labels", ok, "labels! must insert exactly the given (key, value) pairs into a fresh map and return it")
    if kind == "opts":
        return check_opts_term(ctx, key, f, b, r, inst, pidx)
    if kind == "hopts":
        return check_hopts_term(ctx, key, r, inst, pidx)
    # ---- registering forms
    ok = True
    # F1 constructor type
    ca = ctor.callee_args + " " + strip_generics(ctor.callee)
    cell = metric[2]
    if kind == "scalar":
        want_ty = {"counter": "GenericCounter", "gauge": "GenericGauge"}[metric[1]]
        okc = want_ty in ca and (cell in ca)
    elif kind == "vec":
        want_b = {"counter": "CounterVecBuilder", "gauge": "GaugeVecBuilder"}[metric[1]]
        okc = want_b in ca and cell in ca
    elif kind == "hist":
        okc = "Histogram" in ca and "Vec" not in ca.split("with_opts")[0].split("::")[-2]
    else:
        okc = "HistogramVecBuilder" in ca
    ok &= ctx.ob("F1", key + "|constructor", okc, "%s! must construct a %s (found constructor %s)" % (inst["macro"], metric[0], strip_generics(ctor.callee_args)[:160]), site=b.raw["span"]["at"])
    ret_ty = b.raw.get("output", "")
    if kind in ("vec", "histvec"):
        ok &= ctx.ob("F1", key + "|label-names", peel(ctor.args[1]) == pidx["LABELS_NAMES"], "the variable label names must be the macro's argument (found %s)" % show(ctor.args[1]))
    # F2 options
    if kind in ("scalar", "vec"):
        ok &= check_opts_term(ctx, key, f, b, ctor.args[0], inst, pidx)
    else:
        ok &= check_hopts_term(ctx, key, ctor.args[0], inst, pidx)
    # F3 / F4
    unw = [c for c in b.calls_to("Result::unwrap")]
    metric_t = unw[0].result_term()
    okm = peel(unw[0].args[0], transparent=[]) == ctor.result_term()
    reg = [c for c in calls if c.matches("Registry::register") or strip_generics(c.callee) in ("prometheus::register", "prometheus::registry::register")]
    okr = len(reg) == 1
    if okr:
        rc = reg[0]
        boxed = rc.args[-1]
        while boxed[0] == "cast":
            boxed = boxed[2]
        okb = is_call(boxed, "Box::new") and is_call(boxed[2][0], "Clone::clone") and peel(boxed[2][0][2][0], transparent=[]) == metric_t
        if "REGISTRY" in inst["args"]:
            okr = rc.matches("Registry::register") and peel(rc.args[0]) == pidx["REGISTRY"]
        else:
            okr = not rc.matches("Registry::register") or on_default_registry(rc)
        ok &= ctx.ob("F3", key + "|registry", okr, "%s! must register in %s (found %s)" % (inst["macro"], "the registry given in the call" if "REGISTRY" in inst["args"] else "the default registry via prometheus::register", strip_generics(rc.callee)))
        ok &= ctx.ob("F4", key + "|registers-the-metric", okb and okm, "the registered collector must be a clone of the constructed metric (found %s)" % show(boxed)[:200])
        mp = b.calls_to("Result::map")
        okret = len(mp) == 1 and peel(mp[0].args[0], transparent=[]) == rc.result_term() and peel(r, transparent=[]) == mp[0].result_term()
        if okret:
            a = mp[0].args[1]
            okret = a[0] == "agg" and a[1] == "closure" and len(a[3]) == 1 and peel(a[3][0], transparent=[]) == metric_t
            cl = f.closure(a[2]) if okret else None
            okret = okret and cl is not None and peel(cl.term_local(0), transparent=[]) == ("field", P(1), "0") and not cl.calls()
        if not mp:
            # match register(..) { Ok(()) => Ok(metric), Err(e) => Err(e) }
            alts = b.var_alts(r[1]) if (isinstance(r, tuple) and len(r) == 2 and r[0] == "var") else []
            oks = [a_ for a_ in alts if a_[0] == "agg" and a_[2].endswith("Result::Ok")]
            ers = [a_ for a_ in alts if a_[0] == "agg" and a_[2].endswith("Result::Err")]
            okret = len(oks) == 1 and len(ers) == 1 and len(alts) == 2 and peel(oks[0][3][0], transparent=[]) == metric_t \
                and peel(ers[0][3][0], transparent=[]) == ("field", ("downcast", rc.result_term(), "Err"), "0")
            if okret:
                sw = [bi for bi in b.reachable_blocks() if (lambda si_: si_ and si_[0][0] == "discr" and peel(si_[0][1], transparent=[]) == rc.result_term())(b.switch_info(bi))]
                okret = len(sw) == 1
        ok &= ctx.ob("F4", key + "|returns-registered-handle", okret,
                     "the macro must evaluate to register(..).map(|()| metric): Err when the registration is refused, otherwise the very metric that was registered")
    else:
        ok &= ctx.ob("F3", key + "|registry", False, "exactly one registration call expected")
    return ok


def count_arms(src):
    """{macro name: number of top-level arms} from the text of macros.rs (brace/paren matching on the token level)."""
    res = {}
    for m in re.finditer(r"macro_rules!\s+(\w+)\s*\{", src):
        name = m.group(1)
        i = m.end()
        depth = 1
        arms = 0
        in_str = False
        while i < len(src) and depth > 0:
            c = src[i]
            if in_str:
                if c == "\\":
                    i += 1
                elif c == '"':
                    in_str = False
            elif c == '"':
                in_str = True
            elif src.startswith("//", i):
                i = src.index("\n", i)
                continue
            elif c in "{([":
                depth += 1
            elif c in "})]":
                depth -= 1
            elif depth == 1 and src.startswith("=>", i):
                arms += 1
            i += 1
        res[name] = arms
    return res


def rule_arms(ctx, tbl):
    ctx.rule("F0", "coverage of forms: every public macro of src/macros.rs and every arm of it has a form in the harness table (hidden `__` helpers and `@of_type` arms are reached through "
                   "the public arms); a macro or arm that is not in the table is reported as uncovered")
    p = os.path.join(ctx.repo, "src", "macros.rs")
    src = open(p).read()
    arms = count_arms(src)
    internal = {"register_counter": 1, "register_counter_with_registry": 1}   # their `@of_type` arm
    public = {m: n - internal.get(m, 0) for m, n in arms.items() if not m.startswith("__")}
    ctx.extra["macro_arms_in_source"] = public
    for m, n in sorted(public.items()):
        ctx.ob("F0", "arms|" + m, tbl.PUBLIC_ARMS.get(m) == n, "macro %s! has %d public arm(s) in src/macros.rs but %s in the harness table — uncovered arm(s)" % (m, n, tbl.PUBLIC_ARMS.get(m)))
    for m in sorted(set(tbl.PUBLIC_ARMS) - set(public)):
        ctx.ob("F0", "arms|" + m, False, "macro %s! of the harness table no longer exists in src/macros.rs" % m)
    ctx.floor("F0", "public macros", len(public), 23)


def _is_default_static(t):
    """the one DEFAULT_REGISTRY static, as lazy_static's deref or through LazyLock / OnceLock / Lazy forcing of `&DEFAULT_REGISTRY`"""
    if "DEFAULT_REGISTRY" not in str(t):
        return False
    p_ = peel(t, transparent=["Deref::deref", "LazyLock::force", "LazyLock::deref", "Lazy::force", "Lazy::deref"])
    return "DEFAULT_REGISTRY" in str(p_) and not (isinstance(p_, tuple) and p_ and p_[0] == "call")


def rule_default_registry(ctx, fr):
    ctx.rule("F3", "registry: *_with_registry! forms call Registry::register on the macro's registry argument; the others call prometheus::register, which (like unregister/gather/"
                   "default_registry) forwards to the one DEFAULT_REGISTRY")
    for fn, callee, nargs in (("register", "Registry::register", 1), ("unregister", "Registry::unregister", 1), ("gather", "Registry::gather", 0)):
        b = ctx.anchor("F3", "prometheus::" + fn, fr.body("prometheus::registry::" + fn))
        if not b:
            continue
        ctx.saw(b)
        cs = b.calls_to(callee)
        ok = len(cs) == 1 and count_range(b, [cs[0].bb]) == (1, 1)
        if ok:
            recv = peel(cs[0].args[0])
            ok = any(isinstance(s, tuple) and s and s[0] in ("constdef", "const", "static", "other") and "DEFAULT_REGISTRY" in str(s) for s in subterms(cs[0].args[0])) or "DEFAULT_REGISTRY" in str(recv)
            if not ok and is_call(recv, "default_registry") and not recv[2]:
                # through the public accessor, which itself hands out the one static
                db = fr.body("prometheus::registry::default_registry")
                ok = db is not None and _is_default_static(db.term_local(0))      # (`default_registry|same-static` below checks that accessor)
            if nargs:
                ok = ok and peel(cs[0].args[1]) == P(1)
            ok = ok and peel(b.term_local(0), transparent=[]) == cs[0].result_term()
        ctx.ob("F3", "prometheus::%s|default-registry" % fn, ok, "prometheus::%s must forward its argument to DEFAULT_REGISTRY.%s and return its result" % (fn, fn), site=b.raw["span"]["at"])
    d = ctx.anchor("F3", "default_registry", fr.body("prometheus::registry::default_registry"))
    if d:
        ctx.saw(d)
        ok = _is_default_static(d.term_local(0))
        ctx.ob("F3", "default_registry|same-static", ok, "default_registry() must return the same DEFAULT_REGISTRY", site=d.raw["span"]["at"])


def run(ctx):
    tbl = load_table()
    ctx.rule("F1", "constructor: the expansion consists of exactly the expected calls and constructs the metric type the macro names (cell type included) with the macro's label names")
    ctx.rule("F2", "options provenance: the given $OPTS unchanged, or Opts::new(NAME, HELP).const_labels(map extended from exactly the supplied label maps); histogram forms: "
                   "HistogramOpts::new(NAME, HELP)[.buckets(BUCKETS)][.const_labels(LABELS)]")
    ctx.rule("F4", "identity: the boxed collector is a clone of the constructed metric, the closure passed to Result::map returns that same metric, a refused registration propagates Err")
    # the generated harness source must be the one the table generates (the table is the spec)
    lib = os.path.join(os.path.dirname(os.path.dirname(os.path.dirname(os.path.abspath(__file__)))), "harness", "forms", "src", "lib.rs")
    ctx.ob("F0", "harness-in-sync", open(lib).read() == tbl.generate(), "harness/forms/src/lib.rs must be what forms_table.py generates")
    rule_arms(ctx, tbl)
    fr = ctx.facts("default")     # /repo itself must build (otherwise: infrastructure error, not a verdict)
    from pvrules import extract
    try:
        facts = ctx.harness("forms")[("forms", "lib")]
    except extract.ExtractError as e:
        msg = str(e)
        errs = [l for l in msg.splitlines() if l.startswith("error")][:4]
        ctx.ob("F1", "harness-typechecks", False,
               "the harness of all macro forms no longer type-checks against /repo although /repo itself builds: some form does not accept its documented arguments or does not "
               "evaluate to Result<the metric type the macro names>: %s" % " | ".join(errs), detail=msg[-1500:])
        return
    ctx.ob("F1", "harness-typechecks", True, "all %d macro forms type-check with the argument and result types of the table" % len(tbl.instances()))
    insts = tbl.instances()
    n_ok = 0
    for inst in insts:
        r = ctx.run_rule("F1", lambda c, i=inst: check_instance(c, facts, i))
        if r:
            n_ok += 1
    ctx.run_rule("F3", rule_default_registry, fr)
    # "registers that metric ..., returns a handle to the registered metric itself; when the registration is refused it evaluates to Err": the macros' Ok/Err is
    # Registry::register's, which must admit and record in one step (shared with C06.R2/R3/R5: exact admission, commit on the vacant id only, one write-lock span)
    from . import C06
    ctx.rule("F4", "the registration the macros forward to is exact and atomic (shared with C06.R2, R3, R5): admission checks are total, the collector is recorded only when "
                   "they passed, and Registry::register runs check and insert inside one write-lock acquisition")
    ctx.run_rule("F4", lambda c: C06._as(c, "F4", lambda s_: (C06.rule_R2(s_, fr), C06.rule_R3(s_, fr), C06.rule_R5(s_, fr))))
    ctx.extra["programs"] = len(insts)
    ctx.extra["disagreements_checked"] = len(insts)
    ctx.extra["forms_agreeing"] = n_ok
    ctx.floor("F0", "macro forms validated", len(insts), 100)
