"""C02 — Every histogram snapshot is one consistent cut of the observations (structural clause set, DESIGN §4.C02)."""
from . import hist_conc as hc

LEVEL = "other"
EXPLANATION = ("Static MIR rules deciding CONFORMANCE of src/histogram.rs to the hot/cold shard protocol and its memory-ordering floors: observe and the local flush claim on "
               "shard_and_count first (>= Acquire), touch only the claimed shard and publish on shard.count last (>= Release); proto takes collect_lock, flips (>= Release), "
               "spins on a CAS of the cold count (success >= Acquire), drains only the cold shard, merges only into the hot shard, and releases the lock after the last shard "
               "event; index helpers are the 2-cycle / 0-1 maps; flip/drain/lock have no other callers; the bit layout of shard_and_count agrees between writer and reader; "
               "the snapshot is assembled from the drained values. That the protocol itself yields one consistent cut for all interleavings is a paper argument (DESIGN §4.C02), "
               "not machine-checked: the check decides the shape and the ordering constants, which are necessary conditions invisible to any test on x86. The content of a cut is "
               "covered by shared rules: conservation across collections (C03.R1/R2), cumulative bucket totals (C08.R5), the bucket an observation is counted in, direct or "
               "batched (C08.R4), and what a local histogram flushes (C12.L5).")
ASSUMPTIONS = ["the hot/cold protocol P of DESIGN §4.C02 yields consistent cuts (paper argument)", "std atomics and Mutex behave as documented",
               "AtomicU64/AtomicF64 wrappers forward value and ordering unchanged (checked by C01.R2)"]


def run(ctx):
    f = ctx.facts("default")
    ctx.run_rule("R1", hc.rule_C02, f)
    # "its sample sum is the sum of S": what a collection carries over from the drained shard must be exactly what it drained (shared with C03.R1/R2)
    from . import C06
    ctx.rule("R7", "conservation (shared with C03.R1, C03.R2): every drained component is merged exactly once into the same component of the hot shard; a local batch adds "
                   "exactly its own count, sum and bucket deltas")
    ctx.run_rule("R7", lambda c: C06._as(c, "R7", lambda s_: hc.rule_C03(s_, f), keep=lambda k: ".R1|" in k or ".R2|" in k))
    from . import C08
    ctx.rule("R9", "every bucket of the snapshot is reported with the running total of the drained counts up to its bound (shared with C08.R5): one Bucket per upper bound, "
                   "cumulative count updated before it is stored")
    ctx.run_rule("R9", lambda c: C06._as(c, "R9", lambda s_: C08.rule_R5(s_, f)))
    from . import C12
    ctx.rule("R8", "what a local histogram flushes is one batch of its own observations (shared with C12.L5): flush clears all of count, sum and counts; a clone (start_timer clones) "
                   "starts with all three cleared; otherwise a snapshot shows bucket counts that no set of observations explains")
    ctx.run_rule("R8", lambda c: C06._as(c, "R8", lambda s_: C12.rule_local_histogram(s_, f, "L5")))
    ctx.rule("R10", "every observation, direct or batched in a local histogram, is counted in the first bucket whose bound is not below it (shared with C08.R4): otherwise "
                    "a bucket's cumulative count is not the number of values of S up to its bound")
    ctx.run_rule("R10", lambda c: C06._as(c, "R10", lambda s_: C08.rule_R4(s_, f)))
    if ctx.tier == "thorough":
        for cfgname in ("plain", "nightlyproc"):
            g = ctx.facts(cfgname)
            sub = type(ctx)(ctx.prop, tier=ctx.tier, repo=ctx.repo, quiet=True)
            sub._facts = ctx._facts
            hc.rule_C02(sub, g)
            for o in sub.obligations:
                o = dict(o)
                o["key"] = o["key"].replace("|", "@%s|" % cfgname, 1)
                o["rule"] = o["rule"] + "@" + cfgname
                ctx.obligations.append(o)
            ctx.functions_analysed |= sub.functions_analysed
