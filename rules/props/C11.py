"""C11 — Gauge operations are atomic (structural clause set, DESIGN §4.C11)."""
from pvrules.mir import is_call, peel, show
from pvrules.rules import count_range, effect_calls, PURE
from . import atomics_common as ac
from . import controls

LEVEL = "other"
EXPLANATION = ("Static MIR rules: the atomic cells of src/atomic64.rs each perform exactly one atomic primitive per operation (R2) or a well-formed "
               "CAS loop (R3); dec_by is fetch_sub of the same delta or inc_by of the negated delta, so sub(x) is the exact inverse RMW of add(x); "
               "no load-then-store on one cell anywhere (R4); GenericGauge::{set,inc,dec,add,sub,get} delegate exactly once each through "
               "Value to the expected Atomic method with operands forwarded unchanged (R5); PullingGauge evaluates its closure once per collect (R6). "
               "Under the trusted base (std atomics) each gauge call is one atomic access of one 64-bit cell, hence linearizable.")
ASSUMPTIONS = ["std::sync::atomic primitives are atomic with a single modification order per cell",
               "progress of the CAS retry loop under contention is not decided"]
G_ = "prometheus::gauge::GenericGauge::"


def rule_R5(ctx, f):
    rid = "R5"
    ctx.rule(rid, "exact delegation table for gauges: set->Value::set->Atomic::set, inc->Value::inc->inc_by(1), dec->Value::dec->dec_by(1), "
                  "add->Value::inc_by, sub->Value::dec_by, get->Value::get; one call each, once on every path, operands unchanged")
    ac.check_wrapper(ctx, rid, f, G_ + "set", "Value::set", ac.V, [ac.P2], key="GenericGauge::set")
    ac.check_wrapper(ctx, rid, f, G_ + "inc", "Value::inc", ac.V, [], key="GenericGauge::inc")
    ac.check_wrapper(ctx, rid, f, G_ + "dec", "Value::dec", ac.V, [], key="GenericGauge::dec")
    ac.check_wrapper(ctx, rid, f, G_ + "add", "Value::inc_by", ac.V, [ac.P2], key="GenericGauge::add")
    ac.check_wrapper(ctx, rid, f, G_ + "sub", "Value::dec_by", ac.V, [ac.P2], key="GenericGauge::sub")
    ac.check_wrapper(ctx, rid, f, G_ + "get", "Value::get", ac.V, [], key="GenericGauge::get", ret_is_call=True)
    ac.rule_value_wrappers(ctx, f, rid, ["inc_by", "dec_by", "set", "get", "inc", "dec"])
    ac.rule_number_impls(ctx, f, rid)
    ac.rule_value_metric(ctx, f, rid)
    ac.check_wrapper(ctx, rid, f, "<prometheus::gauge::GenericGauge<P> as prometheus::metrics::Metric>::metric", "Value::metric", ac.V, [],
                     key="GenericGauge as Metric::metric", ret_is_call=True)
    cl = ctx.anchor(rid, "GenericGauge::clone", f.body("<prometheus::gauge::GenericGauge<P> as std::clone::Clone>::clone"))
    if cl:
        ctx.saw(cl)
        r = cl.term_local(0)
        ok = r[0] == "agg" and len(r[3]) == 1 and is_call(r[3][0], "Arc::clone") and peel(r[3][0]) == ac.V
        ctx.ob(rid, "GenericGauge::clone|shares-cell", ok, "a cloned gauge must share the same Arc<Value> (found %s)" % show(r), site=cl.raw["span"]["at"])
    b = ctx.anchor(rid, "GaugeVecBuilder::build", f.body("<prometheus::gauge::GaugeVecBuilder<P> as prometheus::vec::MetricVecBuilder>::build"))
    if b:
        ctx.saw(b)
        c = b.calls_to("GenericGauge::with_opts_and_label_values")
        ctx.ob(rid, "GaugeVecBuilder::build", len(c) == 1 and peel(c[0].args[0]) == ("param", 2) and peel(c[0].args[1]) == ("param", 3) and b.term_local(0) == c[0].result_term(),
               "vector children must be ordinary gauges built from the requested opts and values", site=b.raw["span"]["at"])


def rule_R6(ctx, f):
    rid = "R6"
    ctx.rule(rid, "PullingGauge::metric calls the stored closure exactly once per collect and reports its result; collect takes one sample")
    b = ctx.anchor(rid, "PullingGauge::metric", f.body("prometheus::pulling_gauge::PullingGauge::metric"))
    if b:
        ctx.saw(b)
        calls = [c for c in b.calls() if c.matches(["Fn::call", "FnMut::call_mut", "FnOnce::call_once"])]
        ok = len(calls) == 1 and count_range(b, [calls[0].bb]) == (1, 1)
        ctx.ob(rid, "metric|closure-once", ok, "the value closure must be called exactly once (found %d call sites)" % len(calls), site=b.raw["span"]["at"])
        from pvrules.rules import field_sets
        sv = field_sets(b, "Gauge", "value", ["Gauge::set_value"])
        ok2 = len(sv) == 1 and len(calls) == 1 and sv[0].args[1] == calls[0].result_term()
        ctx.ob(rid, "metric|reports-closure-result", ok2, "the sample value must be the closure's result", site=b.raw["span"]["at"])
    c = ctx.anchor(rid, "PullingGauge::collect", f.body("<prometheus::pulling_gauge::PullingGauge as prometheus::metrics::Collector>::collect"))
    if c:
        ctx.saw(c)
        ms = c.calls_to("PullingGauge::metric")
        ctx.ob(rid, "collect|one-sample", len(ms) == 1 and count_range(c, [ms[0].bb]) == (1, 1), "collect must take exactly one sample", site=c.raw["span"]["at"])


def run(ctx):
    f = ctx.facts("default")
    ctx.run_rule("R1", lambda c: ac.rule_R1_cells(c, f))
    loops = ctx.run_rule("R2", lambda c: ac.rule_R2_one_access(c, f)) or []
    ctx.run_rule("R3", lambda c: ac.rule_R3_cas_loop(c, f, loops))
    ctx.run_rule("R4", lambda c: ac.rule_R4_no_nonatomic_rmw(c, [f]))
    ctx.run_rule("R4", lambda c: controls.control_rmw(c, "R4"))
    ctx.run_rule("R5", lambda c: rule_R5(c, f))
    ctx.run_rule("R6", lambda c: rule_R6(c, f))
    if ctx.tier == "thorough":
        for cfgname in ("plain", "nightlyproc", "push"):
            g = ctx.facts(cfgname)
            ctx.run_rule("R2@" + cfgname, lambda c: ac.rule_R3_cas_loop(c, g, ac.rule_R2_one_access(c, g, rid="R2@" + cfgname) or [], rid="R3@" + cfgname))
            ctx.run_rule("R4@" + cfgname, lambda c: ac.rule_R4_no_nonatomic_rmw(c, [g], rid="R4@" + cfgname))
