"""C06 — Registry admission is exact and a failed registration leaves no trace (DESIGN §4.C06)."""
from pvrules.mir import is_call, peel, show, strip_generics, subterms, origins
from pvrules.rules import SELF_FIELD, count_range, elem_of, rejecting, result_assign_blocks

LEVEL = "other"
EXPLANATION = ("Static MIR path rules over RegistryCore::{register,unregister} and their Registry wrappers: no mutation of a registry field "
               "lies on a path that can still return Err (R1, failure atomicity); every descriptor passes the id check, the dim-hash check "
               "(against committed and same-call names) and the within-collector duplicate check before the loop continues, the collector id is the "
               "wrapping sum of exactly the ids put into the local set (R2); on success exactly the local id set, the new dim hashes and the collector "
               "are committed, an occupied id gives AlreadyReg (R3); unregister removes the collector and exactly its ids and never touches "
               "dim_hashes_by_name, which is written only by register (R4); the write lock spans each core call (R5). Hash/id collisions are assumed away.")
ASSUMPTIONS = ["no collisions of 64-bit descriptor ids or of wrapping sums of ids",
               "std HashMap/HashSet behave as documented", "Collector::desc() of one collector is deterministic"]
RC = "prometheus::registry::RegistryCore::"
P1, P2 = ("param", 1), ("param", 2)
MUTATORS = ["HashMap::insert", "HashSet::insert", "Extend::extend", "HashMap::remove", "HashSet::remove", "VacantEntry::insert",
            "HashMap::clear", "HashSet::clear", "HashMap::retain", "HashSet::retain", "HashMap::drain", "HashSet::drain",
            "OccupiedEntry::insert", "OccupiedEntry::remove", "Entry::or_insert", "Entry::or_insert_with", "Entry::or_default",
            "HashMap::remove_entry", "HashSet::take", "HashSet::replace", "HashMap::extend", "HashSet::extend", "Option::take", "Option::replace",
            "Option::insert", "mem::replace", "mem::swap", "mem::take"]


def self_field_of(t):
    """Name of the registry field a receiver term is rooted in (following receiver chains such as entry()), else None."""
    seen = 0
    while isinstance(t, tuple) and t and seen < 50:
        seen += 1
        if t[0] in ("ref", "deref", "rawptr"):
            if t[0] == "deref" and t[1] == P1:
                return None
            t = t[1]
            continue
        if len(t) == 3 and t[0] == "field" and t[1] == ("deref", P1):
            return t[2]
        if t[0] in ("field", "downcast", "index", "cindex", "okpayload"):
            t = t[1]
            continue
        if t[0] == "cast":
            t = t[2]
            continue
        if t[0] == "call" and t[2]:
            t = t[2][0]
            continue
        return None
    return None


def mutation_sites(b):
    res = []
    for c in b.calls():
        if c.matches(MUTATORS) and c.args:
            fld = self_field_of(c.args[0])
            if fld:
                res.append((c, fld))
    # direct stores into self fields
    for bi, si, pl, rv in b.stores():
        t = b.term_place(pl)
        fld = self_field_of(t)
        if fld and pl["p"] and pl["p"][0][0] == "deref" and pl["l"] == 1:
            res.append((("store", bi), fld))
    return res


def err_variant(b, bi):
    """Variant name of the Error aggregate assigned as Err in block bi."""
    for st in b.blocks[bi]["stmts"]:
        if st["k"] == "assign" and st["pl"]["l"] in b.err_places() and not st["pl"]["p"] and st["rv"]["k"] == "agg" and st["rv"].get("variant") == "Err":
            t = b.term_operand(st["rv"]["ops"][0])
            if t[0] == "agg":
                return t[2].split("::")[-1]
    return None


def rule_R1(ctx, f):
    rid = "R1"
    ctx.rule(rid, "failure atomicity: in RegistryCore::register/unregister no call that mutates a field of the registry lies on a normal path "
                  "that can still reach `return Err` (a remove whose own None result is the tested failure is the only benign shape)")
    total = 0
    for m in ("register", "unregister"):
        b = ctx.anchor(rid, m, f.body(RC + m))
        if not b:
            continue
        ctx.saw(b)
        errb, okb = result_assign_blocks(b)
        sites = mutation_sites(b)
        total += len(sites)
        per_field = {}
        for c, fld in sites:
            bb = c.bb if hasattr(c, "bb") else c[1]
            n = per_field.setdefault(fld, 0)
            per_field[fld] = n + 1
            avoid_edges = []
            if hasattr(c, "bb") and c.matches(["HashMap::remove", "HashSet::remove"]):
                # `if map.remove(k).is_none() { return Err }` : nothing was removed on that edge
                for bi in b.reach(bb):
                    be = b.bool_edges(bi)
                    if be and is_call(be[0], ["Option::is_none", "Option::is_some"]):
                        a = peel(be[0][2][0])
                        if a[0] == "call" and a[3] == bb:
                            avoid_edges.append((bi, be[1] if is_call(be[0], "Option::is_none") else be[2]))
            after = set()
            for s in b.succs(bb):
                after |= b.reach(s, avoid_edges=avoid_edges)
            bad = sorted(after & errb)
            name = strip_generics(c.callee).split("::")[-1] if hasattr(c, "bb") else "store"
            ctx.ob(rid, "%s|%s.%s#%d" % (m, fld, name, n), not bad,
                   "%s mutates self.%s (%s) on a path that can still fail: Err returns at %s are reachable afterwards, so a rejected call leaves a trace" % (
                       m, fld, name, [b.span_of_block(x) for x in bad]), site=b.span_of_block(bb))
    ctx.floor(rid, "registry mutation sites in register/unregister", total, 4)


def _desc_elem(b, t):
    """t is `desc.<field>` where desc iterates c.desc()."""
    t = peel(t)
    if t[0] != "field":
        return None
    e = elem_of(t[1])
    if e and is_call(e[0], "Collector::desc") and not e[2]:
        return t[2]
    return None


def rule_R2(ctx, f):
    rid = "R2"
    ctx.rule(rid, "admission checks are total: inside the loop over c.desc() every descriptor passes (a) desc_ids.contains(id) -> AlreadyReg, "
                  "(b) a dim-hash comparison against the hash recorded for its name (committed or earlier in the same call) -> Err, "
                  "(c) the local-set insert whose `false` edge -> Err; each check lies on every path from the loop body to the next iteration; "
                  "the collector id is the wrapping sum of the ids inserted in the local set, and unregister computes it the same way")
    b = ctx.anchor(rid, "register", f.body(RC + "register"))
    if not b:
        return
    nexts = [c for c in b.calls_to("Iterator::next") if elem_of(("field", ("downcast", c.result_term(), "Some"), "0")) and
             is_call(elem_of(("field", ("downcast", c.result_term(), "Some"), "0"))[0], "Collector::desc")]
    ctx.ob(rid, "register|loop", len(nexts) == 1, "register must iterate c.desc() in exactly one loop (found %d)" % len(nexts), site=b.raw["span"]["at"])
    if len(nexts) != 1:
        return
    head = nexts[0].bb
    si = b.switch_info(nexts[0].target)
    body_entry = [t for v, t in si[1] if v == 1][0]
    exit_entry = [t for v, t in si[1] if v == 0][0]
    # the desc() receiver is the collector argument
    dcall = b.calls_to("Collector::desc")
    ctx.ob(rid, "register|desc-of-collector", len(dcall) == 1 and ("param", 2) in origins(dcall[0].args[0]) or any(s == P2 for s in subterms(dcall[0].args[0])),
           "the descriptors must be those of the collector being registered", site=dcall[0].span if dcall else None)

    def on_every_iteration(bb):
        return b.all_paths_pass(body_entry, [bb], dst_set={head})

    # (a)
    cs = [c for c in b.calls_to("HashSet::contains") if peel(c.args[0]) == SELF_FIELD("desc_ids") and _desc_elem(b, c.args[1]) == "id"]
    ok = False
    if len(cs) == 1:
        be = b.branch_on_call(cs[0])
        if not (be and be[0] == cs[0].result_term()):
            # the test may sit a few blocks later (the lookup wrapped in a small helper that was expanded here): the branch on this call's result
            be = next((b.bool_edges(bi) for bi in sorted(b.reach(cs[0].bb)) if b.bool_edges(bi) and b.bool_edges(bi)[0] == cs[0].result_term()), None)
        if be and be[0] == cs[0].result_term():
            ok = rejecting(b, be[1]) and on_every_iteration(cs[0].bb)
            errs = [err_variant(b, x) for x in sorted(b.reach_ps(be[1])) if err_variant(b, x)]
            ok = ok and errs == ["AlreadyReg"]
    ctx.ob(rid, "register|check-a-id", ok, "every descriptor id must be tested against self.desc_ids and a hit must return AlreadyReg", site=cs[0].span if cs else b.raw["span"]["at"])
    # (b)
    gets = [c for c in b.calls_to("HashMap::get") if peel(c.args[0]) == SELF_FIELD("dim_hashes_by_name") and _desc_elem(b, c.args[1]) == "fq_name"]
    okb = False
    site = b.raw["span"]["at"]
    if len(gets) == 1:
        g = gets[0]
        site = g.span
        for bi in b.reach(g.bb):
            be = b.bool_edges(bi)
            if be and be[0][0] == "binop" and be[0][1] in ("Ne", "Eq"):
                x, y = be[0][2], be[0][3]
                def from_lookup(t, depth=0):
                    for s in subterms(t):
                        if isinstance(s, tuple) and len(s) == 4 and s[0] == "call" and s[3] == g.bb:
                            return True
                        # `let known = match global.get(name) { Some(h) => *h, None => .. }`: a local joining the looked-up hash with a fallback
                        if isinstance(s, tuple) and len(s) == 2 and s[0] == "var" and depth < 3 and any(from_lookup(a_, depth + 1) for a_ in b.var_alts(s[1])):
                            return True
                    return False
                def is_dim(t):
                    return _desc_elem(b, t) == "dim_hash"
                if (from_lookup(x) and is_dim(y)) or (from_lookup(y) and is_dim(x)):
                    bad = be[1] if be[0][1] == "Ne" else be[2]
                    okb = rejecting(b, bad) and on_every_iteration(g.bb)
        if not okb:
            # `known.is_some_and(|hash| hash != desc.dim_hash)` with `known` coming from the lookup
            def from_lookup_deep(t, depth=0):
                for s_ in subterms(t):
                    if isinstance(s_, tuple) and len(s_) == 4 and s_[0] == "call" and s_[3] == g.bb:
                        return True
                    if isinstance(s_, tuple) and len(s_) == 2 and s_[0] == "var" and depth < 3 and any(from_lookup_deep(a_, depth + 1) for a_ in b.var_alts(s_[1])):
                        return True
                return False
            for c in b.calls_to(["Option::is_some_and", "Option::map_or", "Option::is_none_or"]):
                a = c.args[-1]
                cl = f.closure(a[2]) if (isinstance(a, tuple) and a and a[0] == "agg" and a[1] == "closure") else None
                be = b.branch_on_call(c)
                if cl is None or not be or be[0] != c.result_term() or not from_lookup_deep(c.args[0]):
                    continue
                r = cl.term_local(0)
                if isinstance(r, tuple) and r[0] == "binop" and r[1] in ("Ne", "Eq"):
                    sides = [peel(r[2]), peel(r[3])]
                    arg_side = [x for x in sides if x == ("param", 2)]
                    def subst(t):
                        """the closure's captured variables replaced by what was captured in register"""
                        if isinstance(t, tuple) and len(t) == 3 and t[0] == "field" and str(t[2]).isdigit() and peel(t[1]) == ("param", 1) and int(t[2]) < len(a[3]):
                            return a[3][int(t[2])]
                        if isinstance(t, tuple):
                            return tuple(subst(u) if isinstance(u, tuple) else u for u in t)
                        return t
                    cap_side = [x for x in (r[2], r[3]) if peel(x) != ("param", 2) and _desc_elem(b, subst(x)) == "dim_hash"]
                    if len(arg_side) == 1 and len(cap_side) == 1:
                        mismatch_true = (r[1] == "Ne") == c.matches("Option::is_some_and")
                        bad = be[1] if (c.matches("Option::is_some_and") and r[1] == "Ne") else None
                        if c.matches("Option::is_none_or") and r[1] == "Eq":
                            bad = be[2]
                        if bad is not None:
                            okb = rejecting(b, bad) and on_every_iteration(g.bb)
        # same-call names: either the lookup falls back to the local map, or the local map does not exist (direct writes are R1's concern)
        local_ins = [c for c in b.calls_to("HashMap::insert") if _desc_elem(b, c.args[1]) == "fq_name" and self_field_of(c.args[0]) is None]
        # `*local.entry(name).or_insert(desc.dim_hash)`: inserts the name when it is new to this call and yields the hash recorded for it otherwise
        local_ent = [c for c in b.calls_to("HashMap::entry") if _desc_elem(b, c.args[1]) == "fq_name" and self_field_of(c.args[0]) is None
                     and any(is_call(o.args[0] and peel(o.args[0], transparent=[]), "HashMap::entry") and peel(o.args[0], transparent=[])[3] == c.bb and _desc_elem(b, o.args[1]) == "dim_hash"
                             for o in b.calls_to("Entry::or_insert"))]
        if local_ent and not local_ins:
            oi = [o for o in b.calls_to("Entry::or_insert") if peel(o.args[0], transparent=[])[3] == local_ent[0].bb][0]
            # the recorded hash takes part in the comparison exactly when the registry does not know the name: it is an alternative of the compared local
            def reaches_cmp(t):
                for bi in b.reach(g.bb):
                    be_ = b.bool_edges(bi)
                    if be_ and be_[0][0] == "binop" and be_[0][1] in ("Ne", "Eq"):
                        for side in (be_[0][2], be_[0][3]):
                            todo, seen = [side], 0
                            while todo and seen < 20:
                                u = todo.pop()
                                seen += 1
                                for s_ in subterms(u):
                                    if isinstance(s_, tuple) and len(s_) == 4 and s_[0] == "call" and s_[3] == t.bb:
                                        return True
                                    if isinstance(s_, tuple) and len(s_) == 2 and s_[0] == "var":
                                        todo.extend(b.var_alts(s_[1]))
                return False
            si_g = b.switch_info(g.target) if g.target is not None else None
            none_t = [t for v, t in si_g[1] if v == 0] if si_g else []
            fallback = reaches_cmp(oi) and bool(none_t) and b.edge_dominates(g.target, none_t[0], oi.bb)
            ctx.ob(rid, "register|check-b-same-call", fallback,
                   "names introduced earlier by the same collector must take part in the dim-hash comparison (lookup must fall back to the local map)", site=site)
        if local_ins:
            local_map = peel(local_ins[0].args[0])
            fallback = False
            for c in b.calls_to(["Option::or_else", "Option::or"]):
                if peel(c.args[0], transparent=[]) == g.result_term() or (c.args[0][0] == "call" and c.args[0][3] == g.bb):
                    a = c.args[1]
                    if a[0] == "agg" and a[1] == "closure":
                        caps = [peel(x) for x in a[3]]
                        cl = f.closure(a[2])
                        if cl and local_map in caps:
                            cg = cl.calls_to("HashMap::get")
                            fallback = len(cg) == 1
                        elif cl:
                            # the closure captures the struct local that holds the map and looks the name up in that field
                            from pvrules.rules import subst_captures
                            cg = cl.calls_to("HashMap::get")
                            fallback = len(cg) == 1 and peel(subst_captures(cg[0].args[0], a[3])) == local_map
                    elif is_call(peel(a, transparent=[]), "HashMap::get") and peel(peel(a, transparent=[])[2][0]) == local_map:
                        fallback = True
            for c in b.calls_to(["HashMap::get", "HashMap::contains_key"]):
                if peel(c.args[0]) == local_map and _desc_elem(b, c.args[1]) == "fq_name":
                    fallback = True
            ctx.ob(rid, "register|check-b-same-call", fallback,
                   "names introduced earlier by the same collector must take part in the dim-hash comparison (lookup must fall back to the local map)", site=site)
    ctx.ob(rid, "register|check-b-dim", okb, "the dim hash of every descriptor must be compared with the hash recorded under its name; a mismatch must return Err", site=site)
    # (c)
    ins = [c for c in b.calls_to("HashSet::insert") if self_field_of(c.args[0]) is None and _desc_elem(b, c.args[1]) == "id"]
    okc = False
    if len(ins) == 1:
        be = b.branch_on_call(ins[0])
        if be and be[0] == ins[0].result_term():
            okc = rejecting(b, be[2]) and on_every_iteration(ins[0].bb)
            # collector id: wrapping_add(acc, desc.id) on the true edge only, key of entry() is acc
            was = [c for c in b.calls_to(["wrapping_add"]) if _desc_elem(b, c.args[1]) == "id" or _desc_elem(b, c.args[0]) == "id"]
            okid = len(was) == 1 and b.dominates(be[1], was[0].bb) and count_range(b, [was[0].bb])[1] != 0
            acc = None
            if len(was) == 1:
                # the accumulator: a local, or a field of a struct local that bundles the state of this call
                acc = [a for a in was[0].args if a[0] == "var" or (len(a) == 3 and a[0] == "field" and a[1][0] == "var" and _desc_elem(b, a) is None)]
                # every access to collectors_by_id in register is keyed by the accumulated id (entry(id), or contains_key(&id) + insert(id, c))
                ents = [c for c in b.calls_to(["HashMap::entry", "HashMap::contains_key", "HashMap::insert", "HashMap::get"]) if peel(c.args[0]) == SELF_FIELD("collectors_by_id")]
                okid = okid and len(acc) == 1 and len(ents) >= 1 and all(peel(c.args[1]) == acc[0] for c in ents)
                if okid:
                    alts = b.place_alts(acc[0])
                    okid = any(a == was[0].result_term() for a in alts) and any((a[0] == "const" and a[3] == "0") or is_call(a, "<u64 as std::default::Default>::default") for a in alts) and len(alts) == 2
            ctx.ob(rid, "register|collector-id", okid, "the collector id must be 0 + the wrapping sum of exactly the ids newly inserted into the local set, and be the key of collectors_by_id.entry()", site=ins[0].span)
    ctx.ob(rid, "register|check-c-dup", okc, "a descriptor id repeated within the collector must return Err (false edge of the local-set insert)", site=ins[0].span if ins else b.raw["span"]["at"])
    # unregister sibling
    u = ctx.anchor(rid, "unregister", f.body(RC + "unregister"))
    if u:
        ctx.saw(u)
        was = [c for c in u.calls_to("wrapping_add") if _desc_elem(u, c.args[1]) == "id" or _desc_elem(u, c.args[0]) == "id"]
        cont = [c for c in u.calls_to(["slice::contains", "Vec::contains", "HashSet::contains", "HashSet::insert"]) if _desc_elem(u, c.args[1]) == "id"]
        ok = len(was) == 1 and len(cont) == 1
        if ok:
            be = u.branch_on_call(cont[0])
            # bb of `!contains` : a unop Not may sit in between
            guard_ok = False
            for bi in u.reach(cont[0].bb):
                be = u.bool_edges(bi)
                if be:
                    c0 = be[0]
                    neg = False
                    if c0[0] == "unop" and c0[1] == "Not":
                        c0, neg = c0[2], True
                    if c0 == cont[0].result_term():
                        first_seen_edge = be[2] if (cont[0].matches(["slice::contains", "Vec::contains", "HashSet::contains"]) != neg) else be[1]
                        guard_ok = u.dominates(first_seen_edge, was[0].bb)
                        break
            ok = guard_ok
            rm = [c for c in u.calls_to("HashMap::remove") if peel(c.args[0]) == SELF_FIELD("collectors_by_id")]
            acc = [a for a in was[0].args if a[0] == "var"]
            ok = ok and len(rm) == 1 and len(acc) == 1 and peel(rm[0].args[1]) == acc[0]
        if not ok:
            ok = _unregister_sorted_dedup_form(u) is not None
        ctx.ob(rid, "unregister|collector-id", ok, "unregister must compute the collector id as the wrapping sum of the distinct descriptor ids and remove that key", site=u.raw["span"]["at"])


def _unregister_sorted_dedup_form(u):
    """`let mut ids: Vec<u64> = c.desc().iter().map(|d| d.id).collect(); ids.sort(); ids.dedup();` and the collector id the wrapping sum of every element of
    that vector, used as the key removed from collectors_by_id.  Returns the vector's term, or None."""
    from pvrules import seqeval
    from . import hash_common as hc_
    for c in u.calls_to(["Iterator::collect"]):
        sq = seqeval.iter_seq(u, c.args[0])
        if not (sq and len(sq) == 1 and sq[0][0] == "each" and is_call(sq[0][1], "Collector::desc") and sq[0][2] == (("field", "id"),)
                and any(x == P2 for x in subterms(sq[0][1]))):
            continue
        V = c.result_term()
        muts = [x for x in u.calls() if x.args and peel(x.args[0], transparent=["DerefMut::deref_mut"]) == V and
                x.matches(["slice::sort", "slice::sort_unstable", "Vec::dedup", "Vec::push", "Vec::insert", "Vec::remove", "Vec::pop", "Vec::truncate", "Vec::clear", "Vec::retain",
                           "Vec::swap_remove", "Vec::drain", "Vec::append", "Vec::extend", "Extend::extend", "slice::reverse", "Vec::dedup_by_key", "Vec::dedup_by"])]
        sorts = [x for x in muts if x.matches(["slice::sort", "slice::sort_unstable"])]
        ded = [x for x in muts if x.matches("Vec::dedup")]
        if not (len(muts) == 2 and len(sorts) == 1 and len(ded) == 1 and count_range(u, [sorts[0].bb]) == (1, 1) and count_range(u, [ded[0].bb]) == (1, 1)
                and u.dominates(sorts[0].bb, ded[0].bb) and sorts[0].bb != ded[0].bb):
            continue
        was = [x for x in u.calls_to("wrapping_add")]
        rm = [x for x in u.calls_to("HashMap::remove") if peel(x.args[0]) == SELF_FIELD("collectors_by_id")]
        if len(was) != 1 or len(rm) != 1:
            continue
        w = was[0]
        accs = [a for a in w.args if isinstance(a, tuple) and a[0] == "var"]
        elems = [a for a in w.args if not (isinstance(a, tuple) and a[0] == "var")]
        if len(accs) != 1 or len(elems) != 1:
            continue
        e = elem_of(peel(elems[0]))
        if not (e and e[0] == V and not e[2] and not [a for a in e[1] if a not in ("iter", "into_iter", "copied", "cloned")]):
            continue
        alts = u.var_alts(accs[0][1])
        if not (len(alts) == 2 and any(a == w.result_term() for a in alts) and any(a[0] == "const" and a[3] == "0" for a in alts)):
            continue
        if hc_.every_element(u, w) is not True or not u.dominates(ded[0].bb, w.bb) or not u.dominates(w.bb, rm[0].bb) and w.bb not in u.reach(0, avoid_blocks=[rm[0].bb]):
            continue
        if peel(rm[0].args[1]) != accs[0] or not u.dominates(ded[0].bb, rm[0].bb):
            continue
        return V
    return None


def _same_entries_owned(f, t, local):
    """t = local.into_iter().map(|(k, v)| (k.to_owned(), v)): the same entries, keys turned into owned strings (staging map keyed by borrowed names)."""
    t = peel(t, transparent=[])
    if not is_call(t, "Iterator::map"):
        return False
    src = peel(t[2][0], transparent=["IntoIterator::into_iter", "HashMap::into_iter", "HashMap::iter", "HashMap::drain"])
    a = peel(t[2][1], transparent=[])
    cl = f.closure(a[2]) if (isinstance(a, tuple) and a and a[0] == "agg" and a[1] == "closure") else None
    if src != local or cl is None:
        return False
    r = peel(cl.term_local(0), transparent=[])
    own = ["ToOwned::to_owned", "str::to_owned", "ToString::to_string", "String::from", "Into::into", "From::from", "Clone::clone", "str::to_string"]
    if not (isinstance(r, tuple) and r and r[0] == "agg" and r[1] == "tuple" and len(r[3]) == 2):
        return False
    k, v = peel(r[3][0], transparent=own), peel(r[3][1], transparent=["Clone::clone"])
    return k == ("field", ("param", 2), "0") and v == ("field", ("param", 2), "1")


def rule_R3(ctx, f):
    rid = "R3"
    ctx.rule(rid, "commit: on the Vacant arm desc_ids receives the local id set, dim_hashes_by_name the new names and collectors_by_id the collector; "
                  "the Occupied arm returns AlreadyReg; nothing else writes the three fields in register")
    b = f.body(RC + "register")
    if not b:
        return
    ents = [c for c in b.calls_to("HashMap::entry") if peel(c.args[0]) == SELF_FIELD("collectors_by_id")]
    cks = [c for c in b.calls_to("HashMap::contains_key") if peel(c.args[0]) == SELF_FIELD("collectors_by_id")]
    vac = occ = None
    if len(ents) == 1 and not cks:
        si = b.switch_info(ents[0].target)
        if si is not None and si[0][0] == "discr":
            # discriminants: Entry::Occupied = 0, Entry::Vacant = 1
            for v, t in si[1]:
                if v == 0:
                    occ = t
                elif v == 1:
                    vac = t
    elif len(cks) == 1 and not ents:
        # `if collectors_by_id.contains_key(&id) { return Err(AlreadyReg) }` ... insert(id, c)
        be = b.branch_on_call(cks[0])
        if be and be[0] == cks[0].result_term():
            occ, vac = be[1], be[2]
        ents = cks
    else:
        ctx.ob(rid, "register|entry", False, "one test of the collector id against collectors_by_id is expected (entry() or contains_key())", site=b.raw["span"]["at"])
        return
    ctx.ob(rid, "register|entry-match", vac is not None and occ is not None, "the test must distinguish a registered collector id from a new one", site=ents[0].span)
    if vac is None or occ is None:
        return
    errs = [err_variant(b, x) for x in sorted(b.reach_ps(occ)) if err_variant(b, x)]
    ctx.ob(rid, "register|occupied", rejecting(b, occ) and errs == ["AlreadyReg"], "an occupied collector id must return AlreadyReg", site=ents[0].span)
    sites = mutation_sites(b)
    by_field = {}
    for c, fld in sites:
        by_field.setdefault(fld, []).append(c)
    ids_local = [peel(c.args[0]) for c in b.calls_to("HashSet::insert") if self_field_of(c.args[0]) is None]
    ext = by_field.get("desc_ids", [])
    ok = len(ext) == 1 and hasattr(ext[0], "bb") and b.dominates_ps(vac, ext[0].bb) and bool(ids_local)
    if ok and ext[0].matches(["Extend::extend", "HashSet::extend"]):
        ok = peel(ext[0].args[1]) == ids_local[0]
    elif ok and ext[0].matches("HashSet::insert"):
        # `for id in local_set { self.desc_ids.insert(id) }`: every element, unconditionally
        e = elem_of(peel(ext[0].args[1]))
        ok = bool(e) and peel(e[0]) == ids_local[0] and not [a for a in e[1] if a not in ("into_iter", "iter", "drain", "copied", "cloned")] and not e[2]
        if ok:
            nx = [c for c in b.calls_to("Iterator::next") if ext[0].bb in b.reach(c.bb) and (lambda ee: ee and peel(ee[0]) == ids_local[0])(elem_of(("field", ("downcast", c.result_term(), "Some"), "0")))]
            ok = len(nx) == 1
            if ok:
                si2 = b.switch_info(nx[0].target)
                be2 = [t for v, t in si2[1] if v == 1][0]
                ok = b.all_paths_pass(be2, [ext[0].bb], dst_set={nx[0].bb})
    else:
        ok = False
    ctx.ob(rid, "register|commit-ids", ok, "on success desc_ids must receive exactly the local id set (extend, or an unconditional insert of every element) (found %s)" % [show(c.args[1]) if hasattr(c, "args") else c for c in ext],
           site=ext[0].span if ext and hasattr(ext[0], "span") else b.raw["span"]["at"])
    col = by_field.get("collectors_by_id", [])
    ok = len(col) == 1 and hasattr(col[0], "bb") and col[0].matches(["VacantEntry::insert", "HashMap::insert"]) and b.dominates_ps(vac, col[0].bb) and any(s == P2 for s in subterms(col[0].args[-1]))
    ctx.ob(rid, "register|commit-collector", ok, "on success the collector passed in must be inserted into the vacant entry", site=col[0].span if col and hasattr(col[0], "span") else b.raw["span"]["at"])
    dims = by_field.get("dim_hashes_by_name", [])
    names_local = [peel(c.args[0]) for c in b.calls_to("HashMap::insert") if self_field_of(c.args[0]) is None] + \
        [peel(c.args[0]) for c in b.calls_to("HashMap::entry") if self_field_of(c.args[0]) is None and _desc_elem(b, c.args[1]) == "fq_name"]
    ok = len(dims) == 1 and hasattr(dims[0], "bb") and b.dominates_ps(vac, dims[0].bb) and names_local and \
        (peel(dims[0].args[1]) == names_local[0] or _same_entries_owned(f, dims[0].args[1], names_local[0]))
    ctx.ob(rid, "register|commit-dims", ok, "on success dim_hashes_by_name must receive exactly the names collected during this call", site=dims[0].span if dims and hasattr(dims[0], "span") else b.raw["span"]["at"])
    if names_local:
        li = [c for c in b.calls_to("HashMap::insert") if self_field_of(c.args[0]) is None]
        if li:
            okl = len(li) == 1 and _desc_elem(b, li[0].args[1]) == "fq_name" and _desc_elem(b, li[0].args[2]) == "dim_hash"
            lsite = li[0].span
        else:
            # local.entry(fq_name).or_insert(dim_hash)
            le = [c for c in b.calls_to("HashMap::entry") if self_field_of(c.args[0]) is None and _desc_elem(b, c.args[1]) == "fq_name"]
            oi = [o for o in b.calls_to("Entry::or_insert") if le and peel(o.args[0], transparent=[]) == le[0].result_term()]
            okl = len(le) == 1 and len(oi) == 1 and _desc_elem(b, oi[0].args[1]) == "dim_hash"
            lsite = le[0].span if le else b.raw["span"]["at"]
        ctx.ob(rid, "register|local-dims-content", okl, "the local map must record (fq_name, dim_hash) of each descriptor", site=lsite)
    ctx.ob(rid, "register|no-other-writes", set(by_field) <= {"desc_ids", "collectors_by_id", "dim_hashes_by_name"}, "register writes only the three admission fields (found %s)" % sorted(by_field))


def rule_R4(ctx, f):
    rid = "R4"
    ctx.rule(rid, "unregister removes the collector and exactly its ids (the loop over the collected ids calls desc_ids.remove), leaves "
                  "dim_hashes_by_name untouched; crate-wide, dim_hashes_by_name/desc_ids/collectors_by_id are written only by register/unregister")
    u = f.body(RC + "unregister")
    if u:
        sites = mutation_sites(u)
        flds = sorted({fld for _, fld in sites})
        ctx.ob(rid, "unregister|fields", flds == ["collectors_by_id", "desc_ids"], "unregister must mutate exactly collectors_by_id and desc_ids (found %s)" % flds, site=u.raw["span"]["at"])
        rms = [c for c, fld in sites if fld == "desc_ids" and hasattr(c, "bb")]
        ok = len(rms) == 1 and rms[0].matches("HashSet::remove")
        if ok:
            e = elem_of(peel(rms[0].args[1]))
            pushes = [peel(c.args[0]) for c in u.calls_to(["Vec::push", "HashSet::insert"]) if _desc_elem(u, c.args[1]) == "id"]
            ok = bool(e) and pushes and e[0] == pushes[0]
            if not ok and bool(e):
                sd = _unregister_sorted_dedup_form(u)
                from . import hash_common as hc_
                ok = sd is not None and e[0] == sd and not [a for a in e[1] if a not in ("iter", "into_iter", "copied", "cloned", "drain")] and hc_.every_element(u, rms[0]) is True
        ctx.ob(rid, "unregister|removes-its-ids", ok, "unregister must remove from desc_ids every id it collected from c.desc()", site=rms[0].span if rms else u.raw["span"]["at"])
    writers = {}
    for k in f.order:
        bd = f.bodies[k]
        if "RegistryCore" not in bd.path and "registry::Registry" not in bd.path:
            continue
        if not bd.argc or "RegistryCore" not in bd.local_ty(1):
            # stores through a guard in Registry::new_custom
            for bi, si_, pl, rv in bd.stores():
                t = bd.term_place(pl)
                for s in subterms(t):
                    if isinstance(s, tuple) and len(s) == 3 and s[0] == "field" and s[2] in ("dim_hashes_by_name", "desc_ids", "collectors_by_id"):
                        writers.setdefault(s[2], set()).add(strip_generics(bd.path))
            continue
        for c, fld in mutation_sites(bd):
            writers.setdefault(fld, set()).add(strip_generics(bd.path).split("::")[-1])
    ctx.ob(rid, "who-may-write|dim_hashes_by_name", writers.get("dim_hashes_by_name", set()) == {"register"}, "dim_hashes_by_name is written only by register (found %s)" % sorted(writers.get("dim_hashes_by_name", [])))
    ctx.ob(rid, "who-may-write|desc_ids", writers.get("desc_ids", set()) == {"register", "unregister"}, "desc_ids is written only by register/unregister (found %s)" % sorted(writers.get("desc_ids", [])))
    ctx.ob(rid, "who-may-write|collectors_by_id", writers.get("collectors_by_id", set()) == {"register", "unregister"}, "collectors_by_id is written only by register/unregister (found %s)" % sorted(writers.get("collectors_by_id", [])))


def rule_R5(ctx, f):
    rid = "R5"
    ctx.rule(rid, "lock span: Registry::register/unregister call the core method on the write guard of self.r (one acquisition, core call inside it); "
                  "Registry::gather uses the read guard")
    for m, lock in (("register", "RwLock::write"), ("unregister", "RwLock::write"), ("gather", "RwLock::read")):
        b = ctx.anchor(rid, "Registry::" + m, f.body("prometheus::registry::Registry::" + m))
        if not b:
            continue
        ctx.saw(b)
        ls = b.calls_to(["RwLock::read", "RwLock::write"])
        cs = b.calls_to("RegistryCore::" + m)
        ok = len(ls) == 1 and ls[0].matches(lock) and len(cs) == 1
        if ok:
            recv = peel(cs[0].args[0])
            ok = recv == ls[0].result_term() and peel(ls[0].args[0], transparent=["Deref::deref"]) == SELF_FIELD("r") and count_range(b, [cs[0].bb]) == (1, 1)
            if m != "gather":
                ok = ok and peel(cs[0].args[1]) == P2
        ctx.ob(rid, "Registry::%s|under-lock" % m, ok, "Registry::%s must run RegistryCore::%s on the %s guard of self.r, once" % (m, m, lock.split("::")[1]), site=b.raw["span"]["at"])


def _as(ctx, rid, fn, keep=None):
    """Run rules of another property module and record their obligations under rule id `rid` of this property
    (keep: optional predicate on the original key, to take over only the obligations that are necessary for this property)."""
    sub = type(ctx)(ctx.prop, tier=ctx.tier, repo=ctx.repo, quiet=True)
    sub._facts, sub._harness = ctx._facts, ctx._harness
    fn(sub)
    for o in sub.obligations:
        if keep is not None and not keep(o["key"]):
            continue
        o = dict(o)
        orig = o["key"].split("|", 1)
        o["key"] = "%s.%s|%s:%s" % (ctx.prop, rid, orig[0].split(".", 1)[1], orig[1])
        o["rule"] = "%s.%s" % (ctx.prop, rid)
        ctx.obligations.append(o)
    ctx.functions_analysed |= sub.functions_analysed


def run(ctx):
    f = ctx.facts("default")
    for rid, fn in (("R1", rule_R1), ("R2", rule_R2), ("R3", rule_R3), ("R4", rule_R4), ("R5", rule_R5)):
        ctx.run_rule(rid, fn, f)
    # admission compares Desc.id / Desc.dim_hash: "equals a registered descriptor" is exact only if the identity is structural (rules of C15)
    from . import C15
    db = f.body(C15.D)
    if ctx.anchor("R6", "Desc::new", db):
        ctx.rule("R6", "descriptor identity is structural (shared with C15.R1-R3): separators, ordered hash inputs, id = hash(fq_name, const values in name order), dim = hash(help, label names)")
        ctx.run_rule("R6", lambda c: _as(c, "R6", lambda s: (C15.rule_R1(s, f, db), C15.rule_R2(s, f, db), C15.rule_R3(s, f, db))))
    if ctx.tier == "thorough":
        for cfgname in ("plain", "nightlyproc"):
            g = ctx.facts(cfgname)
            ctx.run_rule("R1@" + cfgname, lambda c, _f: rule_R1(c, g), None)
