"""C01 — Counter increments are never lost and never go backwards (structural clause set, DESIGN §4.C01)."""
from pvrules.mir import is_call, peel, show
from pvrules.rules import PURE, SELF_FIELD, const_int, count_range, effect_calls
from . import atomics_common as ac
from . import local_common as lc
from . import vec_common as vc
from . import controls

LEVEL = "other"
EXPLANATION = ("Static MIR rules over src/atomic64.rs, src/value.rs, src/counter.rs: single-cell representation (R1), exactly one atomic "
               "primitive or one delegation per operation (R2), CAS-loop well-formedness of AtomicF64::inc_by (R3), no load-then-store on one "
               "cell anywhere in the crate (R4), exact delegation chain GenericCounter -> Value -> Atomic with operands forwarded unchanged (R5), "
               "local-counter flush hands over once (R6), vector children are built by the same constructor from zero (R7). Under the trusted "
               "base (std atomics: one modification order per cell) these clauses imply that every completed inc/inc_by is one atomic RMW on one "
               "64-bit cell, hence linearizable and monotone; CAS-loop progress (lock-freedom) is not decided.")
ASSUMPTIONS = ["std::sync::atomic primitives are atomic RMWs with a single modification order per cell",
               "rustc MIR construction and name resolution are correct",
               "progress of the CAS retry loop under contention is not decided (lock-freedom, not wait-freedom)"]

C_ = "prometheus::counter::GenericCounter::"


def rule_R5(ctx, f):
    rid = "R5"
    ctx.rule(rid, "exact delegation table: GenericCounter::{inc_by,inc,get,reset} -> Value::{inc_by,inc,get,set(0)} -> Atomic::*, each wrapper "
                  "exactly one call on self.v executed once on every path with operands forwarded unchanged; Collector::collect/Metric::metric "
                  "read through Value once")
    ac.check_wrapper(ctx, rid, f, C_ + "inc_by", "Value::inc_by", ac.V, [ac.P2], key="GenericCounter::inc_by")
    ac.check_wrapper(ctx, rid, f, C_ + "inc", "Value::inc", ac.V, [], key="GenericCounter::inc")
    ac.check_wrapper(ctx, rid, f, C_ + "get", "Value::get", ac.V, [], key="GenericCounter::get", ret_is_call=True)
    ac.check_wrapper(ctx, rid, f, C_ + "reset", "Value::set", ac.V, [ac.from_i64_is(0)], key="GenericCounter::reset")
    ac.rule_value_wrappers(ctx, f, rid, ["inc_by", "inc", "get", "set"])
    ac.rule_number_impls(ctx, f, rid)
    ac.rule_value_metric(ctx, f, rid)
    ac.check_wrapper(ctx, rid, f, "<prometheus::counter::GenericCounter<P> as prometheus::metrics::Metric>::metric", "Value::metric", ac.V, [],
                     key="GenericCounter as Metric::metric", ret_is_call=True)
    b = ctx.anchor(rid, "GenericCounter as Collector::collect",
                   f.body("<prometheus::counter::GenericCounter<P> as prometheus::metrics::Collector>::collect"))
    if b:
        ctx.saw(b)
        cs = b.calls_to("Value::collect")
        ctx.ob(rid, "GenericCounter::collect|one-read", len(cs) == 1 and count_range(b, [cs[0].bb]) == (1, 1) and peel(cs[0].args[0]) == ac.V,
               "Collector::collect for a counter must call Value::collect on self.v exactly once", site=b.raw["span"]["at"])
    vc = ctx.anchor(rid, "Value::collect", f.body("prometheus::value::Value::collect"))
    if vc:
        ctx.saw(vc)
        ms = vc.calls_to("Value::metric")
        ctx.ob(rid, "Value::collect|one-metric", len(ms) == 1 and count_range(vc, [ms[0].bb]) == (1, 1) and peel(ms[0].args[0]) == ac.P1,
               "Value::collect must take exactly one sample via Value::metric(self)", site=vc.raw["span"]["at"])
    # Clone shares the cell
    cl = ctx.anchor(rid, "GenericCounter::clone", f.body("<prometheus::counter::GenericCounter<P> as std::clone::Clone>::clone"))
    if cl:
        ctx.saw(cl)
        r = cl.term_local(0)
        ok = r[0] == "agg" and len(r[3]) == 1 and is_call(r[3][0], "Arc::clone") and peel(r[3][0]) == ac.V
        ctx.ob(rid, "GenericCounter::clone|shares-cell", ok, "a cloned counter must share the same Arc<Value> (found %s)" % show(r), site=cl.raw["span"]["at"])


def rule_R7(ctx, f):
    rid = "R7"
    ctx.rule(rid, "vector children are ordinary counters: CounterVecBuilder::build resolves to GenericCounter::with_opts_and_label_values "
                  "with the requested opts/values, whose initial value is from_i64(0) and whose cell is Atomic::new(initial)")
    ac.check_wrapper(ctx, rid, f, "<prometheus::counter::CounterVecBuilder<P> as prometheus::vec::MetricVecBuilder>::build",
                     "GenericCounter::with_opts_and_label_values", None, [], key="CounterVecBuilder::build", ret_is_call=True)
    b = f.body("<prometheus::counter::CounterVecBuilder<P> as prometheus::vec::MetricVecBuilder>::build")
    if b:
        c = b.calls_to("GenericCounter::with_opts_and_label_values")
        if c:
            ctx.ob(rid, "CounterVecBuilder::build|args", peel(c[0].args[0]) == ("param", 2) and peel(c[0].args[1]) == ("param", 3),
                   "build must pass its opts and label values unchanged", site=c[0].span)
    w = ctx.anchor(rid, "with_opts_and_label_values", f.body(C_ + "with_opts_and_label_values"))
    if w:
        ctx.saw(w)
        vn = w.calls_to("Value::new")
        ok = len(vn) == 1
        if ok:
            a = vn[0].args
            ok = (peel(a[0]) == ("param", 1) and a[1][0] == "agg" and a[1][2].endswith("ValueType::Counter")
                  and is_call(a[2], "Number::from_i64") and const_int(a[2]) == 0 and peel(a[3]) == ("param", 2))
        ctx.ob(rid, "with_opts_and_label_values|Value::new", ok,
               "a counter must be created as Value::new(opts, ValueType::Counter, from_i64(0), label_values)", site=w.raw["span"]["at"])
    vn = ctx.anchor(rid, "Value::new", f.body("prometheus::value::Value::new"))
    if vn:
        ctx.saw(vn)
        news = vn.calls_to("Atomic::new")
        ok = len(news) == 1 and news[0].args[0] == ("param", 3)
        ctx.ob(rid, "Value::new|cell-init", ok, "Value::new must initialise the cell with P::new(val) from its `val` argument", site=vn.raw["span"]["at"])
    for cell in ac.CELLS:
        nb = ctx.anchor(rid, cell + "::new", f.body("<%s%s as %sAtomic>::new" % (ac.A64, cell, ac.A64)))
        if nb:
            ctx.saw(nb)
            r = nb.term_local(0)
            ok = r[0] == "agg" and len(r[3]) == 1 and is_call(r[3][0], "new") and peel(r[3][0][2][0], transparent=["f64_to_u64", "f64::to_bits"]) == ("param", 1)
            ctx.ob(rid, cell + "::new", ok, "%s::new must store its argument in the cell (found %s)" % (cell, show(r)), site=nb.raw["span"]["at"])


def run(ctx):
    f = ctx.facts("default")
    ctx.run_rule("R1", lambda c: ac.rule_R1_cells(c, f))
    loops = ctx.run_rule("R2", lambda c: ac.rule_R2_one_access(c, f)) or []
    ctx.run_rule("R3", lambda c: ac.rule_R3_cas_loop(c, f, loops))
    ctx.run_rule("R4", lambda c: ac.rule_R4_no_nonatomic_rmw(c, [f]))
    ctx.run_rule("R4", lambda c: controls.control_rmw(c, "R4"))
    ctx.run_rule("R5", lambda c: rule_R5(c, f))
    ctx.run_rule("R6", lambda c: lc.rule_local_counter(c, f, "R6"))
    ctx.run_rule("R7", lambda c: rule_R7(c, f))
    # counters that are children of a vector: racing first requests must yield ONE child, or increments on the orphan are lost (shared with C10.R2)
    ctx.run_rule("R8", lambda c: vc.rule_double_checked_creation(c, f, "R8"))
    # counters fed through a local counter VECTOR: a cache entry that survives the removal of the shared child flushes into an orphan (shared with C12.L10)
    from . import C06, C12
    ctx.rule("R9", "local counter vectors never keep a cached local bound to a removed child (shared with C12.L10): remove_label_values drops the local entry before and "
                   "independently of the shared delete; with_label_values caches by the shared hash; new/clone start empty")
    ctx.run_rule("R9", lambda c: C06._as(c, "R9", lambda s_: C12.rule_vec_forms(s_, f, "L10"), keep=lambda k: "GenericLocalCounterVec::" in k))
    # "never go backwards": the public API of a counter offers no way to decrease it (rustc as the oracle)
    from pvrules import witness
    ctx.run_rule("R10", lambda c: witness.rule_witnesses(c, "R10", "c01_", 3))
    if ctx.tier == "thorough":
        for cfgname in ("plain", "nightlyproc", "push"):
            g = ctx.facts(cfgname)
            ctx.run_rule("R2@" + cfgname, lambda c: ac.rule_R3_cas_loop(c, g, ac.rule_R2_one_access(c, g, rid="R2@" + cfgname) or [], rid="R3@" + cfgname))
            ctx.run_rule("R4@" + cfgname, lambda c: ac.rule_R4_no_nonatomic_rmw(c, [g], rid="R4@" + cfgname))
