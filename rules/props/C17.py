"""C17 — Fallible APIs report bad input as Err and do not panic (DESIGN §4.C17)."""
import re

from pvrules.mir import chain, is_call, peel, show, strip_generics, subterms
from pvrules.rules import const_int, elem_of

LEVEL = "other"
EXPLANATION = ("Static call-graph + MIR rule: entry points are all public functions/methods of the crate whose return type is Result<_, prometheus::Error>; over the call graph "
               "(trait-method calls on type parameters fan out to every impl in the crate, dyn Collector calls to every Collector impl, closures to their defining body) every reachable "
               "panic site — call of core::panicking::*, unwrap/expect family, Index/IndexMut and slicing, split_at, RefCell borrows, other std APIs documented to panic, and MIR Assert "
               "terminators (overflow, bounds, division) — must be discharged, either by an automatic local idiom (unwrap dominated by an is_some/is_none test of the same value, constant "
               "index into a fixed array, `len - 1`/`i + 1` arithmetic that cannot overflow for in-memory lengths) or by an entry of the frozen reasoned table below keyed by "
               "(function, kind, callee, ordinal). Any other reachable site is a violation naming the call chain from an entry point.")
ASSUMPTIONS = ["debug_assert!-only panics are not counted (they are compiled out of release builds)", "allocation failure / capacity overflow is not a panic site ('arguments of bounded size')", "user-supplied AsRef<str>/Debug/closures/custom Collectors do not panic",
               "external crates (protobuf, memchr, parking_lot, fnv) do not panic on the calls made", "lock poisoning cannot occur because no panic happens under a lock (this same rule)"]

PANIC_CALLEES = [
    re.compile(r"^core::panicking::"), re.compile(r"^std::rt::begin_panic"), re.compile(r"^core::panic::"), re.compile(r"^std::panicking::"),
    "Option::unwrap", "Option::expect", "Result::unwrap", "Result::expect", "Result::unwrap_err", "Result::expect_err",
    "Index::index", "IndexMut::index_mut", "str::split_at", "str::split_at_mut", "slice::split_at", "slice::split_at_mut", "slice::swap", "slice::copy_from_slice",
    "slice::clone_from_slice", "slice::chunks", "slice::chunks_exact", "slice::windows", "slice::rotate_left", "slice::rotate_right", "slice::select_nth_unstable",
    "Vec::remove", "Vec::insert", "Vec::swap_remove", "Vec::drain", "Vec::split_off", "Vec::extend_from_within", "String::remove", "String::insert", "String::insert_str",
    "String::truncate", "String::drain", "String::replace_range", "String::split_off", "VecDeque::remove", "VecDeque::swap", "VecDeque::insert",
    "RefCell::borrow", "RefCell::borrow_mut", "Duration::from_secs_f64", "Duration::from_secs_f32", "Duration::mul_f64", "Duration::div_f64",
    "Iterator::step_by", "Iterator::sum", "Iterator::product", "char::from_digit", "LocalKey::with", "i64::abs", "i64::pow", "u64::pow", "usize::pow", "u64::next_power_of_two", "usize::next_power_of_two",
    "u64::div_euclid", "i64::div_euclid", "i64::rem_euclid", "u64::rem_euclid", "Any::downcast", "JoinHandle::join", "str::repeat", "slice::repeat", "slice::concat",
    re.compile(r"<std::time::(Duration|Instant|SystemTime) as std::ops::(Add|Sub|Mul|Div|AddAssign|SubAssign)"),
    re.compile(r"<.* as std::ops::(Div|Rem|DivAssign|RemAssign)<.*>>::(div|rem|div_assign|rem_assign)$"),
]
ASSERT_KINDS = ("Overflow", "BoundsCheck", "DivisionByZero", "RemainderByZero", "OverflowNeg", "MisalignedPointerDereference", "NullPointerDereference")

# ---- frozen, reasoned table of discharged sites: key -> reason.  Keys carry no line numbers.
DISCHARGED = {
    "prometheus::desc::Desc::new|call|std::option::Option::unwrap#0":
        "const_labels.get(label_name).unwrap(): label_name iterates the BTreeSet that at this point holds exactly the keys of const_labels (the '$'-prefixed variable names are "
        "inserted later), so the lookup always succeeds (C15.R3 checks the set's content and order of construction)",
    "prometheus::encoder::text::escape_string|call|<str as std::ops::Index<std::ops::Range<usize>>>::index#0":
        "v[0..first]: `first` is the memchr position of an ASCII needle in v itself, hence <= len and on a char boundary (C04.R2 checks that first = find_first_occurence(v, flag) "
        "and that the needles are searched in v)",
    "prometheus::encoder::text::escape_string|call|<str as std::ops::Index<std::ops::RangeFrom<usize>>>::index#0":
        "v[first..]: same `first` as above (position of an ASCII byte of v)",
    "prometheus::histogram::check_and_adjust_buckets|assert|Overflow#0":
        "buckets.len() - 1: the list is non-empty here because an empty list was replaced by the 11 DEFAULT_BUCKETS before the loop (C08.R3 checks the fill and that it dominates the loop)",
    "prometheus::histogram::check_and_adjust_buckets|call|std::option::Option::unwrap#0":
        "buckets.last().unwrap(): non-empty for the same reason (default fill; the validation loop removes nothing)",
    "prometheus::histogram::check_and_adjust_buckets|call|<std::vec::Vec<f64> as std::ops::Index<usize>>::index#1":
        "buckets[i + 1] inside the error message of the branch already guarded by i < len - 1",
    "<prometheus::registry::DEFAULT_REGISTRY as std::ops::Deref>::deref::__static_ref_initialize|call|std::result::Result::unwrap#0":
        "initialiser of the default registry: registers the built-in process collector (or nothing, without the `process` feature) into a freshly created, empty registry without "
        "common labels; register can only fail on a duplicate id, a dim-hash mismatch or a label clash, none of which is possible on an empty registry for a collector whose "
        "descriptors have pairwise distinct names — independent of any caller-supplied argument",
    "prometheus::value::make_label_pairs|assert|BoundsCheck#0":
        "label_values[i]: i enumerates desc.variable_labels and the function returned InconsistentCardinality unless label_values.len() == variable_labels.len() (C05.R5 'cardinality')",
    "prometheus::histogram::LocalHistogram::clear|call|std::cell::RefCell::borrow_mut#0":
        "RefCell borrow of a !Sync handle: every borrow in LocalHistogram is a temporary released before the method returns and LocalHistogramCore methods never receive the handle, "
        "so no borrow is live when another starts",
}


def entry_points(f):
    res = []
    for k in f.order:
        b = f.bodies[k]
        r = b.raw
        if r.get("vis") != "pub":
            continue
        out = r.get("output", "")
        if not (out.startswith("std::result::Result<") and out.rstrip(">").endswith("prometheus::errors::Error")):
            continue
        # methods of private types are not reachable from outside: keep everything `pub` (over-approximation is harmless)
        if "::tests::" in b.path or "::test::" in b.path:
            continue
        if b.path.startswith("prometheus::push::"):
            continue   # the push gateway client (feature `push`, network I/O) is not among the APIs the property lists
        res.append(k)
    return res


# bodies whose callees are not followed: initialisers of lazy statics run once per process and do not depend on any API argument
# (the property quantifies over argument values); their own panic sites are still checked (table entries above).
CUTS = [re.compile(r"::__static_ref_initialize$")]


def reachable_with_cuts(f, roots):
    from collections import deque
    cg = f.call_graph()
    seen, parent = set(), {}
    dq = deque()
    for r in roots:
        if r not in seen:
            seen.add(r)
            parent[r] = None
            dq.append(r)
    while dq:
        x = dq.popleft()
        if any(c.search(f.bodies[x].path) for c in CUTS):
            continue
        for y in cg.get(x, ()):
            if y not in seen:
                seen.add(y)
                parent[y] = x
                dq.append(y)
    return seen, parent


def panic_sites(b):
    """[(kind, name, ordinal, site span, detail term)] for one body."""
    res = []
    counts = {}

    def add(kind, name, span, detail=None, bb=None):
        o = counts.get((kind, name), 0)
        counts[(kind, name)] = o + 1
        res.append({"kind": kind, "name": name, "ord": o, "span": span, "detail": detail, "bb": bb})
    for c in b.calls():
        if c.matches(["Iterator::sum", "Iterator::product"]) and re.search(r"::<f(32|64)>$", c.callee_args):
            continue   # floating-point sums do not overflow-panic
        if c.matches(PANIC_CALLEES):
            add("call", strip_generics(c.callee_args if c.matches(["Index::index", "IndexMut::index_mut"]) else c.callee), c.span, c, c.bb)
    for bi in sorted(b.reachable_blocks()):
        t = b.blocks[bi]["term"]
        if t["k"] == "assert" and not b.blocks[bi].get("cleanup"):
            kind = re.split(r"[ ({]", t["msg"])[0]
            if kind in ("MisalignedPointerDereference", "NullPointerDereference"):
                continue   # debug-build pointer checks inserted by rustc for references derived from safe code
            add("assert", kind, t["sp"]["at"], b.term_operand(t["cond"]), bi)
    return res


def _len_of(t):
    """the collection whose length t is (`x.len()`, or the slice metadata MIR reads for an index check), else None"""
    t = peel(t)
    if is_call(t, ["slice::len", "Vec::len", "str::len", "String::len"]) and t[2]:
        return peel(t[2][0], transparent=["Deref::deref", "Vec::as_slice", "str::as_bytes", "String::as_bytes"])
    if isinstance(t, tuple) and len(t) == 3 and t[0] == "unop" and t[1] == "PtrMetadata":
        return peel(t[2], transparent=["Deref::deref", "Vec::as_slice", "str::as_bytes", "String::as_bytes"])
    return None


def _guarded_by_index_test(b, site_bb, idx, coll):
    """The block lies behind the true edge of `idx < coll.len()`, and `idx` is not written between that test and the block (a `while i < xs.len() { .. xs[i] ..; i += 1 }`)."""
    if not (isinstance(idx, tuple) and len(idx) == 2 and idx[0] == "var"):
        return False
    dblocks = {d[1] for d in b.defs().get(idx[1], [])}
    for bi in b.reachable_blocks():
        be = b.bool_edges(bi)
        if not be or be[0][0] != "binop" or be[0][1] != "Lt" or peel(be[0][2]) != idx or _len_of(be[0][3]) != coll or coll is None:
            continue
        if not b.edge_dominates(bi, be[1], site_bb):
            continue
        region = {x for x in b.reach(be[1], avoid_blocks=[site_bb]) if site_bb in b.reach(x, avoid_blocks=[bi])}
        if not (dblocks & region):
            return True
    return False


def auto_discharge(f, b, s):
    """Local idioms that make a site unreachable or non-panicking; returns a reason or None."""
    if s["kind"] == "call":
        c = s["detail"]
        chain = (c.t.get("sp") or {}).get("macros") or (c.t.get("fnsp") or {}).get("macros") or []
        if any(re.search(r'"debug_assert(_eq|_ne)?"', m) for m in chain):
            # a development aid that is compiled out of release builds; the property is about the behaviour the assertions document
            return "debug_assert!: not part of the shipped behaviour (assumption: debug assertions hold)"
        if c.matches(["Option::unwrap", "Option::expect", "Result::unwrap", "Result::expect"]):
            v = peel(c.args[0], transparent=["Option::cloned", "Option::copied", "Option::as_ref", "Option::as_mut"])
            # dominated by is_some/is_ok (true edge) or is_none/is_err (false edge) of the same value
            for bi in b.reachable_blocks():
                be = b.bool_edges(bi)
                if not be:
                    continue
                cnd, tt, tf = be
                if cnd[0] == "unop" and cnd[1] == "Not":
                    cnd, tt, tf = cnd[2], tf, tt
                if is_call(cnd, ["Option::is_some", "Result::is_ok"]) and peel(cnd[2][0]) == v and b.edge_dominates(bi, tt, c.bb):
                    return "unwrap dominated by the true edge of is_some/is_ok of the same value"
                if is_call(cnd, ["Option::is_none", "Result::is_err"]) and peel(cnd[2][0]) == v and b.edge_dominates(bi, tf, c.bb):
                    return "unwrap dominated by the false edge of is_none/is_err of the same value"
        if c.matches(["RefCell::borrow", "RefCell::borrow_mut"]) and re.search(r"LocalHistogram|GenericLocalCounter", b.path):
            # a !Sync handle whose every borrow is a temporary of one method: with a single borrow in the body nothing else can hold the cell
            same = [x for x in b.calls_to(["RefCell::borrow", "RefCell::borrow_mut"]) if peel(x.args[0]) == peel(c.args[0])]
            own = peel(c.args[0])
            if len(same) == 1 and isinstance(own, tuple) and own[0] == "field" and peel(own[1]) in (("param", 1), ("deref", ("param", 1))):
                return "the only RefCell borrow of this field in a method of a !Sync local metric (no other borrow can be live)"
        if c.matches(["Index::index"]) and "HashMap<std::string::String, std::string::String>" in c.callee_args and b.path.startswith("prometheus::desc::Desc::new"):
            return ("const_labels[name] inside Desc::new: the names come from the set that holds exactly the keys of const_labels at that point "
                    "(C15.R3 `id|sources` and `id|values-before-variable-names` check the set's content and the order of construction)")
        if c.matches(["str::split_at", "Index::index"]) and len(c.args) == 2:
            # slicing a string at the position memchr found an ASCII needle in that same string: in range and on a char boundary
            recv = peel(c.args[0])
            poss = [x for x in subterms(c.args[1]) if isinstance(x, tuple) and x and x[0] == "call" and is_call(x, ["find_first_occurence", "memchr", "memchr2", "memchr3", "memchr::memchr", "memchr::memchr2", "memchr::memchr3"])]
            if len(poss) == 1 and ("str" in c.callee_args) and peel(poss[0][2][0] if is_call(poss[0], "find_first_occurence") else poss[0][2][-1], transparent=["str::as_bytes", "String::as_bytes"]) == recv:
                only_pos = [x for x in subterms(c.args[1]) if isinstance(x, tuple) and x and x[0] == "call" and x is not poss[0] and x != poss[0]]
                if not only_pos:
                    return "string sliced at the memchr position of an ASCII needle found in the same string"
        if c.matches(["slice::windows", "slice::chunks", "slice::chunks_exact"]) and len(c.args) == 2 and (const_int(c.args[1]) or 0) > 0:
            return "windows/chunks with a non-zero constant size does not panic"
        if c.matches(["Index::index", "IndexMut::index_mut"]) and len(c.args) == 2:
            coll, idx = peel(c.args[0]), peel(c.args[1])

            def is_len(t, minus=0):
                t = peel(t)
                if minus == 0:
                    return is_call(t, ["Vec::len", "slice::len"]) and peel(t[2][0]) == coll
                return t[0] == "field" and t[1][0] == "binop" and t[1][1] in ("SubWithOverflow", "Sub") and is_len(t[1][2]) and const_int(t[1][3]) == minus

            def plus(t, k):
                t = peel(t)
                if k == 0:
                    return t
                if t[0] == "field" and t[1][0] == "binop" and t[1][1] in ("AddWithOverflow", "Add") and const_int(t[1][3]) == k:
                    return peel(t[1][2])
                return None
            for bi in b.reachable_blocks():
                be = b.bool_edges(bi)
                if not be or be[0][0] != "binop" or be[0][1] != "Lt":
                    continue
                x, y = be[0][2], be[0][3]
                if not b.edge_dominates(bi, be[1], c.bb):
                    continue
                if peel(x) == idx and is_len(y):
                    return "index dominated by `i < len` of the same collection"
                if plus(idx, 1) is not None and peel(x) == plus(idx, 1) and is_len(y, 1):
                    return "index i+1 dominated by `i < len - 1` of the same collection"
            e = elem_of(idx)
            if e and "enumerate" in e[1] and e[2] == ["0"] and peel(e[0]) == coll:
                return "index is the enumeration index of the same collection"
    if s["kind"] == "assert":
        cond = s["detail"]
        chain_a = ((b.blocks[s["bb"]]["term"].get("sp") or {}).get("macros")) or []
        if any(re.search(r'"debug_assert(_eq|_ne)?"', m) for m in chain_a):
            return "inside debug_assert!: not part of the shipped behaviour (assumption: debug assertions hold)"
        if s["name"] == "BoundsCheck":
            # constant index into a fixed-size array, or index masked/derived from a 2-valued enum
            t = b.blocks[s["bb"]]["term"]
            cnd = b.term_operand(t["cond"])
            if cnd[0] == "binop" and cnd[1] == "Lt":
                i, n = cnd[2], cnd[3]
                if const_int(n) is not None and const_int(i) is not None and const_int(i) < const_int(n):
                    return "constant index below the constant array length"
                if _len_of(n) is not None and _guarded_by_index_test(b, s["bb"], peel(i), _len_of(n)):
                    return "index behind the true edge of `i < len` of the same collection, not written in between"
                if const_int(i) is not None and isinstance(n, tuple) and len(n) == 3 and n[0] == "unop" and n[1] == "PtrMetadata":
                    # element of `slice.windows(k)` / `chunks_exact(k)`: its length is k
                    w = peel(n[2])
                    if isinstance(w, tuple) and len(w) == 3 and w[0] == "field" and isinstance(w[1], tuple) and w[1][0] == "downcast" and w[1][2] == "Some" and is_call(peel(w[1][1], transparent=[]), "Iterator::next"):
                        src = peel(peel(w[1][1], transparent=[])[2][0], transparent=["IntoIterator::into_iter"])
                        if is_call(src, ["slice::windows", "slice::chunks_exact"]) and const_int(src[2][1]) is not None and const_int(i) < const_int(src[2][1]):
                            return "constant index below the constant window size"
                if const_int(n) == 2:
                    ii = i
                    if ii[0] == "cast":
                        ii = ii[2]
                    if ii[0] == "discr" or is_call(ii, "From::from"):
                        return "index is the 0/1 discriminant of the two-valued ShardIndex into the two-element shard array"
        if s["name"] == "Overflow":
            t = b.blocks[s["bb"]]["term"]
            cnd = b.term_operand(t["cond"])
            # shifts by a constant smaller than the width
            if cnd[0] == "binop" and cnd[1] == "Lt" and const_int(cnd[2]) is not None and const_int(cnd[3]) is not None and const_int(cnd[2]) < const_int(cnd[3]):
                return "shift amount is a constant below the bit width"
            if cnd[0] == "field" and cnd[1][0] == "binop":
                op, x, y = cnd[1][1], cnd[1][2], cnd[1][3]
                if op == "SubWithOverflow" and const_int(x) is not None and const_int(y) is not None and const_int(x) >= const_int(y):
                    return "constant subtraction"
                if op == "AddWithOverflow" and const_int(y) == 1 and (elem_of(peel(x)) or is_call(peel(x), ["Vec::len", "slice::len", "HashMap::len", "str::len", "String::len", "HashSet::len", "BTreeMap::len", "BTreeSet::len", "VecDeque::len"])):
                    return "index or length of an in-memory collection + 1 cannot overflow usize"
                if op == "AddWithOverflow" and all(is_call(peel(z), ["Vec::len", "slice::len", "HashMap::len", "str::len", "String::len", "HashSet::len", "BTreeMap::len", "BTreeSet::len", "VecDeque::len"]) for z in (x, y)):
                    return "sum of two in-memory collection lengths cannot overflow usize"
                if op == "AddWithOverflow" and const_int(y) == 1 and isinstance(peel(x), tuple) and peel(x)[0] == "var":
                    # `i += 1` behind `i < xs.len()`: i + 1 <= len, and lengths of in-memory collections are far below usize::MAX
                    for bi_ in b.reachable_blocks():
                        be_ = b.bool_edges(bi_)
                        if be_ and be_[0][0] == "binop" and be_[0][1] == "Lt" and peel(be_[0][2]) == peel(x) and _len_of(be_[0][3]) is not None \
                                and _guarded_by_index_test(b, s["bb"], peel(x), _len_of(be_[0][3])):
                            return "increment of an index that is below the length of an in-memory collection"
                if op == "AddWithOverflow":
                    LEN = ["Vec::len", "slice::len", "HashMap::len", "str::len", "String::len", "HashSet::len", "BTreeMap::len", "BTreeSet::len", "VecDeque::len"]

                    def leaves(z, depth=0):
                        """number of collection lengths in a sum of lengths and small constants; None when z is anything else"""
                        z = peel(z)
                        if is_call(z, LEN):
                            return 1
                        if const_int(z) is not None:
                            return 0 if 0 <= const_int(z) < (1 << 32) else None
                        if depth < 8 and z[0] == "field" and str(z[2]) == "0" and z[1][0] == "binop" and z[1][1] in ("AddWithOverflow", "Add"):
                            l_, r_ = leaves(z[1][2], depth + 1), leaves(z[1][3], depth + 1)
                            return None if l_ is None or r_ is None else l_ + r_
                        return None
                    lx, ly = leaves(x), leaves(y)
                    if lx is not None and ly is not None and 0 < lx + ly <= 8:
                        return "sum of at most 8 lengths of in-memory collections and constants below 2^32: cannot overflow usize for arguments of bounded size (each length below 2^60; the property's own bound)"
                if op == "MulWithOverflow" and is_call(peel(x), ["str::len", "String::len", "Vec::len"]) and const_int(y) == 2:
                    return "twice the length of an in-memory string cannot overflow usize (allocations are limited to isize::MAX bytes)"
    return None


def site_key(b, s):
    return "%s|%s|%s#%d" % (strip_generics(b.path), s["kind"], s["name"], s["ord"])


def analyse(ctx, f, rid, suffix=""):
    eps = entry_points(f)
    ctx.floor(rid, "public Result-returning entry points" + suffix, len(eps), 22)
    reach, parent = reachable_with_cuts(f, eps)
    ctx.extra["entry_points" + suffix] = [strip_generics(f.bodies[k].path) for k in eps]
    ctx.extra["reachable_bodies" + suffix] = len(reach)
    n_sites = n_auto = n_table = 0
    unused = set(DISCHARGED)
    # closures that only compute the condition of a debug_assert! (`debug_assert!(xs.windows(2).all(|w| w[0] < w[1]))`): not part of the shipped behaviour either
    debug_only = set()
    for k in f.order:
        b = f.bodies[k]
        for c in b.calls():
            chain_c = (c.t.get("sp") or {}).get("macros") or (c.t.get("fnsp") or {}).get("macros") or []
            if not (c.matches(PANIC_CALLEES) and any(re.search(r'"debug_assert(_eq|_ne)?"', m) for m in chain_c)):
                continue
            for bi in b.reachable_blocks():
                be = b.bool_edges(bi)
                if be and (b.edge_dominates(bi, be[1], c.bb) or b.edge_dominates(bi, be[2], c.bb)) and c.bb in (set(b.reach(be[1])) ^ set(b.reach(be[2]))):
                    for s_ in subterms(be[0]):
                        if isinstance(s_, tuple) and len(s_) >= 3 and s_[0] == "agg" and s_[1] == "closure":
                            cb_ = f.closure(s_[2])
                            if cb_ is not None:
                                debug_only.add(cb_.path)
    for k in f.order:
        if k not in reach:
            continue
        b = f.bodies[k]
        if b.path in debug_only or any(b.path.startswith(p_ + "::{closure") for p_ in debug_only):
            continue
        sites = panic_sites(b)
        if sites:
            ctx.saw(b)
        for s in sites:
            n_sites += 1
            key = site_key(b, s)
            auto = auto_discharge(f, b, s)
            if auto:
                n_auto += 1
                ctx.ob(rid, key + suffix, True, "discharged automatically: " + auto, site=s["span"])
                continue
            # `.expect("..")` and `.unwrap()` are the same panic site (both fail on None / Err): one table entry covers either spelling
            tkey = key if key in DISCHARGED else key.replace("::expect#", "::unwrap#")
            if tkey in DISCHARGED:
                n_table += 1
                unused.discard(tkey)
                ctx.ob(rid, key + suffix, True, "discharged (table): " + DISCHARGED[tkey], site=s["span"])
                continue
            ch = " -> ".join(strip_generics(f.bodies[x].path).replace("prometheus::", "") for x in chain(parent, k)[-6:])
            det = ""
            if s["kind"] == "call":
                det = " args=%s" % [show(a)[:80] for a in s["detail"].args[:2]]
            else:
                det = " cond=%s" % show(s["detail"])[:160]
            ctx.ob(rid, key + suffix, False,
                   "a panic site (%s %s) is reachable from a fallible public API and is not discharged: %s;%s — invalid or unsupported input must be reported as Err" % (
                       s["kind"], s["name"], ch, det), site=s["span"])
    ctx.extra["panic_sites" + suffix] = {"total": n_sites, "auto": n_auto, "table": n_table}
    if unused and not suffix:
        ctx.note("table entries not needed on this tree (site gone or discharged automatically): %s" % sorted(unused))
    return unused


def run(ctx):
    ctx.rule("R1", "panic-site reachability: no panic site reachable from a public Result-returning API except automatically discharged idioms and the frozen reasoned table")
    f = ctx.facts("default")
    ctx.run_rule("R1", lambda c: analyse(c, f, "R1"))
    from . import controls
    ctx.run_rule("R1", lambda c: controls.control_panics(c, "R1"))
    # "returns Err for invalid arguments": the rejecting edges themselves (each is a rule of the property that owns the validator)
    from . import C05, C06, C08, C09, C13
    ctx.rule("R2", "invalid input is rejected with Err (shared rules): label cardinality / missing names in the vector lookups (C05.R4); metric and label names, empty help, duplicate and "
                   "reserved labels (C09.R1-R5); bucket lists and bucket helpers (C08.R1, R2, R6); duplicate / inconsistent registration and unknown collectors (C06.R2); "
                   "families without name or samples in both encoders (C13.R1, C04 via check_metric_family)")
    from . import C12 as _C12
    ctx.run_rule("R2", lambda c: C06._as(c, "R2", lambda s_: _C12.rule_vec_forms(s_, f, "L10"), keep=lambda k: "remove_label_values" in k))
    ctx.run_rule("R2", lambda c: C06._as(c, "R2", lambda s_: (C05.rule_R4(s_, f), C09.rule_R1(s_, f), C09.rule_R2(s_, f), C09.rule_R3(s_, f), C09.rule_R4(s_, f), C09.rule_R5(s_, f),
                                                              C08.rule_R1_R2(s_, f), C08.rule_R6(s_, f), C06.rule_R2(s_, f), C13.rule_R1(s_, f))))
    if ctx.tier == "thorough":
        for cfgname in ("plain", "nightlyproc", "push"):
            g = ctx.facts(cfgname)
            ctx.run_rule("R1@" + cfgname, lambda c: analyse(c, g, "R1", suffix="@" + cfgname))
