"""C10 — Concurrent use of a metric vector is linearizable (structural clause set, DESIGN §4.C10)."""
from . import vec_common as vc

LEVEL = "other"
EXPLANATION = ("Static MIR rules over src/vec.rs: the children map is reachable only through its RwLock (R1, type level + every use site); creation is "
               "double-checked under one write guard and returns the inserted child (R2); no guard is live across another acquisition of the same lock, "
               "the read guard of the fast path is dropped before get_or_create_metric (R3); delete_label_values/delete/reset/collect are single critical "
               "sections doing all map work under one guard, collect emits one sample per child (R4). With each operation's effect on the abstract map "
               "inside one critical section of one RwLock, that section is its linearization point; updates through handles are C01/C11.")
ASSUMPTIONS = ["parking_lot::RwLock provides mutual exclusion (writer) / shared access (readers)", "handles are Arc-backed clones (C01.R5/C11.R5), so they stay usable after removal"]


def run(ctx):
    f = ctx.facts("default")
    ctx.run_rule("R1", lambda c: vc.rule_all_access_through_lock(c, f, "R1"))
    ctx.run_rule("R2", lambda c: vc.rule_double_checked_creation(c, f, "R2"))
    ctx.run_rule("R3", lambda c: vc.rule_no_guard_across_acquisition(c, f, "R3"))
    ctx.run_rule("R4", lambda c: vc.rule_single_critical_section(c, f, "R4"))
    # the abstract object is a map from label VALUES to children: the map key must be the same function of the values on both request
    # forms, over every value (shared with C05.R1/R2) — otherwise one tuple has two children and a collection shows it twice
    from . import C05, C06
    ctx.rule("R6", "the map key is an injective, form-independent function of the label values (shared with C05.R1, C05.R2): separators, every value hashed, "
                   "slice form and map form agree")
    ctx.run_rule("R6", lambda c: C06._as(c, "R6", lambda s: (C05.rule_R1(s, f), C05.rule_R2(s, f))))
    if ctx.tier == "thorough":
        g = ctx.facts("plain")
        ctx.run_rule("R2@plain", lambda c: vc.rule_double_checked_creation(c, g, "R2@plain"))
        ctx.run_rule("R3@plain", lambda c: vc.rule_no_guard_across_acquisition(c, g, "R3@plain"))
