"""C14 — A gathered family never mixes metric types (DESIGN §4.C14)."""
from pvrules.mir import is_call, peel, show, strip_generics, subterms
from pvrules.rules import SELF_FIELD, agg_field, count_range, find_aggs, ok_payloads
from . import C07

LEVEL = "other"
EXPLANATION = ("Static MIR rules: the merge of two same-name families in RegistryCore::gather must be guarded by a comparison of their types or types must be "
               "part of admission (R1 — today neither holds: known finding D4); every library collector declares the type that matches the payload it fills: "
               "ValueType -> MetricType table and the payload setter chosen in Value::metric agree arm by arm, Histogram <-> HISTOGRAM/set_histogram, "
               "PullingGauge <-> GAUGE/from_gauge, each *Vec::new passes the MetricType constant matching its builder and MetricVecCore::collect reports the "
               "stored type (R2); the text encoder reads the payload selected by the family type (R3, same rule as C04.R3).")
ASSUMPTIONS = ["custom Collector implementations outside the crate are out of scope (the property quantifies over this library's collectors)"]
P1 = ("param", 1)


def agg_variant(t):
    if isinstance(t, tuple) and t and t[0] == "agg" and t[1] == "adt":
        return t[2].split("::")[-1]
    return None


def arm_map(b, discr_pred):
    """For the switch on a discriminant satisfying discr_pred: {variant index: target block}."""
    for bi in b.reachable_blocks():
        si = b.switch_info(bi)
        if si and si[0][0] == "discr" and discr_pred(si[0][1]):
            return bi, {v: t for v, t in si[1]}, si[2]
    return None, {}, None


def rule_R2(ctx, f):
    rid = "R2"
    ctx.rule(rid, "declared type matches payload for every library collector (arm-by-arm agreement of ValueType::metric_type and Value::metric; constants at "
                  "Histogram/PullingGauge/…Vec::new; MetricVecCore stores and reports the type it was created with)")
    vt = ctx.anchor(rid, "ValueType", f.adt("prometheus::value::ValueType"))
    variants = [v["name"] for v in vt["variants"]] if vt else []
    mt = ctx.anchor(rid, "ValueType::metric_type", f.body("prometheus::value::ValueType::metric_type"))
    type_of = {}
    if mt:
        ctx.saw(mt)
        bi, arms, _ = arm_map(mt, lambda t: peel(t) == P1)
        for v, tgt in arms.items():
            for st in mt.blocks[tgt]["stmts"]:
                if st["k"] == "assign" and st["pl"]["l"] == 0:
                    type_of[variants[v]] = agg_variant(mt.term_rvalue(st["rv"]))
        ctx.ob(rid, "ValueType::metric_type|table", type_of == {"Counter": "COUNTER", "Gauge": "GAUGE"},
               "ValueType::metric_type must map Counter->COUNTER and Gauge->GAUGE (found %s)" % type_of, site=mt.raw["span"]["at"])
    vm = ctx.anchor(rid, "Value::metric", f.body("prometheus::value::Value::metric"))
    if vm:
        ctx.saw(vm)
        bi, arms, _ = arm_map(vm, lambda t: peel(t) == SELF_FIELD("val_type"))
        setter_of = {}
        for v, tgt in arms.items():
            r = vm.reach(tgt, avoid_blocks=[t for vv, t in arms.items() if vv != v])
            ss = {strip_generics(c.callee).split("::")[-1] for c in vm.calls() if c.bb in r and c.matches(["set_counter", "set_gauge", "set_histogram", "set_summary", "set_untyped"])
                  and not any(c.bb in vm.reach(t2) for v2, t2 in arms.items() if v2 != v)}
            setter_of[variants[v]] = sorted(ss)
        ctx.ob(rid, "Value::metric|payload-table", setter_of == {"Counter": ["set_counter"], "Gauge": ["set_gauge"]},
               "Value::metric must fill the counter payload for ValueType::Counter and the gauge payload for ValueType::Gauge (found %s)" % setter_of, site=vm.raw["span"]["at"])
    vcol = ctx.anchor(rid, "Value::collect", f.body("prometheus::value::Value::collect"))
    if vcol:
        ctx.saw(vcol)
        st = type_sites(vcol)
        ok = len(st) == 1 and is_call(_ty(st[0]), "ValueType::metric_type") and peel(_ty(st[0])[2][0]) == SELF_FIELD("val_type") and count_range(vcol, [st[0].bb]) == (1, 1)
        ctx.ob(rid, "Value::collect|type-from-val_type", ok, "Value::collect must declare metric_type(self.val_type)", site=vcol.raw["span"]["at"])
    # constructors pick the ValueType
    for ty, path, vt_name in (("GenericCounter", "prometheus::counter::GenericCounter::with_opts_and_label_values", "Counter"),
                              ("GenericGauge", "prometheus::gauge::GenericGauge::with_opts_and_label_values", "Gauge")):
        b = ctx.anchor(rid, ty + "::with_opts_and_label_values", f.body(path))
        if b:
            ctx.saw(b)
            vn = b.calls_to("Value::new")
            ok = len(vn) == 1 and agg_variant(vn[0].args[1]) == vt_name
            ctx.ob(rid, ty + "|value-type", ok, "%s must be built with ValueType::%s" % (ty, vt_name), site=b.raw["span"]["at"])
    vnew = f.body("prometheus::value::Value::new")
    if vnew:
        r = [a for t in ok_payloads(vnew) for a in find_aggs(t, "Value::Value")]
        ok = bool(r) and agg_field(r[0], "val_type") == ("param", 2)
        ctx.ob(rid, "Value::new|stores-val_type", ok, "Value::new must store the given ValueType", site=vnew.raw["span"]["at"])
    # histogram
    hc = ctx.anchor(rid, "Histogram::collect", f.body("<prometheus::histogram::Histogram as prometheus::metrics::Collector>::collect"))
    if hc:
        ctx.saw(hc)
        st = type_sites(hc)
        ctx.ob(rid, "Histogram::collect|type", len(st) == 1 and agg_variant(_ty(st[0])) == "HISTOGRAM" and count_range(hc, [st[0].bb]) == (1, 1), "a histogram family must be declared HISTOGRAM", site=hc.raw["span"]["at"])
    hm = ctx.anchor(rid, "Histogram::metric", f.body("<prometheus::histogram::Histogram as prometheus::metrics::Metric>::metric"))
    if hm:
        ctx.saw(hm)
        ss = [strip_generics(c.callee).split("::")[-1] for c in hm.calls() if c.matches(["set_counter", "set_gauge", "set_histogram", "set_summary", "set_untyped"])]
        ctx.ob(rid, "Histogram::metric|payload", ss == ["set_histogram"], "a histogram sample must fill the histogram payload (found %s)" % ss, site=hm.raw["span"]["at"])
    # pulling gauge
    pc = ctx.anchor(rid, "PullingGauge::collect", f.body("<prometheus::pulling_gauge::PullingGauge as prometheus::metrics::Collector>::collect"))
    if pc:
        ctx.saw(pc)
        st = type_sites(pc)
        ctx.ob(rid, "PullingGauge::collect|type", len(st) == 1 and agg_variant(_ty(st[0])) == "GAUGE", "a pulling gauge family must be declared GAUGE", site=pc.raw["span"]["at"])
    pm = ctx.anchor(rid, "PullingGauge::metric", f.body("prometheus::pulling_gauge::PullingGauge::metric"))
    if pm:
        ctx.saw(pm)
        r = pm.term_local(0)
        ctx.ob(rid, "PullingGauge::metric|payload", is_call(r, ["from_gauge"]), "a pulling gauge sample must carry the gauge payload (found %s)" % show(r), site=pm.raw["span"]["at"])
    # vectors
    n = 0
    for k in f.order:
        b = f.bodies[k]
        for c in b.calls_to("MetricVec::create"):
            n += 1
            ctx.saw(b)
            t = agg_variant(c.args[0])
            a1 = peel(c.args[1])
            bld = strip_generics(a1[1]) if a1[0] == "call" else (a1[2] if a1[0] == "agg" else "")
            want = {"CounterVecBuilder": "COUNTER", "GaugeVecBuilder": "GAUGE", "HistogramVecBuilder": "HISTOGRAM"}
            exp = [v for kk, v in want.items() if kk in bld]
            ctx.ob(rid, "%s|create-type" % strip_generics(b.path), bool(exp) and t == exp[0],
                   "MetricVec::create must receive the MetricType matching its builder (found %s with %s)" % (t, bld.split("::")[-2:] if bld else "?"), site=c.span)
    ctx.floor(rid, "MetricVec::create call sites", n, 3)
    cr = ctx.anchor(rid, "MetricVec::create", f.body("prometheus::vec::MetricVec::create"))
    if cr:
        ctx.saw(cr)
        r = [a for t in ok_payloads(cr) for a in find_aggs(t, "MetricVecCore::MetricVecCore")]
        ok = bool(r) and agg_field(r[0], "metric_type") == P1 and agg_field(r[0], "new_metric") == ("param", 2)
        ctx.ob(rid, "MetricVec::create|stores-type", ok, "MetricVec::create must store the given type and builder", site=cr.raw["span"]["at"])
    mc = ctx.anchor(rid, "MetricVecCore::collect", f.body("prometheus::vec::MetricVecCore::collect"))
    if mc:
        ctx.saw(mc)
        st = type_sites(mc)
        ctx.ob(rid, "MetricVecCore::collect|type", len(st) == 1 and peel(_ty(st[0])) == SELF_FIELD("metric_type") and count_range(mc, [st[0].bb]) == (1, 1),
               "a vector's family must be declared with the stored metric_type", site=mc.raw["span"]["at"])
    # builders build the matching child type
    for bld, child in (("prometheus::counter::CounterVecBuilder<P>", "GenericCounter::with_opts_and_label_values"), ("prometheus::gauge::GaugeVecBuilder<P>", "GenericGauge::with_opts_and_label_values"),
                       ("prometheus::histogram::HistogramVecBuilder", "Histogram::with_opts_and_label_values")):
        b = ctx.anchor(rid, bld + "::build", f.body("<%s as prometheus::vec::MetricVecBuilder>::build" % bld))
        if b:
            ctx.saw(b)
            ctx.ob(rid, bld.split("::")[-1] + "|child", len(b.calls_to(child)) == 1 and b.term_local(0) == b.calls_to(child)[0].result_term(), "%s must build %s" % (bld, child), site=b.raw["span"]["at"])


def type_sites(b):
    """Where a family gets its declared type: set_field_type(..), or construction with the type field filled in (`MetricFamily { type_: t.into(), .. }` /
    `MetricFamily { field_type: t, .. }` of a model constructor expanded here).  Each site has args = [the family, the type]."""
    from pvrules.rules import field_sets
    seen = field_sets(b, "MetricFamily", "type_", ["set_field_type"])
    seen += [x for x in field_sets(b, "MetricFamily", "field_type", []) if x not in seen]
    return seen


def _ty(site):
    """the MetricType a site stores (through the `.into()` of the protobuf model's enum wrapper)"""
    return peel(site.args[1], transparent=["Into::into", "From::from", "EnumOrUnknown::new", "EnumOrUnknown::from"])


def rule_R4(ctx, f):
    rid = "R4"
    ctx.rule(rid, "the declared type of a family is set only by the collector that produced its samples: set_field_type (and direct writes of the type field) occur only in "
                  "`collect` functions of collectors; gather and the registry never rewrite a family's type")
    callers = {}
    n = 0
    for k in f.order:
        b = f.bodies[k]
        if b.path.startswith("prometheus::proto::") or b.path.startswith("prometheus::proto_ext::") or b.path.startswith("prometheus::plain_model::") or "::tests::" in b.path \
                or b.path.startswith("<prometheus::proto::") or b.path.startswith("<prometheus::plain_model::"):
            continue
        for c in b.calls():
            if c.matches(["set_field_type", "MetricFamily::set_field_type", "set_type_", "mut_field_type", "clear_field_type", "clear_type_"]):
                n += 1
                callers.setdefault(strip_generics(b.path), []).append(c)
        for c in type_sites(b):
            if c.callee == "<aggregate>":
                # a family built with its type in place (a model constructor expanded into this body)
                n += 1
                callers.setdefault(strip_generics(b.path), []).append(c)
    bad = {p: cs for p, cs in callers.items() if not (p.endswith("::collect") or p.endswith("Collector>::collect"))}
    ctx.floor(rid, "set_field_type call sites", n, 4)
    for p, cs in sorted(bad.items()):
        ctx.ob(rid, p + "|set_field_type", False,
               "%s rewrites a family's declared type; the samples keep the payload their collector filled, so the family can be declared one type while carrying another" % p, site=cs[0].span)
    if not bad:
        ctx.ob(rid, "only-collectors-declare-types", True, "%d set_field_type sites, all inside collect() of a collector" % n)


def rule_R3(ctx, f):
    from . import text_common as tc
    tc.rule_arm_payload(ctx, f, "R3")


def run(ctx):
    f = ctx.facts("default")
    ctx.run_rule("R1", lambda c: C07.rule_R3(c, f, rid="R1", prop_text=(
        "samples of a second same-name family are appended to the first one without comparing the families' types and admission does not compare types either: "
        "Counter x{k=\"1\"} and Gauge x{k=\"2\"} both register; gather yields one family whose type is whichever collector comes first, and the other sample "
        "carries a payload of the other type")))
    ctx.run_rule("R2", rule_R2, f)
    ctx.run_rule("R3", rule_R3, f)
    ctx.run_rule("R4", rule_R4, f)
    # families are merged only under their own exact name, and a descriptor (name + const labels) is admitted for one collector only
    from . import C06
    ctx.rule("R5", "merge key and admission (shared with C07.R2 `by-name` and C06.R1/R2/R4): gather merges families in a map keyed by the family's own name, unchanged; "
                   "register admits a descriptor id once and unregister releases ids only of the collector it removes — otherwise collectors of different kinds meet in one family")
    ctx.run_rule("R5", lambda c: C06._as(c, "R5", lambda s_: (C07.rule_R2(s_, f), C06.rule_R1(s_, f), C06.rule_R2(s_, f), C06.rule_R4(s_, f)),
                                         keep=lambda k: "by-name-btreemap" in k or ".R1|" in k and "C07" not in k or ".R4|" in k or "check-a-id" in k))
    # ... and that admission compares Desc.id: a counter and a gauge with the same name and const labels are kept apart only if equal descriptors get equal ids
    # whatever the hash seed (seeded change C14-9: the id hashed before the const label pairs are sorted)
    from . import C15
    db = f.body(C15.D)
    if ctx.anchor("R6", "Desc::new", db):
        ctx.rule("R6", "descriptor identity is structural (shared with C15.R1-R3): the id is the hash of the name and the const label values in name order, independent of map iteration order")
        ctx.run_rule("R6", lambda c: C06._as(c, "R6", lambda s_: (C15.rule_R1(s_, f, db), C15.rule_R2(s_, f, db), C15.rule_R3(s_, f, db))))
    if ctx.tier == "thorough":
        g = ctx.facts("plain")
        ctx.run_rule("R2@plain", lambda c: rule_R2(c, g))
