"""Effect-summary rules for the local (unsync) metrics — shared by C01.R6, C12 and C18."""
import re

from pvrules.mir import is_call, peel, show, strip_generics, TRANSPARENT
from pvrules.rules import PURE, SELF_FIELD, const_int, count_range, effect_calls

CELL_T = TRANSPARENT + ["RefCell::borrow", "RefCell::borrow_mut", "RefCell::get_mut"]
LC = "prometheus::counter::GenericLocalCounter::"
VAL = SELF_FIELD("val")
COUNTER = SELF_FIELD("counter")
PURE_CELL = PURE + ["RefCell::borrow", "RefCell::borrow_mut", "RefCell::new", "RefCell::get_mut"]


def cell(t):
    """Abstract cell addressed by a term (through RefCell borrow/deref)."""
    return peel(t, transparent=CELL_T)


def is_zero(t):
    return is_call(t, "Number::from_i64") and const_int(t[2][0]) == 0


def cell_stores(b, target):
    """(bb, value term) of assignments whose destination is the abstract cell `target`."""
    res = []
    for bi, si, pl, rv in b.stores():
        if cell(b.term_place(pl)) == target:
            res.append((bi, b.term_rvalue(rv)))
    return res


def rule_local_counter(ctx, f, rid):
    ctx.rule(rid, "local counter effect summaries: flush = (val == 0 -> nothing) | (exactly one counter.inc_by(val) then val := 0 on every path); "
                  "inc/inc_by only add to val; reset only zeroes val; clone/new start from zero; nothing else touches the shared counter")
    # ---- flush (L1)
    from pvrules import inline
    own = lambda pth: bool(re.match(r"^prometheus::counter::GenericLocalCounter::(get|reset|inc_by)$", strip_generics(pth)))   # noqa: E731
    b = ctx.anchor(rid, "GenericLocalCounter::flush", f.body(LC + "flush"))
    if b:
        ctx.saw(b)
        b = inline.expand_body(f, b, own)      # `self.get()` / `self.reset()` are the same reads and writes of self.val
        incs = [c for c in b.calls() if c.matches(["GenericCounter::inc_by", "Value::inc_by", "Atomic::inc_by"])]
        other = [c for c in effect_calls(b, PURE_CELL) if c not in incs]
        ctx.ob(rid, "flush|effects", len(incs) == 1 and not other,
               "flush must contain exactly one hand-over call counter.inc_by and no other effectful call (found %s, other %s)" % (incs, other),
               site=b.raw["span"]["at"])
        if len(incs) == 1:
            c = incs[0]
            ctx.ob(rid, "flush|receiver", peel(c.args[0]) == COUNTER, "the hand-over must go to self.counter (found %s)" % show(c.args[0]), site=c.span)
            ctx.ob(rid, "flush|amount", cell(c.args[1]) == VAL and c.args[1][0] != "binop",
                   "the amount handed over must be the accumulated self.val itself (found %s)" % show(c.args[1]), site=c.span)
            ctx.ob(rid, "flush|at-most-once", count_range(b, [c.bb])[1] == 1, "inc_by must not be executed more than once per flush (range %s)" % (count_range(b, [c.bb]),), site=c.span)
            st = cell_stores(b, VAL)
            zero_blocks = [bi for bi, v in st if is_zero(v)]
            nonzero = [bi for bi, v in st if not is_zero(v)]
            ctx.ob(rid, "flush|only-zero-stores", not nonzero, "flush may only store zero into self.val", site=c.span)
            after = set()
            for s in b.succs(c.bb):
                after |= b.reach(s)
            zs_after = [z for z in zero_blocks if z in after or z == c.bb]
            ok = bool(zs_after) and all(b.all_paths_pass(s, zs_after) for s in b.succs(c.bb))
            ctx.ob(rid, "flush|zeroed-after", ok, "after the hand-over self.val must be zeroed on every path to the return", site=c.span)
            before = [z for z in zero_blocks if c.bb in b.strictly_after(z)]
            ctx.ob(rid, "flush|not-zeroed-before", not before, "self.val must not be zeroed on a path that still reaches the hand-over", site=c.span)
            # paths that skip the hand-over must take the `val == 0` edge
            skip_edges = []
            for bi in b.reachable_blocks():
                be = b.bool_edges(bi)
                if not be:
                    continue
                cond, t_true, t_false = be
                if is_call(cond, ["PartialEq::eq", "PartialEq::ne"]):
                    a0, a1 = cond[2][0], cond[2][1]
                    zero_cmp = (cell(a0) == VAL and is_zero(peel(a1))) or (cell(a1) == VAL and is_zero(peel(a0)))
                    if zero_cmp:
                        skip_edges.append((bi, t_true if is_call(cond, "PartialEq::eq") else t_false))
            exits = set(b.exits())
            leak = b.reach(0, avoid_blocks=[c.bb], avoid_edges=skip_edges) & exits
            ctx.ob(rid, "flush|skip-only-when-zero", not leak,
                   "a path through flush that does not hand over must be the `self.val == 0` edge", site=c.span)
    # ---- inc_by / inc (L2)
    for m, argp in (("inc_by", lambda t: t == ("param", 2)), ("inc", lambda t: is_call(t, "Number::from_i64") and const_int(t[2][0]) == 1)):
        b = ctx.anchor(rid, "GenericLocalCounter::" + m, f.body(LC + m))
        if not b:
            continue
        ctx.saw(b)
        if m == "inc":
            b = inline.expand_body(f, b, own)  # inc may be written as inc_by(1)
        eff = effect_calls(b, PURE_CELL)
        adds = [c for c in eff if c.matches("AddAssign::add_assign")]
        ok = len(adds) == 1 and len(eff) == 1 and cell(adds[0].args[0]) == VAL and argp(adds[0].args[1]) and count_range(b, [adds[0].bb]) == (1, 1)
        ctx.ob(rid, m + "|adds-to-val", ok and not cell_stores(b, VAL),
               "GenericLocalCounter::%s must be exactly `*self.val += amount` (found %s)" % (m, [(c, [show(a) for a in c.args]) for c in eff]), site=b.raw["span"]["at"])
    # ---- reset (L3)
    b = ctx.anchor(rid, "GenericLocalCounter::reset", f.body(LC + "reset"))
    if b:
        ctx.saw(b)
        eff = effect_calls(b, PURE_CELL)
        st = cell_stores(b, VAL)
        ok = not eff and len(st) == 1 and is_zero(st[0][1]) and count_range(b, [st[0][0]]) == (1, 1)
        ctx.ob(rid, "reset|zero-only", ok, "reset must only store zero into self.val and never touch the shared counter", site=b.raw["span"]["at"])
    b = ctx.anchor(rid, "GenericLocalCounter::get", f.body(LC + "get"))
    if b:
        ctx.saw(b)
        ctx.ob(rid, "get|reads-val", cell(b.term_local(0)) == VAL and not effect_calls(b, PURE_CELL), "get must return self.val", site=b.raw["span"]["at"])
    # ---- new / clone / local (L4): whichever way the construction is cut into functions (a private `new`, `local()` building the value itself, `clone` going
    # through `local()`), every GenericLocalCounter that comes into being starts from zero and wraps the counter it was made from
    ctor = lambda pth: bool(re.match(r"^prometheus::counter::(GenericLocalCounter::new|GenericCounter::local)$", strip_generics(pth)))   # noqa: E731

    def fresh(r, src):
        return isinstance(r, tuple) and r and r[0] == "agg" and r[4] == ("counter", "val") and is_call(r[3][0], "Clone::clone") and peel(r[3][0]) == src \
            and is_call(r[3][1], "RefCell::new") and is_zero(r[3][1][2][0])
    b = f.body(LC + "new")
    if b:
        ctx.saw(b)
        r = b.term_local(0)
        ok = r[0] == "agg" and r[4] == ("counter", "val") and r[3][0] == ("param", 1) and is_call(r[3][1], "RefCell::new") and is_zero(r[3][1][2][0])
        ctx.ob(rid, "new|starts-at-zero", ok, "a new local counter must wrap the given counter and start from zero (found %s)" % show(r), site=b.raw["span"]["at"])
    n_aggs = 0
    for k in f.order:
        bd = f.bodies[k]
        for bi in bd.reachable_blocks():
            for st in bd.blocks[bi]["stmts"]:
                if st["k"] == "assign" and st["rv"]["k"] == "agg" and (st["rv"].get("adt") or "").endswith("counter::GenericLocalCounter"):
                    n_aggs += 1
                    t = bd.term_rvalue(st["rv"])
                    okz = t[4] == ("counter", "val") and is_call(t[3][1], "RefCell::new") and is_zero(t[3][1][2][0])
                    ctx.ob(rid, "construction|%s|starts-at-zero" % strip_generics(bd.path).split("::")[-1], okz,
                           "every GenericLocalCounter must be created with val = 0 (found %s)" % show(t), site=bd.raw["span"]["at"])
    ctx.floor(rid, "GenericLocalCounter constructions", n_aggs, 1)
    b = ctx.anchor(rid, "GenericLocalCounter::clone", f.body("<prometheus::counter::GenericLocalCounter<P> as std::clone::Clone>::clone"))
    if b:
        ctx.saw(b)
        r = inline.expand_body(f, b, ctor).term_local(0)
        ctx.ob(rid, "clone|starts-at-zero", fresh(r, COUNTER), "a cloned local counter must be a fresh local of self.counter.clone(), i.e. start empty (found %s)" % show(r), site=b.raw["span"]["at"])
    b = ctx.anchor(rid, "LocalMetric::flush", f.body("<prometheus::counter::GenericLocalCounter<P> as prometheus::metrics::LocalMetric>::flush"))
    if b:
        ctx.saw(b)
        fl = b.calls_to("GenericLocalCounter::flush")
        ctx.ob(rid, "LocalMetric::flush|delegates", len(fl) == 1 and fl[0].args[0] == ("param", 1) and count_range(b, [fl[0].bb]) == (1, 1) and len(effect_calls(b)) == 1,
               "LocalMetric::flush must be exactly one call of the inherent flush", site=b.raw["span"]["at"])
    b = ctx.anchor(rid, "GenericCounter::local", f.body("prometheus::counter::GenericCounter::local"))
    if b:
        ctx.saw(b)
        r = inline.expand_body(f, b, ctor).term_local(0)
        ctx.ob(rid, "local|wraps-self", fresh(r, ("param", 1)), "counter.local() must wrap a clone of that same counter, starting from zero (found %s)" % show(r), site=b.raw["span"]["at"])
    # who-may-write: `val` of GenericLocalCounter is written only by inc_by/inc/reset/flush/new
    writers = set()
    for k in f.order:
        bd = f.bodies[k]
        if "GenericLocalCounter" not in bd.path and "counter::" not in bd.path:
            continue
        w = False
        for bi, si, pl, rv in bd.stores():
            if cell(bd.term_place(pl)) == VAL and "GenericLocalCounter" in bd.local_ty(1 if bd.argc else 0):
                w = True
        for c in bd.calls():
            if c.matches(["AddAssign::add_assign", "SubAssign::sub_assign"]) and cell(c.args[0]) == VAL and bd.argc and "GenericLocalCounter" in bd.local_ty(1):
                w = True
        if w:
            writers.add(strip_generics(bd.path).split("::")[-1])
    ctx.ob(rid, "val|writers", writers <= {"inc_by", "inc", "reset", "flush"} and writers >= {"inc_by"},
           "self.val of a local counter is written only by inc_by, inc, reset and flush (found %s)" % sorted(writers))
