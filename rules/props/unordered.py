"""Unordered-iteration classifier (C07.R1, also used by C15.R2): every iteration over a hash container is enumerated and
classified by what the loop / iterator chain does with the elements."""
import re

from pvrules.mir import is_call, names_of, name_matches, peel, show, strip_generics, subterms

HASH_ITER = re.compile(r"std::collections::(HashMap|HashSet|hash_map::\w+|hash_set::\w+)(::<[^>]*>)?::(iter|keys|values|values_mut|iter_mut|drain|into_keys|into_values|into_iter)$")
HASH_TY = re.compile(r"std::collections::(HashMap|HashSet|hash_map::(Iter|Keys|Values|ValuesMut|IterMut|IntoIter|Drain|IntoKeys|IntoValues)|hash_set::(Iter|IntoIter|Drain))<")

ADAPT = ["Iterator::map", "Iterator::filter", "Iterator::cloned", "Iterator::copied", "Iterator::enumerate", "Iterator::zip",
         "Iterator::inspect", "Iterator::by_ref", "Iterator::filter_map", "Iterator::chain", "Iterator::peekable", "Iterator::flat_map",
         "Iterator::take_while", "Iterator::skip_while", "Iterator::map_while", "Iterator::flatten", "IntoIterator::into_iter"]
# consumers whose result does not depend on the order of a pure element stream
INSENSITIVE_CONSUMERS = ["ExactSizeIterator::len", "Iterator::count", "Iterator::any", "Iterator::all", "Iterator::max", "Iterator::min",
                         "Iterator::sum", "Iterator::product", "Iterator::max_by_key", "Iterator::min_by_key"]
# calls on an element that are reads / commutative effects
ELEMENT_INSENSITIVE = [
    "BTreeSet::insert", "HashSet::insert", "HashMap::insert", "BTreeMap::insert", "BTreeSet::contains", "HashSet::contains",
    "HashSet::remove", "BTreeSet::remove", "HashMap::remove", "BTreeMap::remove",   # removing a set of keys is commutative
    "HashMap::contains_key", "HashMap::get", "BTreeMap::get", "Clone::clone", "AsRef::as_ref", "Deref::deref", "ToOwned::to_owned",
    "ToString::to_string", "String::as_str", "String::as_bytes", "str::as_bytes", "str::len", "String::len", "str::is_empty", "String::is_empty",
    "is_valid_label_name", "is_valid_metric_name", "check_bucket_label", re.compile(r"^core::fmt::"), re.compile(r"^std::fmt::"), "hint::must_use",
    "PartialEq::eq", "PartialEq::ne", "PartialOrd::lt", "Ord::cmp", "wrapping_add", "Borrow::borrow", "From::from", "Into::into",
    "LocalMetric::flush", "GenericLocalCounter::flush", "LocalHistogram::flush", "Collector::desc", "format", "DerefMut::deref_mut",
    re.compile(r"^core::panicking::"), "Try::branch", "FromResidual::from_residual", "Default::default", "LabelPair::set_name", "LabelPair::set_value",
    "LabelPair::name", "LabelPair::value", "str::eq", "Option::is_some", "Option::is_none", "Iterator::next",
]
ORDER_SINKS = ["Vec::push", "String::push_str", "String::push", "Hasher::write", "Hasher::write_u8", "Vec::extend", "Vec::insert", "Vec::append",
               "VecDeque::push_back", "Write::write_all", "WriteUtf8::write_all", "Extend::extend"]
SORTS = ["slice::sort", "slice::sort_by", "slice::sort_by_key", "slice::sort_unstable", "slice::sort_unstable_by", "slice::sort_unstable_by_key",
         "slice::sort_by_cached_key"]


def container_kind(ty):
    if re.search(r"^&?(mut )?std::collections::(BTreeSet|HashSet|BTreeMap|HashMap)<", ty):
        return "set"
    if re.search(r"^&?(mut )?(std::vec::Vec|std::string::String|std::collections::VecDeque|\[)", ty):
        return "seq"
    return "other"


def is_hash_source(c):
    for n in c.names:
        if HASH_ITER.search(n):
            if n.endswith("into_iter"):
                # IntoIterator on a hash container (by value or by reference)
                q = c.callee_args
                return bool(re.match(r"^<&?(mut )?std::collections::(HashMap|HashSet)<", q))
            return True
    q = c.callee_args
    if c.matches("IntoIterator::into_iter") and re.match(r"^<&?(mut )?std::collections::(HashMap|HashSet)<", q):
        return True
    return False


def contains_term(t, needle, cut=("Collector::collect",)):
    """needle occurs in t, not counting occurrences inside the arguments of a `cut` call (whose result is handled by dedicated rules)."""
    if t == needle:
        return True
    if not isinstance(t, tuple) or not t:
        return False
    if t[0] == "call":
        if cut and is_call(t, list(cut)):
            return False
        return any(contains_term(a, needle, cut) for a in t[2])
    for x in t[1:]:
        if isinstance(x, tuple):
            if x and isinstance(x[0], str):
                if contains_term(x, needle, cut):
                    return True
            else:
                for y in x:
                    if isinstance(y, tuple) and contains_term(y, needle, cut):
                        return True
    return False


class Site:
    def __init__(self, body, call):
        self.body = body
        self.call = call
        self.cls = None
        self.detail = ""
        self.seq_containers = []   # (term of container, fill call)
        self.special = []

    def key(self, ordinal):
        return "%s|%s#%d" % (strip_generics(self.body.path), strip_generics(self.call.callee).split("::")[-1], ordinal)


def _only_names_the_culprit(b, c):
    """The result of the search `c` is only tested for Some/None, and every path from its Some arm returns Err."""
    from pvrules.rules import rejecting
    res = c.result_term()
    sw = []
    for bi in b.reachable_blocks():
        si = b.switch_info(bi)
        if si and si[0][0] == "discr" and peel(si[0][1], transparent=[]) == res:
            sw.append(si)
    if len(sw) != 1:
        return False
    some_t = [t for v, t in sw[0][1] if v == 1]
    if not some_t or not rejecting(b, some_t[0]):
        return False
    # no other use of the result than that test and the Some payload below it
    for x in b.calls():
        if x is c:
            continue
        if any(contains_term(a, res) for a in x.args) and x.bb not in b.reach(some_t[0]):
            return False
    return True


def classify(facts, body, src):
    """Classify one unordered-iteration source call.  Returns Site with cls in
    {'insensitive', 'sorted', 'escapes-unsorted', 'unclassified'} and details."""
    site = Site(body, src)
    problems = []
    seqs = []

    def walk_stream(b, stream_term, depth=0):
        """Follow an iterator value through adapters to its consumer(s)."""
        consumers = [c for c in b.calls() if c is not src and any(contains_term(a, stream_term) for a in c.args)]
        # only direct consumers: those where stream_term (possibly behind a ref) is an argument itself
        direct = [c for c in consumers if any(peel(a, transparent=[]) == stream_term for a in c.args)]
        if not direct and stream_term[0] == "call":
            # assigned to a variable (for-loop iterator local): find `next(&mut var)` whose var has this as alternative
            for c in b.calls_to("Iterator::next"):
                a = peel(c.args[0], transparent=[])
                if a[0] == "var" and any(x == stream_term for x in b.var_alts(a[1])):
                    direct.append(c)
        if not direct:
            return  # unused
        for c in direct:
            if c.matches("Iterator::next"):
                elem = ("field", ("downcast", c.result_term(), "Some"), "0")
                walk_element(b, elem, c)
            elif c.matches(ADAPT):
                # closures of map/filter are element consumers too
                for a in c.args[1:]:
                    if a[0] == "agg" and a[1] == "closure":
                        cl = facts.closure(a[2])
                        if cl:
                            walk_closure(cl, c)
                walk_stream(b, c.result_term(), depth + 1)
            elif c.matches(INSENSITIVE_CONSUMERS):
                pass
            elif c.matches(["Iterator::collect", "FromIterator::from_iter"]):
                ty = b.local_ty(c.dest["l"]) if not c.dest["p"] else "?"
                k = container_kind(ty)
                if k == "set":
                    pass
                elif k == "seq":
                    seqs.append((b, c.result_term(), c))
                else:
                    problems.append("collect into %s at %s" % (ty, c.span))
            elif c.matches(["Extend::extend", "Vec::extend", "HashSet::extend", "HashMap::extend", "BTreeSet::extend", "BTreeMap::extend"]):
                ty = term_ty(b, c.args[0])
                if ty == "?":
                    # the receiver is a field or another place without a local of its own: the impl the call resolved to names the type
                    m_ = re.match(r"^<(.+) as std::iter::Extend<", c.callee_args or "")
                    ty = m_.group(1) if m_ else ty
                k = container_kind(ty)
                if k == "set":
                    pass
                elif k == "seq":
                    seqs.append((b, peel(c.args[0]), c))
                else:
                    problems.append("extend of %s at %s" % (ty, c.span))
            elif c.matches(["Iterator::find", "Iterator::position"]) and _only_names_the_culprit(b, c):
                # `if let Some(x) = keys.find(|k| bad(k)) { return Err(..x..) }`: whether the call fails does not depend on the order, only which offending element the
                # error names (exactly like `for k in keys { if bad(k) { return Err(..k..) } }`, whose early return is element-local)
                pass
            elif c.matches(["Iterator::for_each", "Iterator::fold", "Iterator::try_for_each", "Iterator::try_fold", "Iterator::find", "Iterator::position",
                            "Iterator::find_map", "Iterator::last", "Iterator::nth", "Iterator::reduce"]):
                problems.append("order-sensitive consumer %s at %s" % (strip_generics(c.callee).split("::")[-1], c.span))
            else:
                problems.append("unrecognised consumer %s at %s" % (strip_generics(c.callee_args), c.span))

    def term_ty(b, t):
        t0 = t
        # type of the receiver: look for the local behind a ref
        for c in ():
            pass
        t = peel(t)
        if t[0] == "call":
            cs = [c for c in b.calls() if c.bb == t[3]]
            if cs and not cs[0].dest["p"]:
                return b.local_ty(cs[0].dest["l"])
        if t[0] == "param":
            return b.local_ty(t[1])
        if t[0] == "var":
            return b.local_ty(t[1])
        return "?"

    def walk_closure(cl, via):
        # element = parameter 2 of the closure (tuple fields for (k, v))
        elem = ("param", 2)
        walk_element(cl, elem, via, in_closure=True)

    seen_elems = set()

    def walk_element(b, elem, via, in_closure=False):
        if (b.path, elem) in seen_elems:
            return
        seen_elems.add((b.path, elem))
        uses = [c for c in b.calls() if any(contains_term(a, elem, cut=()) for a in c.args)]
        for c in uses:
            if c.matches("Collector::collect"):
                site.special.append(("collector-collect", c))
                continue
            if not any(contains_term(a, elem) for a in c.args):
                continue   # only through the result of Collector::collect
            if strip_generics(c.callee).split("::")[-1].startswith("set_") and len(c.args) >= 2 and any(contains_term(a, elem) for a in c.args[1:]):
                # a setter taints its receiver: follow the object that now carries the element
                walk_element(b, peel(c.args[0]), c)
                continue
            if c.matches(ORDER_SINKS):
                recv_ty = term_ty(b, c.args[0])
                if container_kind(recv_ty) == "set":
                    continue
                seqs.append((b, peel(c.args[0]), c))
                continue
            if c.matches(ELEMENT_INSENSITIVE) or c.matches(ADAPT) or c.matches(INSENSITIVE_CONSUMERS):
                continue
            if "prometheus::" in c.callee and c.matches(["Metric::metric", "metric"]):
                continue
            # effects confined to the element itself (each element is visited once, so their order cannot matter): an accessor of the proto model applied to the
            # element alone, a (re)borrow of it, a sort of a slice inside it with a comparator that captures nothing
            if len(c.args) == 1 and re.match(r"^prometheus::proto(_ext)?::", c.callee or "") and re.search(r"::(mut_|get_)?\w+$", strip_generics(c.callee)) \
                    and strip_generics(c.callee).split("::")[-1].split("_")[0] in ("mut", "get", "name", "help", "metric", "label"):
                continue
            if c.matches(["DerefMut::deref_mut", "slice::iter_mut", "slice::iter", "Vec::iter_mut", "Vec::as_mut_slice"]) and len(c.args) == 1:
                continue
            # a method of a *local* metric applied to the element alone (`h.reset()`, `h.clear()`, `h.flush()` for every cached local): it touches that local's own cell,
            # or hands its batch to the shared metric by commutative atomic additions (C12) -- each element once, in whatever order
            if len(c.args) == 1 and re.search(r"::(GenericLocalCounter|LocalHistogram)::\w+$", strip_generics(c.callee or "")):
                continue
            if c.matches(SORTS) and contains_term(c.args[0], elem) and not any(contains_term(a, elem) for a in c.args[1:]) and \
                    all((isinstance(a, tuple) and a and ((a[0] == "agg" and a[1] == "closure" and not a[3]) or a[0] in ("const", "fn"))) for a in c.args[1:]):
                continue
            problems.append("element flows into unrecognised call %s at %s" % (strip_generics(c.callee_args), c.span))

    walk_stream(body, src.result_term())
    # for `for x in &map` the source is itself an into_iter consumed by next
    if problems:
        site.cls = "unclassified"
        site.detail = "; ".join(problems)
        return site
    if not seqs:
        site.cls = "insensitive"
        return site
    # every sequence container that received elements must be sorted before it escapes
    unsorted = []
    for b, cont, fill in seqs:
        sorts = [c for c in b.calls_to(SORTS) if peel(c.args[0]) == cont or peel(c.args[0], transparent=["DerefMut::deref_mut", "Deref::deref"]) == cont]
        ok = False
        for s in sorts:
            if all(b.all_paths_pass(x, [s.bb]) for x in b.succs(fill.bb)) or b.all_paths_pass(fill.bb, [s.bb]):
                # no escape of the container before the sort
                esc = [c for c in b.calls() if c.bb != s.bb and c is not fill and any(contains_term(a, cont) for a in c.args)
                       and not c.matches(ORDER_SINKS + ["Vec::len", "Vec::with_capacity", "DerefMut::deref_mut", "Deref::deref", "Vec::is_empty", "Clone::clone"] + SORTS)
                       and s.bb in b.strictly_after(c.bb) and c.bb in b.strictly_after(fill.bb)]
                if not esc:
                    ok = True
        if not ok:
            unsorted.append((b, cont, fill))
    site.seq_containers = seqs
    if not unsorted:
        site.cls = "sorted"
    else:
        site.cls = "escapes-unsorted"
        site.unsorted = unsorted
        site.detail = "; ".join("%s filled at %s is not sorted before it escapes" % (show(cont), fill.span) for b, cont, fill in unsorted)
    return site


def enumerate_sites(facts, only=None):
    """All unordered-iteration sources in the crate: [(Site, ordinal)]."""
    res = []
    for k in facts.order:
        b = facts.bodies[k]
        if only and not only(b):
            continue
        n = {}
        for c in b.calls():
            if is_hash_source(c):
                name = strip_generics(c.callee).split("::")[-1]
                o = n.get(name, 0)
                n[name] = o + 1
                res.append((classify(facts, b, c), o))
    return res
