"""C12 — Local (unsync) metrics hand over exactly what they accumulated (DESIGN §4.C12)."""
import re
from pvrules.mir import is_call, peel, show, strip_generics, subterms
from pvrules.rules import PURE, SELF_FIELD, const_int, count_range, effect_calls, elem_of, try_continue_block
from . import hist_conc as hcc
from . import local_common as lc

LEVEL = "other"
EXPLANATION = ("Static MIR effect summaries: local counter flush = (val == 0 -> nothing) | (exactly one counter.inc_by(val) then val := 0), inc/inc_by only add to val, reset only "
               "zeroes it, clone/new start from zero (L1-L4); local histogram flush claims/publishes self.count with bucket deltas counts[i] and then clear() (L5), clear zeroes every "
               "counter, count and sum (L6), a clone is cleared before it is returned (L8), Drop for LocalHistogram calls flush unconditionally (L9); vector forms look the local up "
               "under the shared hash, create it from vec.with_label_values(vals).local(), flush every entry, drop the local entry before the shared child, clone to an empty map and "
               "own their locals in a plain HashMap so that drop glue flushes each (L10); AFLocal* methods delegate to exactly one method of the located local plus may_flush where "
               "documented (L11). The summaries compose to: shared = direct updates + sum of flushed batches; a second flush is the zero/empty edge.")
ASSUMPTIONS = ["unwinding out of a user closure is not considered", "RefCell borrow rules are enforced by the type system / at run time (single-threaded handles)"]
H = "prometheus::histogram::"
P = lambda i: ("param", i)  # noqa: E731
CORE = SELF_FIELD("core")


def core_recv(t):
    """self.core.borrow()/borrow_mut() receiver -> abstract self.core"""
    return peel(t, transparent=lc.CELL_T)


def fresh_empty_local(ex, t):
    """t (a term of body `ex`, in which LocalHistogram::new / LocalHistogramCore::new are expanded) is a local histogram built empty around a clone of the shared
    histogram of the handle the method was called on: zero counters, count 0, sum 0, nothing handed over while building it."""
    from pvrules.rules import agg_field
    r2 = peel(t, transparent=[])
    core_t = agg_field(r2, "core") if (isinstance(r2, tuple) and r2 and r2[0] == "agg" and r2[2].endswith("LocalHistogram::LocalHistogram")) else None
    inner = peel(core_t[2][0], transparent=[]) if is_call(core_t, "RefCell::new") else None
    if not (isinstance(inner, tuple) and inner and inner[0] == "agg" and inner[2].endswith("LocalHistogramCore::LocalHistogramCore")):
        return False
    h_, cn_, c_, s_ = (agg_field(inner, n_) for n_ in ("histogram", "counts", "count", "sum"))
    zero_counts = is_call(cn_, ["vec::from_elem"]) and const_int(cn_[2][0]) == 0
    same_hist = is_call(h_, "Clone::clone") and (lambda t_: isinstance(t_, tuple) and len(t_) == 3 and t_[0] == "field" and t_[2] == "histogram" and core_recv(t_[1]) == CORE)(peel(h_))
    return bool(zero_counts and same_hist and const_int(c_) == 0 and const_int(s_) == 0 and not [c for c in ex.calls_to(["Atomic::inc_by", "AtomicU64::inc_by_with_ordering"])])


def cleared_clone_of_self(b, r):
    """r (a term of body b) is a handle that wraps ONE clone of self.core, and that very clone is cleared exactly once, on every path, in b
    (`LocalHistogram { core: self.core.clone() }.clear()` or `let mut c = self.core.borrow().clone(); c.clear(); RefCell::new(c)`)."""
    cl = b.calls_to(["LocalHistogram::clear", "LocalHistogramCore::clear"])
    clones = [x for x in subterms(r) if isinstance(x, tuple) and x and x[0] == "call" and is_call(x, "Clone::clone") and core_recv(x[2][0]) == CORE] if isinstance(r, tuple) else []
    ok = len(cl) == 1 and count_range(b, [cl[0].bb]) == (1, 1) and isinstance(r, tuple) and r[0] == "agg" and r[2].endswith("LocalHistogram::LocalHistogram") and len(set(clones)) == 1
    if ok:
        recv = cl[0].args[0]
        ok = clones[0] in list(subterms(recv)) or peel(recv) == r
    return bool(ok)


def rule_local_histogram(ctx, f, rid):
    ctx.rule(rid, "local histogram effect summaries: flush (C03.R2 shape) then clear(); clear zeroes every element of counts, count and sum; LocalHistogram::{observe,flush,clear} "
                  "forward to the core exactly once; Clone clears the copy before returning it; Drop flushes on every path; start from zero")
    fl = hcc.rule_observe_shape(ctx, f, rid, H + "LocalHistogramCore::flush", "LocalHistogramCore::flush", True)
    if fl:
        b, e1, el, rest = fl
        cnt = SELF_FIELD("count")
        ctx.ob(rid, "LocalHistogramCore::flush|same-count", peel(e1["call"].args[1]) == cnt and peel(el["call"].args[1]) == cnt,
               "the batch must be claimed and published with the same self.count", site=el["call"].span)
        sm = [e for e in rest if e["comp"] == "sum"]
        bk = [e for e in rest if e["comp"] == "buckets"]
        ok = len(sm) == 1 and peel(sm[0]["call"].args[1]) == SELF_FIELD("sum")
        ctx.ob(rid, "LocalHistogramCore::flush|sum", ok, "the batch sum handed over must be self.sum", site=b.raw["span"]["at"])
        oku = ok and count_range(b, [sm[0]["bb"]])[1] == 1 and b.all_paths_pass(e1["bb"], [sm[0]["bb"]])
        ctx.ob(rid, "LocalHistogramCore::flush|sum-unconditional", oku,
               "once the batch is claimed its sum must be added exactly once on every path (a sum that is zero, negative or NaN is still the batch's sum)", site=b.raw["span"]["at"])
        ok = len(bk) == 1
        if ok:
            from pvrules.rules import is_zero_skip_filter
            zf = lambda t_: is_zero_skip_filter(f, t_)   # noqa: E731
            ei = elem_of(bk[0]["idx"], filter_ok=zf)
            ev = elem_of(peel(bk[0]["call"].args[1]), filter_ok=zf)
            ok = (bool(ei) and bool(ev) and ei[0] == ev[0] == SELF_FIELD("counts") and ei[2] == ["0"] and ev[2] == ["1"]) or hcc.lockstep_counts_delta(b, bk[0])
        ctx.ob(rid, "LocalHistogramCore::flush|buckets", ok, "bucket i of the shared histogram must receive counts[i]", site=b.raw["span"]["at"])
        cl = b.calls_to("LocalHistogramCore::clear")
        ok = len(cl) == 1 and peel(cl[0].args[0]) == P(1) and b.all_paths_pass(e1["bb"], [cl[0].bb]) and cl[0].bb in b.strictly_after(el["bb"])
        ctx.ob(rid, "LocalHistogramCore::flush|then-clear", ok, "after the hand-over the local buffer must be cleared on every path (a second flush then adds nothing)", site=b.raw["span"]["at"])
    # clear
    c = ctx.anchor(rid, "LocalHistogramCore::clear", f.body(H + "LocalHistogramCore::clear"))
    if c:
        ctx.saw(c)
        st = [(bi, c.term_place(pl), c.term_rvalue(rv)) for bi, si, pl, rv in c.stores()]
        zc = [x for x in st if x[1] == SELF_FIELD("count") and const_int(x[2]) == 0]
        zs = [x for x in st if x[1] == SELF_FIELD("sum") and x[2][0] == "const" and x[2][1] in ("0f64", "0.0f64", "0_f64")]
        ze = [x for x in st if x[1][0] == "deref" and (lambda e: e and e[0] == SELF_FIELD("counts") and not [a for a in e[1] if a not in ("into_iter", "iter_mut")])(elem_of(x[1][1])) and const_int(x[2]) == 0]
        ok = len(zc) == 1 and len(zs) == 1 and len(ze) == 1 and len(st) == 3 and count_range(c, [zc[0][0]]) == (1, 1) and count_range(c, [zs[0][0]]) == (1, 1)
        # fill(0) form
        fills = [x for x in c.calls_to(["slice::fill"]) if peel(x.args[0], transparent=["DerefMut::deref_mut"]) == SELF_FIELD("counts") and const_int(x.args[1]) == 0]
        ok = ok or (len(zc) == 1 and len(zs) == 1 and len(fills) == 1)
        ctx.ob(rid, "LocalHistogramCore::clear|zeroes-all", ok and not effect_calls(c, PURE + ["IntoIterator::into_iter", "Iterator::next", "slice::fill", "slice::iter_mut"]),
               "clear must zero every bucket counter, the count and the sum, and nothing else (found stores %s)" % [(show(t), show(v)) for _, t, v in st], site=c.raw["span"]["at"])
    # wrappers
    for m, callee, extra in (("observe", "LocalHistogramCore::observe", [P(2)]), ("flush", "LocalHistogramCore::flush", []), ("clear", "LocalHistogramCore::clear", [])):
        b = ctx.anchor(rid, "LocalHistogram::" + m, f.body(H + "LocalHistogram::" + m))
        if b:
            ctx.saw(b)
            cs = b.calls_to(callee)
            eff = effect_calls(b, lc.PURE_CELL)
            ok = len(cs) == 1 and len(eff) == 1 and core_recv(cs[0].args[0]) == CORE and [peel(a) for a in cs[0].args[1:]] == extra and count_range(b, [cs[0].bb]) == (1, 1)
            ctx.ob(rid, "LocalHistogram::%s|forwards" % m, ok, "LocalHistogram::%s must be exactly one %s on self.core" % (m, callee), site=b.raw["span"]["at"])
    # Clone
    b = ctx.anchor(rid, "LocalHistogram::clone", f.body("<prometheus::histogram::LocalHistogram as std::clone::Clone>::clone"))
    if b:
        ctx.saw(b)
        r = peel(b.term_local(0))
        ok = cleared_clone_of_self(b, r)
        if not ok:
            # built empty in the first place: LocalHistogram::new(<clone of this handle's shared histogram>), i.e. zero counters around the same Histogram
            from pvrules import inline
            from pvrules.rules import agg_field
            ex = inline.expand_body(f, b, lambda pth: strip_generics(pth) in (H + "LocalHistogram::new", H + "LocalHistogramCore::new"))
            ok = fresh_empty_local(ex, ex.term_local(0))
        ctx.ob(rid, "LocalHistogram::clone|cleared", ok, "a cloned local histogram must be cleared before it is returned (otherwise its pending observations are flushed twice)", site=b.raw["span"]["at"])
        derived = [im for im in f.impls if im.get("trait") == "std::clone::Clone" and im["self"] == "prometheus::histogram::LocalHistogram" and im.get("exp")]
        ctx.ob(rid, "LocalHistogram::clone|not-derived", not derived, "Clone for LocalHistogram must be the hand-written clearing impl, not a derive")
    # Drop
    d = ctx.anchor(rid, "Drop for LocalHistogram", f.body("<prometheus::histogram::LocalHistogram as std::ops::Drop>::drop"))
    if d:
        ctx.saw(d)
        cs = d.calls_to(["LocalHistogram::flush", "LocalHistogramCore::flush"])
        ok = len(cs) == 1 and peel(cs[0].args[0], transparent=lc.CELL_T) in (P(1), CORE) and count_range(d, [cs[0].bb]) == (1, 1) and len(effect_calls(d, lc.PURE_CELL)) == 1
        ctx.ob(rid, "LocalHistogram::drop|flushes", ok, "dropping a local histogram must flush it on every path, unconditionally", site=d.raw["span"]["at"])
    # new: starts empty
    n = ctx.anchor(rid, "LocalHistogramCore::new", f.body(H + "LocalHistogramCore::new"))
    if n:
        ctx.saw(n)
        r = n.term_local(0)
        from pvrules.rules import agg_field
        ok = r[0] == "agg" and const_int(agg_field(r, "count")) == 0 and agg_field(r, "sum")[0] == "const" and agg_field(r, "sum")[1].startswith("0") and agg_field(r, "histogram") == P(1)
        cnts = agg_field(r, "counts") if r[0] == "agg" else None
        ok = ok and cnts is not None and is_call(peel(cnts, transparent=[]), ["from_elem", "vec::from_elem"]) and const_int(peel(cnts, transparent=[])[2][0]) == 0
        ctx.ob(rid, "LocalHistogramCore::new|starts-empty", ok, "a new local histogram must start with zero counters, count and sum (found %s)" % show(r), site=n.raw["span"]["at"])
    hl = ctx.anchor(rid, "Histogram::local", f.body(H + "Histogram::local"))
    if hl:
        ctx.saw(hl)
        r = hl.term_local(0)
        ok = is_call(r, "LocalHistogram::new") and is_call(r[2][0], "Clone::clone") and peel(r[2][0]) == P(1)
        ctx.ob(rid, "Histogram::local|wraps-self", ok, "histogram.local() must wrap a clone of that same histogram", site=hl.raw["span"]["at"])


def rule_vec_forms(ctx, f, rid):
    ctx.rule(rid, "vector forms: with_label_values = entry(hash(vals)).or_insert_with(|| vec.with_label_values(vals).local()) (C05.R6); flush iterates ALL local values and flushes each; "
                  "remove_label_values removes the local entry BEFORE deleting the shared child and always; Clone -> new(vec.clone()) with an empty map; locals are owned by a plain "
                  "HashMap field (no ManuallyDrop / mem::forget anywhere in the crate) so that drop glue flushes each local histogram")
    for ty, path, flush_callee in (("GenericLocalCounterVec", "prometheus::counter::GenericLocalCounterVec::", ["GenericLocalCounter::flush", "LocalMetric::flush"]),
                                   ("LocalHistogramVec", H + "LocalHistogramVec::", ["LocalHistogram::flush", "LocalMetric::flush"])):
        # who may touch the cache: a cached local holds the only copy of its pending data, so entries leave the map only through remove_label_values
        allowed = {"with_label_values": {"entry"}, "remove_label_values": {"remove"}}
        readonly = {"len", "is_empty", "contains_key", "get", "get_mut", "keys", "values", "values_mut", "iter", "iter_mut", "capacity", "fmt", "reserve"}
        n_uses = 0
        for k in f.order:
            bb_ = f.bodies[k]
            sp = strip_generics(bb_.path)
            if ty not in sp or ty != "GenericLocalCounterVec":
                continue   # (a LocalHistogram flushes itself when dropped, so evicting one from LocalHistogramVec loses nothing; a local counter has no Drop)
            for c in bb_.calls():
                if not c.args or peel(c.args[0]) != SELF_FIELD("local"):
                    continue
                meth = strip_generics(c.callee).split("::")[-1]
                fn = [x for x in sp.split("::") if not x.startswith("{")][-1]
                n_uses += 1
                if meth not in readonly and meth not in allowed.get(fn, set()):
                    ctx.ob(rid, "%s::%s|local.%s" % (ty, fn, meth), False,
                           "%s::%s applies `%s` to the cache of locals: entries (and the un-flushed data they hold) may leave the cache only through remove_label_values, "
                           "and enter it only through entry() in with_label_values" % (ty, fn, meth), site=c.span)
        if ty == "GenericLocalCounterVec":
            ctx.floor(rid, "uses of %s.local" % ty, n_uses, 2)
        b = ctx.anchor(rid, ty + "::flush", f.body(path + "flush"))
        if b:
            ctx.saw(b)
            cs = b.calls_to(flush_callee)
            ok = len(cs) == 1
            if ok:
                e = elem_of(peel(cs[0].args[0]))
                ok = bool(e) and e[0] == SELF_FIELD("local") and e[1] and not [a for a in e[1] if a not in ("values", "into_iter", "iter", "values_mut")]
                nx = [c for c in b.calls_to("Iterator::next")]
                if ok and nx:
                    si = b.switch_info(nx[0].target)
                    be_ = [t for v, t in si[1] if v == 1][0]
                    ok = b.all_paths_pass(be_, [cs[0].bb], dst_set={nx[0].bb})
            ctx.ob(rid, ty + "::flush|all-locals", ok, "%s::flush must flush every cached local (no filter, no early exit)" % ty, site=b.raw["span"]["at"])
        r = ctx.anchor(rid, ty + "::remove_label_values", f.body(path + "remove_label_values"))
        if r:
            ctx.saw(r)
            rm = [c for c in r.calls_to("HashMap::remove") if peel(c.args[0]) == SELF_FIELD("local")]
            dl = r.calls_to("MetricVecCore::delete_label_values")
            hs = r.calls_to("MetricVecCore::hash_label_values")
            ok = len(rm) == 1 and len(dl) == 1 and len(hs) == 1
            if ok:
                cont = try_continue_block(r, hs[0])
                # the local removal happens whenever the hash could be computed, and before the shared delete (whose failure must not keep a stale local bound to an orphan)
                ok = cont is not None and r.all_paths_pass(cont, [rm[0].bb]) and r.dominates(rm[0].bb, dl[0].bb) and rm[0].bb != dl[0].bb
            ctx.ob(rid, ty + "::remove_label_values|local-first", ok,
                   "remove_label_values must drop the local entry on every path on which the labels are well-formed, before (and independent of the result of) deleting the shared child", site=r.raw["span"]["at"])
        # construction, however it is cut into functions (private `new`, `local()` building the value, `clone` through `local()`): an empty cache around a clone of the vector
        from pvrules import inline
        from pvrules.rules import agg_field
        shared = "GenericCounterVec" if "Counter" in ty else "HistogramVec"
        # `vec.local()` lives in `impl MetricVec<..Builder>`: found by its name and return type
        local_fns = [k for k in f.order if k.endswith("::local") and re.sub(r"<.*$", "", f.bodies[k].local_ty(0)).endswith("::" + ty)]
        ctor = lambda pth, local_fns=local_fns: strip_generics(pth) == path + "new" or pth in local_fns   # noqa: E731

        def fresh(rr, src):
            return isinstance(rr, tuple) and rr and rr[0] == "agg" and agg_field(rr, "vec") is not None and is_call(agg_field(rr, "vec"), "Clone::clone") and peel(agg_field(rr, "vec")) == src \
                and is_call(agg_field(rr, "local"), ["HashMap::with_capacity", "HashMap::new", "Default::default"])
        c = ctx.anchor(rid, ty + "::clone", f.body("<%s as std::clone::Clone>::clone" % (path[:-2] + ("<P>" if "Counter" in ty else ""))))
        if c:
            ctx.saw(c)
            rr = inline.expand_body(f, c, ctor).term_local(0)
            ctx.ob(rid, ty + "::clone|starts-empty", fresh(rr, SELF_FIELD("vec")), "a cloned local vector must be a fresh local of self.vec.clone(), i.e. have no locals (found %s)" % show(rr)[:300], site=c.raw["span"]["at"])
        lo = ctx.anchor(rid, shared + "::local", f.bodies[local_fns[0]] if len(local_fns) == 1 else None)
        if lo:
            ctx.saw(lo)
            rr = inline.expand_body(f, lo, ctor).term_local(0)
            ctx.ob(rid, shared + "::local|starts-empty", fresh(rr, P(1)), "vec.local() must wrap a clone of that vector with an empty cache (found %s)" % show(rr)[:300], site=lo.raw["span"]["at"])
        n = f.body(path + "new")
        if n:
            ctx.saw(n)
            rr = n.term_local(0)
            ok = rr[0] == "agg" and agg_field(rr, "vec") == P(1) and is_call(agg_field(rr, "local"), ["HashMap::with_capacity", "HashMap::new", "Default::default"])
            ctx.ob(rid, ty + "::new|empty-map", ok, "a new local vector wraps the vector with an empty cache", site=n.raw["span"]["at"])
        n_aggs = 0
        for k in f.order:
            bd = f.bodies[k]
            for bi in bd.reachable_blocks():
                for st in bd.blocks[bi]["stmts"]:
                    if st["k"] == "assign" and st["rv"]["k"] == "agg" and (st["rv"].get("adt") or "").endswith("::" + ty):
                        n_aggs += 1
                        t = bd.term_rvalue(st["rv"])
                        ctx.ob(rid, "%s|construction|%s|empty-map" % (ty, strip_generics(bd.path).split("::")[-1]),
                               is_call(agg_field(t, "local"), ["HashMap::with_capacity", "HashMap::new", "Default::default"]),
                               "every %s must be created with an empty cache (found %s)" % (ty, show(t)[:200]), site=bd.raw["span"]["at"])
        ctx.floor(rid, ty + " constructions", n_aggs, 1)
    adt = f.adt(H + "LocalHistogramVec")
    if adt:
        fs = {x["name"]: x["ty"] for x in adt["variants"][0]["fields"]}
        ctx.ob(rid, "LocalHistogramVec|owns-locals", fs.get("local", "").startswith("std::collections::HashMap<u64, prometheus::histogram::LocalHistogram"),
               "LocalHistogramVec must own its local histograms directly in a HashMap (so dropping the vector drops, hence flushes, each) — found %s" % fs.get("local"))
    adt = f.adt(H + "LocalHistogram")
    if adt:
        fs = {x["name"]: x["ty"] for x in adt["variants"][0]["fields"]}
        ctx.ob(rid, "LocalHistogram|owns-core", fs.get("core") == "std::cell::RefCell<prometheus::histogram::LocalHistogramCore>", "LocalHistogram must own its core in a RefCell (found %s)" % fs.get("core"))
    bad = []
    for k in f.order:
        b = f.bodies[k]
        for c in b.calls():
            if c.matches(["mem::forget", "ManuallyDrop::new", "Box::leak", "Rc::into_raw", "Arc::into_raw", "Box::into_raw"]) and "static" not in b.path:
                bad.append((b, c))
    for b, c in bad:
        ctx.ob(rid, "%s|%s" % (strip_generics(b.path), strip_generics(c.callee)), False, "no value may be leaked (mem::forget / ManuallyDrop): a leaked local would never flush", site=c.span)
    if not bad:
        ctx.ob(rid, "no-leaks", True, "no mem::forget / ManuallyDrop::new / into_raw in the crate")


def rule_auto_flush(ctx, f, rid):
    ctx.rule(rid, "auto-flush wrappers: every AFLocalCounter / AFLocalHistogram method runs, inside LocalKey::with of the delegator's root metric, exactly one method of the local "
                  "located by the delegator (same-named method, arguments forwarded) plus may_flush for the updating methods; MayFlush::try_flush flushes iff now >= last + interval")
    A = "prometheus::auto_flush::"
    table = [
        ("AFLocalCounter", "inc_by", "GenericLocalCounter::inc_by", True, True), ("AFLocalCounter", "inc", "GenericLocalCounter::inc", False, True),
        ("AFLocalCounter", "get", "GenericLocalCounter::get", False, False), ("AFLocalCounter", "reset", "GenericLocalCounter::reset", False, False),
        ("AFLocalHistogram", "observe", "LocalHistogram::observe", True, True), ("AFLocalHistogram", "clear", "LocalHistogram::clear", False, False),
        ("AFLocalHistogram", "flush", "LocalHistogram::flush", False, False), ("AFLocalHistogram", "get_sample_sum", "LocalHistogram::get_sample_sum", False, False),
        ("AFLocalHistogram", "get_sample_count", "LocalHistogram::get_sample_count", False, False),
    ]
    n = 0
    for ty, m, callee, has_arg, flushes in table:
        b = ctx.anchor(rid, "%s::%s" % (ty, m), f.body(A + ty + "::" + m))
        if not b:
            continue
        ctx.saw(b)
        n += 1
        withs = b.calls_to("LocalKey::with")
        ok = len(withs) == 1 and count_range(b, [withs[0].bb]) == (1, 1)
        cl = None
        if ok:
            a = withs[0].args[1]
            if a[0] == "agg" and a[1] == "closure":
                cl = f.closure(a[2])
            root = peel(withs[0].args[0], transparent=[])
            ok = cl is not None and is_call(root, ["get_root_metric", "CounterDelegator::get_root_metric", "HistogramDelegator::get_root_metric"])
        okc = False
        if ok and cl:
            ctx.saw(cl)
            tg = cl.calls_to(callee)
            mf = cl.calls_to("MayFlush::may_flush")
            eff = effect_calls(cl, PURE + ["get_counter", "CounterDelegator::get_local", "HistogramDelegator::get_local", "AFLocalCounter::get_counter"])
            okc = len(tg) == 1 and count_range(cl, [tg[0].bb]) == (1, 1)
            if okc:
                loc = peel(tg[0].args[0], transparent=[])
                okc = is_call(loc, ["get_counter", "get_local", "AFLocalCounter::get_counter", "CounterDelegator::get_local", "HistogramDelegator::get_local"]) and peel(loc[2][1]) == P(2)
                if has_arg:
                    # the forwarded value is the captured argument
                    caps = withs[0].args[1][3]
                    from pvrules.rules import resolve_capture
                    capv = resolve_capture(tg[0].args[1], caps)
                    okc = okc and capv == P(2)
                okc = okc and (len(mf) == 1 and count_range(cl, [mf[0].bb]) == (1, 1) and peel(mf[0].args[0]) == P(2) and mf[0].bb in cl.strictly_after(tg[0].bb) if flushes else len(mf) == 0)
                okc = okc and len(eff) == (2 if flushes else 1)
        ctx.ob(rid, "%s::%s|delegates" % (ty, m), ok and okc, "%s::%s must run exactly %s on the located local%s inside with()" % (ty, m, callee, " followed by may_flush" if flushes else ""), site=b.raw["span"]["at"])
    ctx.floor(rid, "auto-flush wrapper methods", n, 9)
    # (a private accessor; without it the wrappers call the delegator's get_local themselves, which `delegates` above checks)
    gc = f.body(A + "AFLocalCounter::get_counter")
    if gc:
        ctx.saw(gc)
        r = peel(gc.term_local(0), transparent=[])
        ok = is_call(r, ["CounterDelegator::get_local", "get_local"]) and peel(r[2][0]) == SELF_FIELD("delegator") and peel(r[2][1]) == P(2) and not effect_calls(gc, PURE + ["CounterDelegator::get_local", "get_local"])
        ctx.ob(rid, "AFLocalCounter::get_counter|locates-via-delegator", ok and len(gc.calls()) == 1,
               "get_counter must locate the local counter from the root metric it is given, on every call (the root is per thread: nothing may be cached in the shared accessor)", site=gc.raw["span"]["at"])
    b = ctx.anchor(rid, "AFLocalCounter::flush", f.body(A + "AFLocalCounter::flush"))
    if b:
        ctx.saw(b)
        withs = b.calls_to("LocalKey::with")
        ok = len(withs) == 1
        if ok:
            cl = f.closure(withs[0].args[1][2]) if withs[0].args[1][0] == "agg" else None
            ok = cl is not None and len(cl.calls_to(["LocalMetric::flush", "MayFlush::flush"])) == 1 and peel(cl.calls_to(["LocalMetric::flush", "MayFlush::flush"])[0].args[0]) == P(2)
        ctx.ob(rid, "AFLocalCounter::flush|root", ok, "AFLocalCounter::flush must flush the root metric", site=b.raw["span"]["at"])
    tf = ctx.anchor(rid, "MayFlush::try_flush", f.body("prometheus::metrics::MayFlush::try_flush"))
    if tf:
        ctx.saw(tf)
        fl = tf.calls_to(["LocalMetric::flush"])
        ok = len(fl) == 1 and peel(fl[0].args[0]) == P(1) and count_range(tf, [fl[0].bb]) == (0, 1)
        g = False
        for bi in tf.reachable_blocks():
            be = tf.bool_edges(bi)
            if be and be[0][0] == "binop" and be[0][1] in ("Lt", "Ge", "Le", "Gt") and fl and tf.dominates(bi, fl[0].bb):
                g = True
        st = tf.calls_to(["Cell::set", "Cell::replace"])
        ctx.ob(rid, "try_flush|guarded", ok and g and len(st) >= 1, "try_flush must flush at most once, guarded by the elapsed-interval comparison, and record the flush time", site=tf.raw["span"]["at"])


def run(ctx):
    f = ctx.facts("default")
    ctx.run_rule("L1", lambda c: lc.rule_local_counter(c, f, "L1"))
    ctx.run_rule("L5", lambda c: rule_local_histogram(c, f, "L5"))
    from . import C06, C08
    ctx.rule("L7", "the local histogram buckets by the same rule as the shared one (shared with C08.R4): first bound with v <= bound, count and sum unconditional")
    ctx.run_rule("L7", lambda c: C06._as(c, "L7", lambda s: C08.rule_R4(s, f)))
    ctx.run_rule("L10", lambda c: rule_vec_forms(c, f, "L10"))
    ctx.run_rule("L11", lambda c: rule_auto_flush(c, f, "L11"))
    from . import controls
    ctx.run_rule("L10", lambda c: controls.control_leak_and_instant(c, "L10", "forget"))
    from pvrules import witness
    ctx.run_rule("L13", lambda c: witness.rule_witnesses(c, "L13", "c12_", 4))
    ctx.run_rule("L12", lambda c: controls.rule_no_manual_send_sync(c, f, "L12", "local metrics are exact only because one thread at a time can reach them (`&self` methods on RefCell / plain "
                                                                            "fields): a shared reference from two threads makes `+=` on the pending value a lost update"))
    if ctx.tier == "thorough":
        g = ctx.facts("plain")
        ctx.run_rule("L1@plain", lambda c: lc.rule_local_counter(c, g, "L1@plain"))
        ctx.run_rule("L5@plain", lambda c: rule_local_histogram(c, g, "L5@plain"))
